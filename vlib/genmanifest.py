"""Regenerates /verif/MANIFEST.json from vlib/props.py (python3 -m vlib.genmanifest)."""
import json
import os
import subprocess
from . import props, build

ALL = ['C%02d' % i for i in range(1, 21)]


def main():
    hooks_commits = subprocess.run(
        ['git', '-C', '/repo', 'log', '--format=%h %s', '--grep=^hooks:'],
        stdout=subprocess.PIPE, text=True).stdout.strip().splitlines()
    m = dict(
        version=1,
        setup_cmd='./setup.sh',
        hooks=dict(
            guard='UPIPE_VERIF',
            enable='checks compile the needed /repo sources themselves with '
                   '-DUPIPE_VERIF (vlib/build.py, one object directory per '
                   'sanitizer variant under /verif/build)',
            baseline_off_cmd='/verif/tools/baseline_off.sh',
            source_commits=[c.split()[0] for c in hooks_commits],
            add_only=True,
        ),
        engines=props.ENGINES,
        checks=[],
        not_applicable=[],
        notes='See DESIGN.md. Every check: ./check <ID> --tier quick|thorough; '
              'exit 0 held / 1 violation / 2 inconclusive or harness failure.',
    )
    for pid in ALL:
        if pid in props.PROPS:
            s = props.PROPS[pid]
            m['checks'].append(dict(
                property_id=pid,
                quick_cmd='./check %s --tier quick' % pid,
                thorough_cmd='./check %s --tier thorough' % pid,
                evidence_file='/verif/evidence/%s.json' % pid,
                replay_cmd_template='./check %s --replay {path}' % pid,
                engine=s.get('engine', ''),
                level_claimed=dict(category=s.get('level', 'exploration'),
                                   text=s['level_text'],
                                   design_ref=s.get('design_ref', 'DESIGN.md section 3, ' + pid)),
                level_note=s['level_note'],
                technique=s['technique'],
            ))
        else:
            m['not_applicable'].append(dict(
                property_id=pid,
                reason=props.NOT_CLAIMED.get(pid, 'check not built yet (work in progress)')))
    json.dump(m, open(os.path.join(build.VERIF, 'MANIFEST.json'), 'w'), indent=1)
    print('MANIFEST.json: %d checks, %d not claimed' % (len(m['checks']), len(m['not_applicable'])))


if __name__ == '__main__':
    main()
