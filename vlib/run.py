"""Run harness binaries in parallel worker processes, restart after sanitizer
aborts, collect JSON lines, classify crashes into stable violation keys."""
import json
import os
import re
import struct
import subprocess
import tempfile
import time
from concurrent.futures import ThreadPoolExecutor

NCPU = os.cpu_count() or 4

ASAN_ENV = ('abort_on_error=1:halt_on_error=1:detect_leaks=%d:'
            'allocator_may_return_null=1:detect_stack_use_after_return=0:'
            'malloc_context_size=12:symbolize=1:print_summary=1:'
            'handle_abort=0:handle_segv=1:quarantine_size_mb=16')
UBSAN_ENV = 'print_stacktrace=0:halt_on_error=0'
TSAN_ENV = ('halt_on_error=0:second_deadlock_stack=1:history_size=4:'
            'report_signal_unsafe=0:exitcode=0')

FRAME_RE = re.compile(r'^\s*#(\d+) 0x[0-9a-f]+ in (\S+) (\S+)')


INLINE_HELPERS = ('uatomic_', 'ueventfd_', 'uring_', 'ulist_', 'uchain_',
                  'ubase_', 'urefcount_use', 'urefcount_single')


def _first_repo_frame(lines, repo):
    """first stack frame whose source is in the repo (not harness, not libc,
    not a tiny inline helper), qualified by its caller so that a recorded
    finding designates one call site"""
    found = None
    for ln in lines:
        m = FRAME_RE.match(ln)
        if not m:
            if found and ln.strip() == '':
                break
            continue
        func, loc = m.group(2), m.group(3)
        if '/verif/' in loc:
            if found:
                break
            continue
        if repo in loc or '/include/upipe' in loc or '/lib/up' in loc:
            if func.startswith(INLINE_HELPERS):
                continue
            if found is None:
                found = (func, loc)
            elif func != found[0]:
                return '%s@%s' % (found[0], func), found[1]
    return found if found else (None, None)


def _first_frame_any(lines):
    for ln in lines:
        m = FRAME_RE.match(ln)
        if m and not m.group(2).startswith('__interceptor') and \
                not m.group(2).startswith('__asan') and \
                'libasan' not in m.group(3) and 'asan_' not in m.group(3):
            return m.group(2), m.group(3)
    return None, None


def classify_crash(stderr_text, repo, kind_hint):
    """returns (key, summary) for a crashed worker"""
    lines = stderr_text.splitlines()
    m = re.search(r'^VH-ABORT-KEY (\S+)', stderr_text, re.M)
    if m:
        return m.group(1), 'harness-decided abort (non-termination in logical steps)'
    # AddressSanitizer
    for i, ln in enumerate(lines):
        m = re.search(r'ERROR: AddressSanitizer: ([a-zA-Z0-9_-]+)', ln)
        if m:
            kind = m.group(1)
            if kind == 'attempting':  # "attempting double-free" / "attempting free on ..."
                m2 = re.search(r'attempting (double-free|free on address which was not malloc)', ln)
                kind = 'double-free' if m2 and 'double' in m2.group(1) else 'bad-free'
            func, loc = _first_repo_frame(lines[i:i + 40], repo)
            if func is None:
                func, loc = _first_frame_any(lines[i:i + 40])
            return 'asan:%s:%s' % (kind, func or '?'), ln.strip()
        m = re.search(r'ERROR: LeakSanitizer: detected memory leaks', ln)
        if m:
            func, loc = _first_repo_frame(lines[i:i + 60], repo)
            return 'lsan:leak:%s' % (func or '?'), ln.strip()
    for ln in lines:
        m = re.search(r"(\S+): (\S+):(\d+): (\S+): Assertion [`'](.*)' failed", ln)
        if m:
            return 'abort:%s:%s' % (m.group(4), m.group(5)), ln.strip()
    if kind_hint == 'timeout':
        return 'timeout', 'watchdog'
    return 'crash:%s' % (kind_hint or 'unknown'), (lines[-1] if lines else '')


def parse_ubsan(stderr_text):
    """UBSan runtime error lines -> {normalised: count}"""
    out = {}
    for ln in stderr_text.splitlines():
        m = re.search(r'(\S+?):(\d+):(\d+): runtime error: (.*)', ln)
        if m:
            f = m.group(1)
            f = re.sub(r'^.*?/(include|lib)/', r'\1/', f)
            msg = re.sub(r'-?\d+', 'N', m.group(4))
            msg = re.sub(r'0x[0-9a-f]+', 'ADDR', msg)
            k = '%s:%s: %s' % (f, m.group(2), msg)
            out[k] = out.get(k, 0) + 1
    return out


TSAN_BY_DESIGN = ('uring_',)

# races identified by functions present anywhere in the two stacks, so that
# one defect has one key whatever the top frames are
TSAN_RULES = [
    ('xfer-mgr-freed-while-detach-message-is-being-pushed',
     {'upipe_xfer_mgr_free'}, {'upipe_xfer_mgr_detach'}),
    ('queue-source-freed-while-ref-end-message-is-being-pushed',
     {'upipe_qsrc_free'}, {'upipe_qsrc_no_ref'}),
]


def parse_tsan(stderr_text, repo):
    """ThreadSanitizer report blocks -> list of (key, summary, by_design)"""
    out = []
    blocks = stderr_text.split('==================')
    for b in blocks:
        m = re.search(r'WARNING: ThreadSanitizer: ([^(\n]+)', b)
        if not m:
            continue
        kind = m.group(1).strip().replace(' ', '-')
        lines = b.splitlines()
        tops = []
        cur = None
        for ln in lines:
            if re.match(r'^\s+(Previous )?(atomic )?(read|write) of size', ln, re.I):
                if len(tops) >= 2:
                    break
                cur = []
                tops.append(cur)
                continue
            if cur is not None and re.match(r'^\s+(Location|Thread|Mutex|As if|SUMMARY)', ln):
                cur = None
                continue
            fm = FRAME_RE.match(ln) or re.match(r'^\s*#(\d+) (\S+) (\S+)', ln)
            if fm and cur is not None:
                cur.append((fm.group(2), fm.group(3)))
        funcs = []
        for st in tops[:2]:
            f = None
            for func, loc in st:
                if '/verif/' in loc or func.startswith('__') or 'tsan' in loc:
                    continue
                f = func
                break
            if f is None and st:
                f = st[0][0]
            funcs.append(f or '?')
        allf = [set(f for f, _ in st) for st in tops[:2]]
        rule = None
        if len(allf) == 2:
            for name, a, b in TSAN_RULES:
                if (a <= allf[0] and b <= allf[1]) or (a <= allf[1] and b <= allf[0]):
                    rule = name
        if rule:
            out.append(('tsan:%s:%s' % (kind, rule), ' / '.join(funcs), False))
            continue
        by_design = kind == 'data-race' and (any(f.startswith(TSAN_BY_DESIGN) for f in funcs) or
                                              # one side inside uninstrumented libev (fd bookkeeping vs close)
                                              ('<null>' in funcs and any(f in ('ueventfd_clean',) for f in funcs)))
        key = 'tsan:%s:%s' % (kind, '|'.join(sorted(set(funcs))))
        out.append((key, ' / '.join(funcs), by_design))
    return out


class WorkerResult:
    def __init__(self):
        self.stats = []          # stats dicts (one per process segment)
        self.viols = []          # dicts with key/detail/case_seed/trace
        self.diags = []
        self.ubsan = {}
        self.cases_run = 0
        self.crashes = 0
        self.inconclusive = []   # strings
        self.stderr_tail = ''
        self.extra = []          # other JSON lines
        self.tsan_by_design = {}


def run_worker(binpath, base_args, worker, seed, cases, env, repo,
               timeout_s, outdir, leak_check=False, max_restarts=30):
    """Run one worker over [0, cases), restarting after crashes."""
    res = WorkerResult()
    start = 0
    restarts = 0
    timeouts = 0
    crash_keys = {}
    while start < cases:
        hashes = os.path.join(outdir, 'hashes.%d.%d' % (worker, start))
        args = [binpath] + base_args + [
            '--seed', str(seed), '--worker', str(worker),
            '--start', str(start), '--cases', str(cases - start),
            '--hashes-out', hashes]
        errpath = os.path.join(outdir, 'stderr.%d.%d' % (worker, start))
        with open(errpath, 'wb') as ferr:
            try:
                p = subprocess.run(args, stdout=subprocess.PIPE, stderr=ferr,
                                   env=env, timeout=timeout_s)
                out, rc, timed_out = p.stdout, p.returncode, False
            except subprocess.TimeoutExpired as e:
                out, rc, timed_out = e.stdout or b'', -9, True
        err = open(errpath, 'rb').read().decode('utf-8', 'replace')
        crash = None
        got_stats = False
        for ln in out.decode('utf-8', 'replace').splitlines():
            ln = ln.strip()
            if not ln.startswith('{'):
                continue
            try:
                j = json.loads(ln)
            except ValueError:
                continue
            t = j.get('t')
            if t == 'stats':
                res.stats.append(j)
                res.cases_run += j.get('cases_run', 0)
                got_stats = True
            elif t == 'viol':
                res.viols.append(j)
            elif t == 'diag':
                res.diags.append(j)
            elif t == 'crash':
                crash = j
            else:
                res.extra.append(j)
        for k, v in parse_ubsan(err).items():
            res.ubsan[k] = res.ubsan.get(k, 0) + v
        if 'ThreadSanitizer' in err:
            for key, summ, by_design in parse_tsan(err, repo):
                if by_design:
                    res.tsan_by_design[key] = res.tsan_by_design.get(key, 0) + 1
                else:
                    res.viols.append(dict(key=key, detail=summ, case=-1,
                                          case_seed=None, worker=worker,
                                          stderr=err[-8000:], trace=''))
        res.stderr_tail = err[-4000:]
        if rc == 0 and got_stats:
            break
        if timed_out:
            timeouts += 1
            if timeouts >= 2:
                res.inconclusive.append(
                    'worker %d: watchdog fired twice at start=%d' % (worker, start))
                break
            continue  # re-run once
        # crashed
        res.crashes += 1
        key, summary = classify_crash(err, repo, crash.get('kind') if crash else None)
        if crash is None:
            # died without context: harness failure unless a sanitizer spoke
            if key.startswith('crash:'):
                res.inconclusive.append(
                    'worker %d exited rc=%d without crash context: %s'
                    % (worker, rc, err[-300:]))
                break
            # e.g. LeakSanitizer at exit: attribute to the whole segment
            res.viols.append(dict(key=key, detail=summary, case=-1,
                                  case_seed=None, worker=worker,
                                  stderr=err[-6000:], trace=''))
            break
        trace = ''
        m = re.search(r'^VH-TRACE (.*)$', err, re.M)
        if m:
            trace = m.group(1)
        res.viols.append(dict(key=key, detail=summary, case=crash['case'],
                              case_seed=crash['case_seed'], worker=worker,
                              stderr=err[-8000:], trace=trace))
        res.cases_run += crash['case'] - start + 1
        start = crash['case'] + 1
        restarts += 1
        crash_keys[key] = crash_keys.get(key, 0) + 1
        if key.startswith('hang:') and crash_keys[key] >= 4:
            # the same non-termination again and again: enough evidence, every
            # further occurrence costs a full CPU budget
            break
        if restarts > max_restarts:
            res.inconclusive.append('worker %d: too many crashes' % worker)
            break
    return res


def union_hashes(outdir, cap=3000000):
    s = set()
    for f in os.listdir(outdir):
        if not f.startswith('hashes.'):
            continue
        data = open(os.path.join(outdir, f), 'rb').read()
        n = len(data) // 8
        s.update(struct.unpack('<%dQ' % n, data[:n * 8]))
        if len(s) > cap:
            break
    return len(s)


def run_job(binpath, base_args, seed, total_cases, repo, variant,
            nworkers=None, timeout_s=1800, leak_check=False, extra_env=None):
    """Split total_cases over workers. Returns aggregated dict."""
    nworkers = nworkers or NCPU
    nworkers = max(1, min(nworkers, total_cases))
    per = (total_cases + nworkers - 1) // nworkers
    env = dict(os.environ)
    env['ASAN_OPTIONS'] = ASAN_ENV % (1 if leak_check else 0)
    env['UBSAN_OPTIONS'] = UBSAN_ENV
    env['TSAN_OPTIONS'] = TSAN_ENV
    env['LSAN_OPTIONS'] = 'exitcode=23:print_suppressions=0'
    if extra_env:
        env.update(extra_env)
    outdir = tempfile.mkdtemp(prefix='vrun.', dir=os.path.join(
        os.path.dirname(os.path.dirname(os.path.abspath(__file__))), 'build'))
    t0 = time.time()
    with ThreadPoolExecutor(max_workers=nworkers) as ex:
        futs = [ex.submit(run_worker, binpath, base_args, w, seed, per, env,
                          repo, timeout_s, outdir, leak_check)
                for w in range(nworkers)]
        results = [f.result() for f in futs]
    agg = dict(viol_counts={}, tsan_by_design={}, cases_run=0, nontrivial=0, distinct=0, counters={}, samples=[],
               viols=[], diags=[], ubsan={}, inconclusive=[], crashes=0,
               skipped=0, extra=[], wall_s=time.time() - t0)
    for r in results:
        agg['cases_run'] += r.cases_run
        agg['crashes'] += r.crashes
        agg['viols'] += r.viols
        agg['diags'] += r.diags
        agg['extra'] += r.extra
        agg['inconclusive'] += r.inconclusive
        for k, v in r.ubsan.items():
            agg['ubsan'][k] = agg['ubsan'].get(k, 0) + v
        for k, v in r.tsan_by_design.items():
            agg['tsan_by_design'][k] = agg['tsan_by_design'].get(k, 0) + v
        for s in r.stats:
            agg['nontrivial'] += s.get('nontrivial', 0)
            for k, v in s.get('viol_counts', {}).items():
                agg['viol_counts'][k] = agg['viol_counts'].get(k, 0) + v
            agg['skipped'] += s.get('skipped', 0)
            for k, v in s.get('counters', {}).items():
                agg['counters'][k] = agg['counters'].get(k, 0) + v
            for smp in s.get('samples', []):
                if len(agg['samples']) < 8:
                    agg['samples'].append(smp)
    agg['distinct'] = union_hashes(outdir)
    # clean scratch
    for f in os.listdir(outdir):
        os.unlink(os.path.join(outdir, f))
    os.rmdir(outdir)
    return agg


# ---------------------------------------------------------------- libFuzzer
def _fuzz_worker(binpath, worker, seed, runs, env, repo, outdir, corpus,
                 timeout_s, unit_timeout, max_len, max_restarts=40):
    """One libFuzzer process over a corpus directory shared by all workers,
    restarted after every crash / slow unit until `runs` executions are done."""
    res = WorkerResult()
    done = 0
    restarts = 0
    cov = 0
    while done < runs:
        log = os.path.join(outdir, 'fuzz.%d.%d.log' % (worker, restarts))
        art = os.path.join(outdir, 'art.%d.' % worker)
        args = [binpath, '-runs=%d' % (runs - done), '-seed=%d' % (seed * 1000 + worker * 50 + restarts + 1),
                '-max_len=%d' % max_len, '-timeout=%d' % unit_timeout,
                '-rss_limit_mb=4096', '-print_final_stats=1', '-reload=1',
                '-artifact_prefix=' + art, corpus]
        with open(log, 'wb') as f:
            try:
                p = subprocess.run(args, stdout=f, stderr=subprocess.STDOUT,
                                   env=env, timeout=timeout_s)
                rc = p.returncode
            except subprocess.TimeoutExpired:
                res.inconclusive.append('fuzz worker %d: watchdog' % worker)
                break
        txt = open(log, 'rb').read().decode('utf-8', 'replace')
        m = re.search(r'stat::number_of_executed_units:\s*(\d+)', txt)
        n = int(m.group(1)) if m else 0
        if not m:
            # crashed before the final stats: last "#<n>" progress line
            ms = re.findall(r'^#(\d+)\s', txt, re.M)
            n = int(ms[-1]) if ms else 1
        done += max(n, 1)
        res.cases_run += n
        for c in re.findall(r'cov: (\d+)', txt):
            cov = max(cov, int(c))
        if rc == 0:
            break
        restarts += 1
        res.crashes += 1
        artifact = None
        ma = re.search(r'Test unit written to (\S+)', txt)
        if ma:
            artifact = ma.group(1)
        if 'libFuzzer: timeout' in txt:
            res.diags.append(dict(key='fuzz:slow-unit', detail='an input needed more than %d s (artifact %s)'
                                  % (unit_timeout, artifact)))
        elif 'libFuzzer: out-of-memory' in txt:
            res.diags.append(dict(key='fuzz:rss-limit', detail='rss limit exceeded (artifact %s)' % artifact))
        else:
            key, summary = classify_crash(txt, repo, 'fuzz')
            keep = None
            if artifact and os.path.exists(artifact):
                keep = artifact
            res.viols.append(dict(key=key, detail=summary, case=-1, case_seed=None,
                                  worker=worker, stderr=txt[-8000:], trace='',
                                  artifact=keep))
        if restarts > max_restarts:
            res.inconclusive.append('fuzz worker %d: too many restarts' % worker)
            break
    res.extra.append(dict(cov=cov))
    return res


def run_fuzz_job(binpath, seed, total_runs, repo, nworkers=None,
                 timeout_s=7200, unit_timeout=20, max_len=4096, seed_env=None,
                 extra_env=None):
    """libFuzzer job: total_runs executions spread over nworkers processes that
    share one corpus directory (created empty, seeded by the target itself).
    Returns the same aggregate as run_job; artifacts of violations are copied
    to /verif/replay by the driver."""
    nworkers = nworkers or NCPU
    per = (total_runs + nworkers - 1) // nworkers
    env = dict(os.environ)
    env['ASAN_OPTIONS'] = ('abort_on_error=1:detect_leaks=0:symbolize=1:'
                           'allocator_may_return_null=1:quarantine_size_mb=8')
    if extra_env:
        env.update(extra_env)
    base = os.path.join(os.path.dirname(os.path.dirname(os.path.abspath(__file__))), 'build')
    outdir = tempfile.mkdtemp(prefix='vfuzz.', dir=base)
    corpus = os.path.join(outdir, 'corpus')
    os.makedirs(corpus)
    if seed_env:
        env[seed_env] = corpus
        # let one process write the seeds before the others start reading
        subprocess.run([binpath, '-runs=0', corpus], env=env, stdout=subprocess.DEVNULL,
                       stderr=subprocess.DEVNULL, timeout=600)
    t0 = time.time()
    with ThreadPoolExecutor(max_workers=nworkers) as ex:
        futs = [ex.submit(_fuzz_worker, binpath, w, seed, per, env, repo, outdir,
                          corpus, timeout_s, unit_timeout, max_len)
                for w in range(nworkers)]
        results = [f.result() for f in futs]
    agg = dict(viol_counts={}, tsan_by_design={}, cases_run=0, nontrivial=0, distinct=0,
               counters={}, samples=[], viols=[], diags=[], ubsan={}, inconclusive=[],
               crashes=0, skipped=0, extra=[], wall_s=time.time() - t0)
    cov = 0
    for r in results:
        agg['cases_run'] += r.cases_run
        agg['crashes'] += r.crashes
        agg['viols'] += r.viols
        agg['diags'] += r.diags
        agg['inconclusive'] += r.inconclusive
        for e in r.extra:
            cov = max(cov, e.get('cov', 0))
    units = [f for f in os.listdir(corpus)]
    agg['counters']['fuzz.executions'] = agg['cases_run']
    agg['counters']['fuzz.coverage_edges'] = cov
    agg['counters']['fuzz.corpus_units'] = len(units)
    agg['counters']['fuzz.restarts'] = agg['crashes']
    # distinct non-trivial = inputs that reached new coverage (kept in the corpus)
    agg['distinct'] = len(units)
    agg['nontrivial'] = len(units)
    for u in sorted(units)[:3]:
        b = open(os.path.join(corpus, u), 'rb').read(48)
        agg['samples'].append('corpus unit %s: %s...' % (u[:12], b.hex()))
    # keep artifacts of violations, drop the rest
    keepdir = os.path.join(base, '..', 'replay')
    os.makedirs(keepdir, exist_ok=True)
    for v in agg['viols']:
        a = v.get('artifact')
        if a and os.path.exists(a):
            dst = os.path.join(keepdir, 'fuzz-' + os.path.basename(a))
            try:
                os.replace(a, dst)
                v['artifact'] = os.path.abspath(dst)
            except OSError:
                pass
    subprocess.run(['rm', '-rf', outdir])
    return agg
