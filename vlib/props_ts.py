"""TS laboratory: harness programs and property entries for C14 (TS part),
C15, C16, C17.  Same format as props.py (merged there by the driver)."""

_COMMON = ['harness/common/vh.c', 'harness/tslab/tslab_common.c']

HARNESS_TS = {
    'ts_chunk': dict(srcs=['harness/tslab/ts_chunk.c'] + _COMMON),
    'ts_encap': dict(srcs=['harness/tslab/ts_encap.c'] + _COMMON),
    'psi': dict(srcs=['harness/tslab/psi.c'] + _COMMON),
    'h26x': dict(srcs=['harness/tslab/h26x.c'] + _COMMON),
}

PROPS_TS = {}
