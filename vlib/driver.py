import argparse
import hashlib
import json
import os
import subprocess
import sys
import time

from . import build, run, props

VERIF = build.VERIF


def load_findings():
    p = os.path.join(VERIF, 'known_findings.json')
    if not os.path.exists(p):
        return []
    return json.load(open(p))['findings']


def write_replay(pid, job, viol, variant, binname, args):
    d = os.path.join(VERIF, 'replay')
    os.makedirs(d, exist_ok=True)
    h = hashlib.sha1((viol['key'] + str(viol.get('case_seed'))).encode()).hexdigest()[:12]
    path = os.path.join(d, '%s-%s.json' % (pid, h))
    json.dump(dict(property=pid, job=job, variant=variant, bin=binname,
                   args=args, case_seed=viol.get('case_seed'),
                   key=viol['key'], detail=viol.get('detail'),
                   trace=viol.get('trace'), stderr=viol.get('stderr')),
              open(path, 'w'), indent=1)
    return path


def do_replay(path, repo):
    r = json.load(open(path))
    ok, bdir, log = build.build(r['variant'], repo, props.HARNESS, [r['bin']])
    if not ok:
        print(log)
        return 2
    if r.get('case_seed') is None:
        print('replay: violation has no single-case seed (whole-run verdict); '
              're-run the check itself')
        return 2
    env = dict(os.environ)
    env['ASAN_OPTIONS'] = run.ASAN_ENV % 0
    env['UBSAN_OPTIONS'] = run.UBSAN_ENV
    env['TSAN_OPTIONS'] = run.TSAN_ENV
    cmd = [os.path.join(bdir, 'bin', r['bin'])] + r['args'] + \
        ['--case-seed', str(r['case_seed']), '-v']
    print('replay:', ' '.join(cmd))
    p = subprocess.run(cmd, env=env, stdout=subprocess.PIPE,
                       stderr=subprocess.PIPE, text=True)
    sys.stdout.write(p.stdout[-6000:])
    sys.stderr.write(p.stderr[-6000:])
    reproduced = False
    for ln in p.stdout.splitlines():
        if ln.startswith('{'):
            try:
                j = json.loads(ln)
            except ValueError:
                continue
            if j.get('t') == 'viol' and j.get('key') == r['key']:
                reproduced = True
            if j.get('t') == 'crash':
                key, _ = run.classify_crash(p.stderr, repo, j.get('kind'))
                if key == r['key']:
                    reproduced = True
    if reproduced:
        print('VIOLATION property=%s replay=%s' % (r['property'], path))
        return 1
    print('replay: not reproduced (key %s)' % r['key'])
    return 0


def main(argv):
    ap = argparse.ArgumentParser()
    ap.add_argument('pid')
    ap.add_argument('--tier', default=os.environ.get('VERIF_TIER', 'quick'))
    ap.add_argument('--repo', default='/repo')
    ap.add_argument('--replay')
    ap.add_argument('--scale', type=float, default=1.0,
                    help='multiply case counts (development aid)')
    ap.add_argument('--jobs', default='', help='comma list of job names')
    a = ap.parse_args(argv)
    pid = a.pid
    repo = os.path.realpath(a.repo)
    if a.replay:
        return do_replay(a.replay, repo)
    if pid not in props.PROPS:
        print('unknown property', pid)
        return 2
    tier = a.tier if a.tier in ('quick', 'thorough') else 'quick'
    try:
        seed = int(os.environ.get('VERIF_SEED', '1'))
    except ValueError:
        seed = 1
    spec = props.PROPS[pid]
    t0 = time.time()
    findings = [f for f in load_findings() if f['property'] == pid]
    known = {f['key']: f for f in findings if f.get('status') == 'known'}

    evaluations = 0
    distinct = 0
    samples = []
    observed = {}
    ubsan = {}
    tsan_by_design = {}
    inconclusive = []
    viol_by_key = {}
    foreign = {}
    diag_by_key = {}
    job_summaries = []
    jobs = spec['jobs']
    if a.jobs:
        jobs = [j for j in jobs if j['name'] in a.jobs.split(',')]

    # build everything first (per variant)
    by_variant = {}
    for j in jobs:
        if tier == 'quick' and j.get('thorough_only'):
            continue
        by_variant.setdefault(j['variant'], set()).add(j['bin'])
    bdirs = {}
    for variant, bins in by_variant.items():
        ok, bdir, log = build.build(variant, repo, props.HARNESS, sorted(bins))
        if not ok:
            print(log[-8000:])
            print('BUILD FAILED (variant %s) -- harness failure' % variant)
            return 2
        bdirs[variant] = bdir

    for j in jobs:
        if tier == 'quick' and j.get('thorough_only'):
            continue
        n = int(j[tier] * a.scale)
        if n <= 0:
            continue
        binpath = os.path.join(bdirs[j['variant']], 'bin', j['bin'])
        args = list(j.get('args', []))
        if j.get('mode'):
            args += ['--mode', j['mode']]
        args += ['--tier', tier]
        if j.get('fuzz'):
            agg = run.run_fuzz_job(binpath, seed, n, repo,
                                   nworkers=j.get('workers'),
                                   timeout_s=j.get('timeout', 7200),
                                   unit_timeout=j.get('unit_timeout', 20),
                                   max_len=j.get('max_len', 4096),
                                   seed_env=j.get('seed_env'),
                                   extra_env=j.get('env'))
        else:
            agg = run.run_job(binpath, args, seed, n, repo, j['variant'],
                              nworkers=j.get('workers'),
                              timeout_s=j.get('timeout', 3000),
                              leak_check=j.get('leak_check', False),
                              extra_env=j.get('env'))
        if j.get('post'):
            j['post'](agg, j, tier)
        evaluations += agg['cases_run']
        distinct += agg['distinct']
        for s in agg['samples'][:3]:
            samples.append({'job': j['name'], 'case': s})
        for k, v in agg['counters'].items():
            observed['%s/%s' % (j['name'], k)] = v
        for k, v in agg['ubsan'].items():
            ubsan[k] = ubsan.get(k, 0) + v
        for k, v in agg.get('tsan_by_design', {}).items():
            tsan_by_design[k] = tsan_by_design.get(k, 0) + v
        inconclusive += ['%s: %s' % (j['name'], x) for x in agg['inconclusive']]
        for req in j.get('require', []):
            if agg['counters'].get(req, 0) == 0:
                inconclusive.append('%s: required observation "%s" never made'
                                    % (j['name'], req))
        if agg['cases_run'] < n * 0.9 and not agg['viols']:
            inconclusive.append('%s: only %d of %d cases ran'
                                % (j['name'], agg['cases_run'], n))
        prefixes = spec.get('key_prefixes')
        for v in agg['viols']:
            if v['key'].startswith('inconclusive:'):
                inconclusive.append('%s: %s' % (j['name'], v['key']))
                continue
            if j.get('abort_is_diag') and v['key'].startswith(('abort:', 'hang:')):
                # assertion of library code, or CPU budget exhausted (loops
                # bounded by 32-bit syntax elements), on deliberately corrupt
                # input: not an out-of-bounds access, listed as a diagnostic
                e = diag_by_key.setdefault(v['key'], dict(
                    count=0, detail='assertion abort / CPU budget overrun on corrupt input (job %s, '
                    'case seed %s)' % (j['name'], v.get('case_seed'))))
                e['count'] += 1
                continue
            if prefixes and not v['key'].startswith(tuple(prefixes)):
                # observation belonging to another property decided by the
                # same executions: listed, not judged here
                foreign[v['key']] = foreign.get(v['key'], 0) + 1
                continue
            e = viol_by_key.setdefault(v['key'], dict(count=0, first=v, job=j))
            e['count'] += 1
        for k, n in agg.get('viol_counts', {}).items():
            if k in viol_by_key:
                viol_by_key[k]['count'] = max(viol_by_key[k]['count'], n)
        for d in agg['diags']:
            e = diag_by_key.setdefault(d['key'], dict(count=0, detail=d.get('detail')))
            e['count'] += 1
        job_summaries.append(dict(job=j['name'], variant=j['variant'],
                                  cases=agg['cases_run'],
                                  nontrivial=agg['nontrivial'],
                                  distinct=agg['distinct'],
                                  crashes=agg['crashes'],
                                  wall_s=round(agg['wall_s'], 1)))

    # verdict
    new_viol = []
    matched = []
    for key, e in sorted(viol_by_key.items()):
        if key in known:
            matched.append(dict(key=key, count=e['count'], what=known[key]['what']))
            print('KNOWN-FINDING: property=%s %s [%s] (%d occurrences)'
                  % (pid, known[key]['what'], key, e['count']))
        else:
            new_viol.append((key, e))
    replay_paths = []
    for key, e in new_viol:
        j = e['job']
        args = list(j.get('args', []))
        if j.get('mode'):
            args += ['--mode', j['mode']]
        args += ['--tier', tier]
        path = write_replay(pid, j['name'], e['first'], j['variant'], j['bin'], args)
        replay_paths.append(path)
        print('violation key=%s count=%d detail=%s'
              % (key, e['count'], (e['first'].get('detail') or '')[:300]))
        print('VIOLATION property=%s replay=%s' % (pid, path))

    ev = dict(
        property_id=pid, tier=tier, seed=seed,
        level=spec.get('level', 'exploration'),
        coverage=dict(
            evaluations=evaluations,
            distinct_nontrivial=distinct,
            rule=spec['rule'],
            samples=samples[:10],
            jobs=job_summaries,
            observed=observed,
            ubsan_diagnostics=ubsan,
            tsan_reports_inside_by_design_racy_ring_accesses=tsan_by_design,
            diagnostics={k: v for k, v in diag_by_key.items()},
            findings_matched=matched,
            new_violation_keys=[k for k, _ in new_viol],
            keys_judged_by_other_properties=foreign,
            inconclusive=inconclusive,
            repo=repo,
        ),
        assumptions=spec.get('assumptions', []),
        wall_s=round(time.time() - t0, 2),
        violations=len(new_viol),
    )
    os.makedirs(os.path.join(VERIF, 'evidence'), exist_ok=True)
    evp = os.path.join(VERIF, 'evidence', pid + '.json')
    if repo == '/repo':
        json.dump(ev, open(evp, 'w'), indent=1)
    else:
        json.dump(ev, open(os.path.join(VERIF, 'build', 'evidence-%s-scratch.json' % pid), 'w'), indent=1)
    print('%s %s: %d cases, %d distinct non-trivial, %d new violation keys, '
          '%d known findings matched, %.1fs'
          % (pid, tier, evaluations, distinct, len(new_viol), len(matched),
             time.time() - t0))
    if new_viol:
        return 1
    if inconclusive:
        for x in inconclusive:
            print('INCONCLUSIVE:', x)
        return 2
    return 0
