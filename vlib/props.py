"""Property table: which harness jobs decide which property."""

COMMON = ['harness/common/vh.c']

HARNESS = {
    'bits': dict(srcs=['harness/corelab/bits.c'] + COMMON),
    'block': dict(srcs=['harness/corelab/block.c'] + COMMON),
    'udictlab': dict(srcs=['harness/corelab/udictlab.c'] + COMMON),
    'clocklab': dict(srcs=['harness/corelab/clocklab.c'] + COMMON),
    'lincheck': dict(srcs=['harness/sched/lincheck.c', 'harness/sched/sched.c'] + COMMON),
    'refcount': dict(srcs=['harness/sched/refcount.c', 'harness/sched/sched.c', 'harness/common/cumem.c'] + COMMON),
    'wakeup': dict(srcs=['harness/sched/wakeup.c', 'harness/sched/sched.c', 'harness/common/mockloop.c'] + COMMON),
    'pumplab': dict(srcs=['harness/pipelab/pumplab.c', 'harness/common/mockloop.c'] + COMMON),
    'pipelab': dict(srcs=['harness/pipelab/pipelab.c', 'harness/pipelab/lab.c', 'harness/common/mockloop.c', 'harness/common/cumem.c'] + COMMON),
    'xthread': dict(srcs=['harness/sched/xthread.c', 'harness/sched/sched.c', 'harness/common/mockloop.c'] + COMMON),
    'xworker': dict(srcs=['harness/sched/xworker.c', 'harness/sched/sched.c', 'harness/common/mockloop.c'] + COMMON),
    'picsound': dict(srcs=['harness/corelab/picsound.c', 'harness/common/cumem.c'] + COMMON),
}

ENGINES = [
    dict(name='corelab', path='harness/corelab',
         serves_properties=['C02', 'C03', 'C10', 'C11', 'C18', 'C19'],
         kind_free_text='model-based runtime monitors for core data '
                        'structures: after every API call the real object is '
                        'compared with a reference model; ASan/UBSan build'),
]

ENGINES.append(dict(
    name='sched', path='harness/sched',
    serves_properties=['C06', 'C07', 'C08', 'C09'],
    kind_free_text='seeded serialising scheduler over the UVERIF_YIELD hooks '
                   '(one runnable thread at a time, decision string recorded '
                   'and replayable, deadlock decided on logical state) + '
                   'history checkers (Wing-Gong linearizability, exactly-once '
                   'ledgers); free-running ThreadSanitizer runs'))

ENGINES.append(dict(
    name='pipelab', path='harness/pipelab',
    serves_properties=['C01', 'C04', 'C05', 'C12', 'C13', 'C14', 'C20'],
    kind_free_text='pipe laboratory: catalogue of pipe types driven by a '
                   'random protocol-respecting driver between recording '
                   'probes and recording sinks, mock event loop (real '
                   'upump_common, recording back-end, virtual time), counting '
                   'managers; several oracles over the same executions'))

NOT_CLAIMED = {}

PROPS = {}

SAN_NOTE = ('Runtime monitoring: verdict = held on the executions explored '
            '(counts in the evidence), not a proof. ')

PROPS['C18'] = dict(
    engine='corelab',
    technique='runtime monitoring: reference-model oracle (independent '
              'MSB-first packer) + AddressSanitizer red zones + canaries over '
              'randomly generated field sequences, buffer sizes and block '
              'segmentations',
    level_text='Randomised differential testing of ubits writer/reader and '
               'the block bit-stream reader against an independent packer, '
               'under ASan with exact-size buffers and canaries; explores '
               '4e5 (quick) to 3e7 (thorough) sequences incl. adversarial '
               'width patterns, every start bit and up to 64 segments.',
    level_note=SAN_NOTE + 'Block bit-stream reader driven in chunks <= 25 '
               'bits (wider fields in two chunks, as the framers do). UBSan '
               'shift reports are diagnostics, wrong bytes are violations.',
    rule='each case = random field sequence (1-64 fields, widths 1-32, '
         'adversarial width patterns) written by ubits_put/clean into an '
         'exact / short / long buffer, re-read by ubits_get and by the block '
         'bit-stream reader over a random segmentation and start bit; '
         'non-trivial+distinct = distinct hash of (widths, values[, '
         'segment count, start bit])',
    assumptions=[
        'block bit-stream reader is driven in chunks of at most 25 bits, the '
        'largest width for which fill_bits is defined for every fill level',
        'UBSan shift reports are diagnostics; a wrong byte is the violation',
    ],
    jobs=[
        dict(name='bits', bin='bits', variant='asan', quick=3000000,
             thorough=100000000,
             require=['write.fits', 'write.too_small', 'get.overflow_seen',
                      'stream.multiseg', 'stream.overflow_seen']),
    ],
)

PROPS['C03'] = dict(
    engine='corelab',
    technique='runtime monitoring: byte-vector reference model compared '
              'through the full accessor battery after every operation of '
              'random operation histories; ASan build',
    level_text='Model-based randomised testing: every mutating block '
               'operation of a generated history is mirrored on a byte '
               'vector; size, size_linear, read, peek, extract, iovec, scan, '
               'find, compare, equal, match and the octet stream are compared '
               'after each step on all touched handles, for 8 manager '
               'configurations, under AddressSanitizer.',
    level_note=SAN_NOTE + 'Arguments outside the documented domain are only '
               'judged by: error => unchanged; success => still a consistent '
               'byte string (except offsets before the start / reads past the '
               'end, which must be refused).',
    rule='case = history of 30 operations on up to 8 handles; non-trivial = '
         'history during which the battery ran on a block of >= 3 segments; '
         'distinct = distinct hash of the operation/argument sequence',
    assumptions=['undocumented negative offsets of insert/delete/truncate are '
                 'judged only by the weak rule',
                 'octets revealed by prepend / copy extension are unspecified '
                 '(adopted by the model)'],
    jobs=[
        dict(name='block', bin='block', variant='asan', mode='c03',
             quick=300000, thorough=6000000,
             require=['battery.on_3plus_segments', 'acc.peek_bounce',
                      'op.prepend_ok', 'ood.error', 'acc.find']),
    ],
)

PROPS['C19'] = dict(
    engine='corelab',
    technique='runtime monitoring: position-coded content + per-handle model '
              'in absolute coordinates, acceptance oracle for windows, canary '
              'guard zones and AddressSanitizer, over all standard picture '
              'formats and random sound formats',
    level_text='Randomised model-based testing over the 48 standard picture '
               'formats x sizes x margins x alignment and planar/packed sound '
               'formats: every accepted window is bounds-checked against the '
               'allocation and compared with a model that follows crops / '
               'extensions / dups; invalid windows must be refused.',
    level_note=SAN_NOTE + 'Reference acceptance predicate taken from the '
               'documented rules of ubuf_pic.h / ubuf_sound.h; zero-size '
               'windows are not judged.',
    rule='case = one buffer family (format, size, manager config) + 12 '
         'operations (windows valid and invalid, dup, resize chains, block '
         're-export, free); distinct = hash of configuration and operation '
         'sequence; every case is non-trivial (>= 1 window compared)',
    assumptions=['manager margins are always given explicitly (the default '
                 'values are private to the implementation)'],
    jobs=[
        dict(name='picsound', bin='picsound', variant='asan', mode='c19',
             quick=150000, thorough=4000000,
             require=['pic.write_windows', 'pic.resize_extended',
                      'pic.resize_cropped', 'snd.write_windows', 'snd.resize',
                      'pic.invalid_window.granularity',
                      'pic.invalid_window.exceeds',
                      'pic.invalid_window.before-origin']),
    ],
)

PROPS['C02'] = dict(
    engine='corelab',
    technique='runtime monitoring: per-handle content models re-compared '
              'after every operation on any handle of a sharing family; every '
              'granted write mapping is used; ASan build',
    level_text='Randomised black-box isolation testing of block, picture and '
               'sound buffers that share memory (dup, splice, split, slice-'
               'inducing insert/delete, uref_dup, picture/sound re-exported '
               'as blocks): every granted write mapping is overwritten with '
               'fresh data and all sibling handles are re-read; fresh memory '
               'must be writable, a just-duplicated handle must be refused.',
    level_note=SAN_NOTE + 'No white-box owner count is modelled: a refusal on '
               'data that only looks unshared is not a violation.',
    rule='case = family of up to 8 handles and 25 operations (block) or one '
         'picture/sound family and 12 operations; distinct = hash of the '
         'operation sequence; every case runs >= 1 sibling comparison',
    assumptions=['write refusals are only demanded right after a dup with '
                 'both handles alive; grants only on memory never shared'],
    jobs=[
        dict(name='block', bin='block', variant='asan', mode='c02',
             quick=100000, thorough=3000000,
             require=['c02.write_granted', 'c02.write_refused',
                      'c02.refusal_checked']),
        dict(name='picsound', bin='picsound', variant='asan', mode='c02',
             quick=30000, thorough=1000000,
             require=['pic.write_windows', 'c02.pic_refusal_checked',
                      'c02.snd_refusal_checked', 'pic.block_from_pic',
                      'snd.block_from_sound']),
    ],
)

PROPS['C10'] = dict(
    engine='corelab',
    technique='runtime monitoring: ordered-map reference model; every key '
              're-read through its typed getter, absent keys probed and full '
              'iteration compared after every operation; ASan exact-size heap',
    level_text='Model-based randomised testing of udict_inline through the '
               'udict_* API and the uref_attr_* layer: all 10 base types, the '
               'shorthand types, names that are prefixes of one another, '
               'value sizes up to the 16-bit TLV limit, aliased values, '
               'dup/copy/import/cmp, 6 manager configurations.',
    level_note=SAN_NOTE + 'assert-guarded preconditions bound the generator '
               '(INT64_MIN, TLV length > 65535).',
    rule='case = 40 operations on up to 4 dictionaries; distinct = hash of '
         'the operation sequence; every case is non-trivial (full lookup + '
         'iteration comparison after each operation)',
    assumptions=['INT64_MIN and values longer than the 16-bit TLV length are '
                 'outside the asserted domain and not generated'],
    jobs=[
        dict(name='udict', bin='udictlab', variant='asan', quick=60000,
             thorough=3000000,
             require=['set.aliased', 'case.max_size_value', 'op.import',
                      'op.cmp_equal', 'get.absent']),
    ],
)

PROPS['C11'] = dict(
    engine='corelab',
    technique='runtime monitoring: metamorphic relations (dts = cr + delay, '
              'pts = dts + delay, rebase / read / dup invariance, set-get, '
              'rap guard) + independent modular-arithmetic reference model '
              'after every operation',
    level_text='Randomised sequences (1-30 ops) of set / rebase / delete / add '
               '/ delay setters / set_rap / dup over the three clock domains '
               'with boundary dates (0, 2^33, 2^63, 2^64-2, unset); every '
               'getter is checked for purity and all 12 views are compared '
               'with the statement identities and with a reference model.',
    level_note=SAN_NOTE + 'UINT64_MAX is the documented "unset" value for '
               'delays; a delay that happens to equal it is unset in the '
               'model too.',
    rule='case = sequence of 1-30 operations on one uref; non-trivial = '
         'sequence during which at least 6 views were readable; distinct = '
         'hash of the operation/value sequence',
    assumptions=['delays are shared by the three domains (documented), so a '
                 'set in one domain may move derived dates of another'],
    jobs=[
        dict(name='clock', bin='clocklab', variant='asan', quick=1000000,
             thorough=50000000,
             require=['identity.dts=cr+delay', 'identity.pts=dts+delay',
                      'op.rebase_done', 'op.set_rap_ok', 'op.set_rap_refused',
                      'op.dup']),
    ],
)

PROPS['C07'] = dict(
    engine='sched',
    technique='runtime monitoring: recorded call/return histories of small '
              'client programs under a seeded serialising scheduler (yield '
              'point before every atomic and ring-element access), checked '
              'by a Wing-Gong linearizability search against sequential '
              'FIFO/LIFO/pool specifications',
    level_text='Sampled (not exhaustive) exploration of sequentially '
               'consistent interleavings of 2-3 threads x 1-4 operations on '
               'capacities 1-3, with pre-rolls bringing the 8/16-bit tags '
               'next to wrap-around, under three scheduling strategies '
               '(uniform, PCT, low-preemption); every history is checked for '
               'linearizability, loss, duplication and invention.',
    level_note=SAN_NOTE + 'Serialised runs explore sequentially consistent '
               'interleavings only (uatomic is SEQ_CST); relaxed hardware '
               'effects are out of reach. Exhaustiveness is not claimed.',
    rule='case = one client program + one seeded schedule; non-trivial = run '
         'with more context switches than threads (>= 1 preemption inside an '
         'operation); distinct = hash of (program, decision string)',
    assumptions=['a failed push is accepted when stored + slot-holding '
                 'overlapping operations >= capacity (the statement\'s rule)'],
    jobs=[
        dict(name='lincheck', bin='lincheck', variant='plain', quick=240000,
             thorough=12000000,
             require=['ring.with_failed_push', 'ring.with_null_pop',
                      'pool.programs', 'preempt_at.ring_next_read',
                      'preempt_at.atomic_cas', 'preempt_at.ring_tag_inc']),
        dict(name='lincheck-asan', bin='lincheck', variant='asan',
             quick=24000, thorough=1000000),
    ],
)

PROPS['C09'] = dict(
    engine='sched',
    technique='runtime monitoring: exactly-once destructor / area-release '
              'ledgers at the client boundary under a seeded serialising '
              'scheduler (yield before every atomic operation), plus '
              'free-running ThreadSanitizer runs of the same programs',
    level_text='Sampled exploration of sequentially consistent interleavings '
               'of 2-3 threads running use/release/single/dead scripts on one '
               'urefcount, and dup/splice/free/read scripts on block buffers '
               'sharing one memory area (counting umem manager: one free per '
               'area, no early free); free-running runs under TSan add the '
               'data-race oracle.',
    level_note=SAN_NOTE + 'Interleavings are sampled, not enumerated; '
               'sequentially consistent only.',
    rule='case = one program (scripts per thread) + one seeded schedule; '
         'non-trivial = more context switches than threads (serialised) / any '
         'free-running run; distinct = hash of (scripts, decision string)',
    assumptions=['every release matches an earlier acquisition made while the '
                 'thread held a reference (the harness enforces it)'],
    jobs=[
        dict(name='refcount', bin='refcount', variant='plain', mode='sched',
             quick=200000, thorough=6000000,
             require=['refcount.programs', 'shared.programs']),
        dict(name='refcount-asan', bin='refcount', variant='asan', mode='sched',
             quick=30000, thorough=600000),
        dict(name='refcount-tsan', bin='refcount', variant='tsan', mode='free',
             quick=3000, thorough=100000, workers=4, tsan=True),
    ],
)

PROPS['C08'] = dict(
    engine='sched',
    technique='runtime monitoring: producers / consumers / dealer contenders '
              'as logical threads of a seeded serialising scheduler, each '
              'with a mock event loop sleeping on the REAL event descriptors '
              '(readiness by poll); deadlock (= lost wake-up) decided on '
              'logical state, occupancy and critical-section counters '
              'asserted at every step',
    level_text='Sampled exploration of sequentially consistent interleavings '
               '(atomic-operation and eventfd read/write granularity) of 1-3 '
               'producers and a consumer on queues of length 1-3, and of 2-3 '
               'contenders x 1-3 rounds on a dealer. Liveness is decided as '
               'bounded progress: every explored schedule must terminate '
               'with all elements transferred / all rounds granted.',
    level_note=SAN_NOTE + 'Threads follow the protocol of upipe_qsink / '
               'upipe_qsrc (push directly, on failure watch event_push; pop '
               'from the event_pop watcher). One consumer per queue, as in '
               'every use inside Upipe.',
    rule='case = one program + one seeded schedule; non-trivial = more '
         'context switches than threads; distinct = hash of (program, '
         'decision string)',
    assumptions=['a single consumer per queue (the only use in Upipe); '
                 'multi-consumer runs are exploratory only'],
    jobs=[
        dict(name='wakeup', bin='wakeup', variant='plain', quick=150000,
             thorough=8000000,
             require=['queue.programs_with_sleep', 'dealer.programs_with_sleep',
                      'preempt_at.eventfd_read', 'preempt_at.eventfd_write']),
        dict(name='wakeup-asan', bin='wakeup', variant='asan', quick=15000,
             thorough=800000),
    ],
)

PROPS['C13'] = dict(
    engine='pipelab',
    technique='runtime monitoring: 3-variable reference automaton (started, '
              '#blockers, expired) compared with the recording back-end of a '
              'mock loop built on the real upump_common after every call, '
              'and callback monitors on the real libev back-end',
    level_text='Random sequences of start / stop / restart / set_status / '
               'blocker alloc / blocker free / dispatch / free (including '
               're-entrant stop, free, block and restart from inside the '
               'callback) on idler, fd and timer pumps; back-end activity must '
               'equal started && no blocker after every call, every '
               'outstanding blocker is notified exactly once at free, no '
               'callback after stop or free.',
    level_note=SAN_NOTE + 'A one-shot timer that has fired is inactive in '
               'the back-end (as in libev) although still started; the model '
               'tracks this with an "expired" flag.',
    rule='case = sequence of 25 calls on one pump; non-trivial = sequence '
         'with calls issued while a blocker was held; distinct = hash of the '
         'call sequence',
    assumptions=['blocker callbacks free their blocker (documented idiom)'],
    jobs=[
        dict(name='pump-mock', bin='pumplab', variant='asan', mode='mock',
             quick=200000, thorough=8000000,
             require=['cb.reentrant_free', 'op.free_with_blockers',
                      'dispatch.fired', 'dispatch.silent']),
        dict(name='pump-ev', bin='pumplab', variant='asan', mode='ev',
             quick=100000, thorough=4000000,
             require=['cb.reentrant_stop', 'dispatch.fired', 'dispatch.silent']),
    ],
)

PIPELAB_NOTE = (SAN_NOTE + 'Pipes driven: the catalogue (36 pipes with a reference model) and, '
                'for C01 / C04, the life cycles of 36 more module, TS and filter pipes '
                '(see evidence observed/pipe.*); '
                'the driver obeys the ownership / ordering protocol of a '
                'well-behaved upstream (no input before an accepted flow '
                'definition, one release per reference).')

PROPS['C04'] = dict(
    engine='pipelab',
    key_prefixes=['c04:', 'abort:', 'crash:', 'timeout', 'hang:'],
    technique='runtime monitoring: event-order automaton over the merged log '
              'of recording probes, recording sinks and driver calls, for '
              'random protocol-respecting histories on every catalogue pipe',
    level_text='Trace checking: ready first / dead once and last / nothing '
               'after dead (probe and output side), and flow-definition '
               'negotiation before data on every connection, change of '
               'definition and rejection, over random histories of '
               'set_flow_def / input / set_output / flush / options / sub-pipe '
               'alloc+release / release on each catalogue pipe.',
    level_note=PIPELAB_NOTE + ' Releasing the output and unregistering '
               'requests during teardown are not counted as touching the '
               'output.',
    rule='case = one pipe type + 10-40 driver operations; non-trivial = case '
         'with >= 3 inputs; distinct = hash of the operation sequence',
    assumptions=['log events are exempt from "ready first" (statement)',
                 'teardown unregister/release is not "touching the output"'],
    jobs=[
        dict(name='pipelab', bin='pipelab', variant='asan', mode='c04',
             quick=300000, thorough=6000000,
             require=['c04.negotiations', 'c04.inputs_checked', 'op.sub_alloc',
                      'op.set_flow_def_bad', 'subpipe.cases', 'op.super_released_before_subs',
                      'lifecycle.cases', 'lc.sub_alloc', 'lc.loop_dispatches']),
    ],
)

PROPS['C05'] = dict(
    engine='pipelab',
    key_prefixes=['c05:', 'abort:', 'crash:', 'timeout', 'hang:'],
    technique='runtime monitoring: exactly-once / in-order / documented-'
              'transform ledger at recording sinks, sequence numbers carried '
              'in an attribute and in the payload, per-class reference '
              'functions',
    level_text='For every input of every generated history the deliveries at '
               'the recording sinks are compared synchronously with the '
               'class oracle (identity, payload transform, filter, sink, '
               'duplicating split incl. sub-outputs added/removed mid-stream) '
               'or asynchronously (holding pipes: once, in order, payload '
               'intact).',
    level_note=PIPELAB_NOTE,
    rule='case = one pipe type + 10-40 driver operations; non-trivial = case '
         'with >= 3 inputs; distinct = hash of the operation sequence',
    assumptions=['skip with an offset larger than the buffer forwards it '
                 'unchanged (documented resize failure)'],
    jobs=[
        dict(name='pipelab', bin='pipelab', variant='asan', mode='c05',
             quick=300000, thorough=6000000,
             require=['c05.deliveries_checked', 'c05.async_deliveries_checked']),
    ],
)

PROPS['C01'] = dict(
    engine='pipelab',
    key_prefixes=['c01:', 'asan:', 'lsan:', 'abort:', 'crash:', 'timeout', 'hang:'],
    technique='runtime monitoring: AddressSanitizer (pool depth 0) + pool '
              'hook poisoning parked objects and tracking live ones (pool '
              'depth > 0) + counting umem manager with guard zones + manager '
              'refcounts back to 1, over random protocol-respecting histories',
    level_text='Ownership accounting after every generated history: no pooled '
               'object (uref, ubuf, udict, upump, shared area) still held, no '
               'umem block allocated, every manager back to a single '
               'reference, no double park / double free / use after '
               'release (ASan, poisoned pool objects).',
    level_note=PIPELAB_NOTE + ' Allocation failures are not injected.',
    rule='case = one pipe type + 10-40 driver operations, random pool depth; '
         'non-trivial = case with >= 3 inputs; distinct = hash of the '
         'operation sequence',
    assumptions=['allocation failure paths are outside the quantifier'],
    jobs=[
        dict(name='pipelab', bin='pipelab', variant='asan', mode='c01',
             quick=300000, thorough=6000000, leak_check=True,
             require=['c01.accounted_cases', 'lifecycle.cases', 'c01.released_with_request_pending']),
        dict(name='pipelab-requests', bin='pipelab', variant='asan', mode='c12',
             args=['--burst', '0'], quick=60000, thorough=1500000, leak_check=True),
        # the core buffer API under the same memory oracles (AddressSanitizer,
        # LeakSanitizer at exit): segment structures and shared areas of block
        # buffers are refcounted objects too, and the histories of the C03 lab
        # (append / insert / delete / truncate / splice / split / merge on
        # segmented blocks, 8 manager configurations) free and recycle them
        dict(name='core-block', bin='block', variant='asan', mode='c03',
             quick=100000, thorough=2000000, leak_check=True,
             require=['battery.on_3plus_segments']),
        # bursts of registrations overflowing the 255-slot out-of-band queue of a
        # queue sink (known finding: the request whose UNREGISTER message is
        # dropped is leaked); kept apart so that it cannot mask another leak
        dict(name='oob-overflow', bin='pipelab', variant='asan', mode='c12',
             args=['--burst', '2'], quick=640, thorough=6400, workers=4, leak_check=True,
             require=['c12.bursts_overflowing_the_oob_queue']),
    ],
)

PROPS['C20'] = dict(
    engine='pipelab',
    key_prefixes=['c20:', 'abort:', 'crash:', 'timeout', 'hang:'],
    technique='runtime monitoring: per-option shadow value maintained from '
              'setter return codes, getters called with sentinel-preloaded '
              'variables, and a differential twin run (same seeded history '
              'with and without interleaved getters, sink logs compared)',
    level_text='For every option with a getter and a setter of the catalogue '
               'pipes (offsets, delays, RAP, output size, MTU/alignment, time '
               'and rate limits, buffer sizes, attribute dictionaries, '
               'getattr function, output, flow definition): value read back '
               'after accepted setters, unchanged after rejected ones, and '
               'identical sink logs whether or not getters are interleaved.',
    level_note=PIPELAB_NOTE + ' Defaults are taken from the first getter call '
               'after allocation.',
    rule='case = twin execution of one 10-40 operation history; non-trivial = '
         'history with >= 3 inputs; distinct = hash of the operation sequence',
    assumptions=['the value reported by the getter right after allocation is '
                 'the documented default'],
    jobs=[
        dict(name='pipelab', bin='pipelab', variant='asan', mode='c20',
             quick=40000, thorough=2000000,
             require=['c20.twin_runs_compared', 'c20.fsrc_cases_with_data', 'c20.blit_cases', 'c20.getter_checked',
                      'c20.setter_rejected', 'c20.setter_accepted']),
    ],
)

PROPS['C14'] = dict(
    engine='pipelab',
    key_prefixes=['c14:', 'nonterm:', 'abort:', 'crash:', 'timeout', 'hang:'],
    technique='runtime monitoring: per-pipe reference regrouping model over '
              'the accepted byte stream, metamorphic cutting-independence '
              'check, non-termination decided in logical steps',
    level_text='Aggregation and fixed-size chunking are compared unit by unit '
               'with a reference model (greedy packing with the documented '
               'anticipate-next-unit rule; size = mtu/align*align with the '
               'unaligned tail dropped at release) incl. option changes '
               'mid-stream; the same stream is replayed under 2-4 cuttings '
               '(0/1-octet and segmented buffers) and must give identical '
               'units; release/flush are bounded by a step budget.',
    level_note=PIPELAB_NOTE,
    rule='case = one history of 10-40 operations on aggregate / chunk_stream '
         'with a single accepting sink, or one stream under 2-4 cuttings; '
         'distinct = hash of the operation sequence / (options, stream '
         'length)',
    assumptions=['upipe_flush is only modelled for pipes that handle it'],
    jobs=[
        dict(name='pipelab', bin='pipelab', variant='asan', mode='c14',
             quick=40000, thorough=2000000,
             require=['c14.units_checked', 'c14.cuttings_compared']),
    ],
)

PROPS['C12'] = dict(
    engine='pipelab',
    key_prefixes=['c12:', 'asan:', 'abort:', 'crash:', 'timeout', 'hang:'],
    technique='runtime monitoring: registration model {request -> where it '
              'must currently be lodged} checked at every quiescent point '
              'against recording sinks / probes (proxy chains followed back '
              'to the original request), recording requester callbacks',
    level_text='Random histories of register / unregister / set_output (next '
               'pipe, sink, none) / provide / late provide / release over '
               'chains of 1-3 request-forwarding pipes with 5 request types, '
               'providers at sinks (immediate, late, silent) and at probes '
               '(real uprobe_uref_mgr / ubuf_mem / uclock): exactly one '
               'lodging on the current output, withdrawal from the old one, '
               'answers reach the original requester, no callback after '
               'unregistration, nothing left on the sinks after release.',
    level_note=PIPELAB_NOTE + ' In-thread chains; the queue crossing is '
               'covered with C06.',
    rule='case = one chain + 8-32 operations, quiescent check after each; '
         'distinct = hash of the operation sequence; every case is non-trivial',
    assumptions=['after set_output(NULL) pending requests simply stay '
                 'pending (nothing to re-issue them to)',
                 'sink latency answers may be modified by pipes on the way'],
    jobs=[
        dict(name='pipelab', bin='pipelab', variant='asan', mode='c12',
             quick=100000, thorough=3000000, leak_check=True,
             require=['c12.lodging_checks', 'c12.answered', 'c12.replumb', 'c12.bin_inner_replaced', 'c12.bins_replacing_their_inner_in_two_steps',
                      'c12.unregister', 'c12.chains_with_queue',
                      'c12.renewed_in_callback', 'c12.output_owned_by_the_pipeline',
                      'c12.bursts_overflowing_the_oob_queue']),
    ],
)

PROPS['C06'] = dict(
    engine='sched',
    key_prefixes=['c06:', 'tsan:', 'asan:', 'abort:', 'crash:', 'timeout', 'hang:'],
    technique='runtime monitoring: per-thread event logs checked after join '
              '(exactly-once / in-order / flow-definition-first / end-of-'
              'source-last / thread-affinity automaton) under (A) a seeded '
              'serialising scheduler with mock loops on the real event '
              'descriptors, deadlock decided on logical state, and (B) '
              'free-running threads with real libev loops under '
              'ThreadSanitizer',
    level_text='1-3 producer threads each with a queue sink into one queue '
               'source (lengths 1, 2, 3, 7, 255) read by a consumer thread: '
               'bursts larger than the queue, flow definition changed '
               'mid-stream, flush during a stall, release with buffers held; '
               'every buffer must arrive once, in order, under the '
               'definition it was sent with, end-of-source last, consumer-'
               'side events in the consumer thread only; TSan reports '
               'outside the by-design racy ring accesses are violations.',
    level_note=SAN_NOTE + 'Interleavings sampled, sequentially consistent in '
               'mode A; TSan reports whose top frames are uring_* (the '
               'deliberately unsynchronised ring element accesses, judged by '
               'C07) are listed, not judged. Worker / transfer pipes: see '
               'DESIGN.md.',
    rule='case = one program (producers, burst sizes, queue length, flow-def '
         'change, flush) + one schedule; non-trivial = more context switches '
         'than threads (A) / every run (B); distinct = hash of (program, '
         'decision string)',
    assumptions=['producers sharing one queue use the same flow definition'],
    jobs=[
        dict(name='queue-serial', bin='xthread', variant='plain', mode='serial',
             quick=40000, thorough=2000000,
             require=['c06.cases_with_stall', 'c06.cases_with_flush',
                      'c06.cases_with_flow_def_change', 'c06.deliveries_checked']),
        dict(name='queue-serial-asan', bin='xthread', variant='asan', mode='serial',
             quick=4000, thorough=200000),
        dict(name='queue-free-tsan', bin='xthread', variant='tsan', mode='free',
             args=['--max-producers', '1', '--case-cpu-budget', '300'], quick=400, thorough=12000, timeout=3000,
             require=['c06.deliveries_checked']),
        dict(name='queue-free-tsan-multi', bin='xthread', variant='tsan', mode='free',
             args=['--case-cpu-budget', '300'], quick=48, thorough=1600, timeout=3000),
        dict(name='worker-serial', bin='xworker', variant='plain', mode='serial',
             quick=30000, thorough=1500000,
             require=['c06.remote_entries_checked', 'c06.worker_deliveries_checked',
                      'c06.frozen_sections_checked', 'c06.worker_kind.wsink',
                      'c06.worker_kind.wlin', 'c06.programs_with_mutex',
                      'c06.remote_entered_inside_frozen_window']),
        dict(name='worker-serial-asan', bin='xworker', variant='asan', mode='serial',
             quick=12000, thorough=400000),
        dict(name='worker-free-tsan', bin='xworker', variant='tsan', mode='free',
             args=['--case-cpu-budget', '300'], quick=400, thorough=12000, timeout=3000,
             require=['c06.worker_deliveries_checked']),
    ],
)


# ------------------------------------------------------------------ TS lab
from . import props_ts as _ts  # noqa: E402

HARNESS.update(_ts.HARNESS_TS)
ENGINES.append(_ts.ENGINE_TS)
for _pid in ('C15', 'C16', 'C17'):
    PROPS[_pid] = _ts.PROPS_TS[_pid]
PROPS['C14']['jobs'] = PROPS['C14']['jobs'] + _ts.PROPS_TS['C14ts']['jobs']
PROPS['C14']['key_prefixes'] = PROPS['C14']['key_prefixes'] + ['asan:', 'tslab:']
PROPS['C14']['rule'] += '; ' + _ts.PROPS_TS['C14ts']['rule_ts']
PROPS['C14']['assumptions'] = PROPS['C14']['assumptions'] + \
    _ts.PROPS_TS['C14ts']['assumptions_ts']
PROPS['C14']['technique'] += ('; TS part (ts_sync / ts_check / ts_align, '
                              'compiled against the biTStream shim): '
                              'cutting-metamorphic comparison, unit shape and '
                              'conservation checks, reference scanner as a '
                              'diagnostic')
PROPS['C14']['level_note'] += ' ' + _ts.SHIM_NOTE
