"""Property table: which harness jobs decide which property."""

COMMON = ['harness/common/vh.c']

HARNESS = {
    'bits': dict(srcs=['harness/corelab/bits.c'] + COMMON),
    'block': dict(srcs=['harness/corelab/block.c'] + COMMON),
    'picsound': dict(srcs=['harness/corelab/picsound.c', 'harness/common/cumem.c'] + COMMON),
}

ENGINES = [
    dict(name='corelab', path='harness/corelab',
         serves_properties=['C02', 'C03', 'C10', 'C11', 'C18', 'C19'],
         kind_free_text='model-based runtime monitors for core data '
                        'structures: after every API call the real object is '
                        'compared with a reference model; ASan/UBSan build'),
]

NOT_CLAIMED = {}

PROPS = {}

SAN_NOTE = ('Runtime monitoring: verdict = held on the executions explored '
            '(counts in the evidence), not a proof. ')

PROPS['C18'] = dict(
    engine='corelab',
    technique='runtime monitoring: reference-model oracle (independent '
              'MSB-first packer) + AddressSanitizer red zones + canaries over '
              'randomly generated field sequences, buffer sizes and block '
              'segmentations',
    level_text='Randomised differential testing of ubits writer/reader and '
               'the block bit-stream reader against an independent packer, '
               'under ASan with exact-size buffers and canaries; explores '
               '4e5 (quick) to 3e7 (thorough) sequences incl. adversarial '
               'width patterns, every start bit and up to 64 segments.',
    level_note=SAN_NOTE + 'Block bit-stream reader driven in chunks <= 25 '
               'bits (wider fields in two chunks, as the framers do). UBSan '
               'shift reports are diagnostics, wrong bytes are violations.',
    rule='each case = random field sequence (1-64 fields, widths 1-32, '
         'adversarial width patterns) written by ubits_put/clean into an '
         'exact / short / long buffer, re-read by ubits_get and by the block '
         'bit-stream reader over a random segmentation and start bit; '
         'non-trivial+distinct = distinct hash of (widths, values[, '
         'segment count, start bit])',
    assumptions=[
        'block bit-stream reader is driven in chunks of at most 25 bits, the '
        'largest width for which fill_bits is defined for every fill level',
        'UBSan shift reports are diagnostics; a wrong byte is the violation',
    ],
    jobs=[
        dict(name='bits', bin='bits', variant='asan', quick=3000000,
             thorough=100000000,
             require=['write.fits', 'write.too_small', 'get.overflow_seen',
                      'stream.multiseg', 'stream.overflow_seen']),
    ],
)

PROPS['C03'] = dict(
    engine='corelab',
    technique='runtime monitoring: byte-vector reference model compared '
              'through the full accessor battery after every operation of '
              'random operation histories; ASan build',
    level_text='Model-based randomised testing: every mutating block '
               'operation of a generated history is mirrored on a byte '
               'vector; size, size_linear, read, peek, extract, iovec, scan, '
               'find, compare, equal, match and the octet stream are compared '
               'after each step on all touched handles, for 8 manager '
               'configurations, under AddressSanitizer.',
    level_note=SAN_NOTE + 'Arguments outside the documented domain are only '
               'judged by: error => unchanged; success => still a consistent '
               'byte string (except offsets before the start / reads past the '
               'end, which must be refused).',
    rule='case = history of 30 operations on up to 8 handles; non-trivial = '
         'history during which the battery ran on a block of >= 3 segments; '
         'distinct = distinct hash of the operation/argument sequence',
    assumptions=['undocumented negative offsets of insert/delete/truncate are '
                 'judged only by the weak rule',
                 'octets revealed by prepend / copy extension are unspecified '
                 '(adopted by the model)'],
    jobs=[
        dict(name='block', bin='block', variant='asan', mode='c03',
             quick=300000, thorough=6000000,
             require=['battery.on_3plus_segments', 'acc.peek_bounce',
                      'op.prepend_ok', 'ood.error', 'acc.find']),
    ],
)

PROPS['C19'] = dict(
    engine='corelab',
    technique='runtime monitoring: position-coded content + per-handle model '
              'in absolute coordinates, acceptance oracle for windows, canary '
              'guard zones and AddressSanitizer, over all standard picture '
              'formats and random sound formats',
    level_text='Randomised model-based testing over the 48 standard picture '
               'formats x sizes x margins x alignment and planar/packed sound '
               'formats: every accepted window is bounds-checked against the '
               'allocation and compared with a model that follows crops / '
               'extensions / dups; invalid windows must be refused.',
    level_note=SAN_NOTE + 'Reference acceptance predicate taken from the '
               'documented rules of ubuf_pic.h / ubuf_sound.h; zero-size '
               'windows are not judged.',
    rule='case = one buffer family (format, size, manager config) + 12 '
         'operations (windows valid and invalid, dup, resize chains, block '
         're-export, free); distinct = hash of configuration and operation '
         'sequence; every case is non-trivial (>= 1 window compared)',
    assumptions=['manager margins are always given explicitly (the default '
                 'values are private to the implementation)'],
    jobs=[
        dict(name='picsound', bin='picsound', variant='asan', mode='c19',
             quick=150000, thorough=4000000,
             require=['pic.write_windows', 'pic.resize_extended',
                      'pic.resize_cropped', 'snd.write_windows', 'snd.resize',
                      'pic.invalid_window.granularity',
                      'pic.invalid_window.exceeds',
                      'pic.invalid_window.before-origin']),
    ],
)

PROPS['C02'] = dict(
    engine='corelab',
    technique='runtime monitoring: per-handle content models re-compared '
              'after every operation on any handle of a sharing family; every '
              'granted write mapping is used; ASan build',
    level_text='Randomised black-box isolation testing of block, picture and '
               'sound buffers that share memory (dup, splice, split, slice-'
               'inducing insert/delete, uref_dup, picture/sound re-exported '
               'as blocks): every granted write mapping is overwritten with '
               'fresh data and all sibling handles are re-read; fresh memory '
               'must be writable, a just-duplicated handle must be refused.',
    level_note=SAN_NOTE + 'No white-box owner count is modelled: a refusal on '
               'data that only looks unshared is not a violation.',
    rule='case = family of up to 8 handles and 25 operations (block) or one '
         'picture/sound family and 12 operations; distinct = hash of the '
         'operation sequence; every case runs >= 1 sibling comparison',
    assumptions=['write refusals are only demanded right after a dup with '
                 'both handles alive; grants only on memory never shared'],
    jobs=[
        dict(name='block', bin='block', variant='asan', mode='c02',
             quick=100000, thorough=3000000,
             require=['c02.write_granted', 'c02.write_refused',
                      'c02.refusal_checked']),
        dict(name='picsound', bin='picsound', variant='asan', mode='c02',
             quick=30000, thorough=1000000,
             require=['pic.write_windows', 'c02.pic_refusal_checked',
                      'c02.snd_refusal_checked', 'pic.block_from_pic',
                      'snd.block_from_sound']),
    ],
)
