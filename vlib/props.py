"""Property table: which harness jobs decide which property."""

COMMON = ['harness/common/vh.c']

HARNESS = {
    'bits': dict(srcs=['harness/corelab/bits.c'] + COMMON),
    'block': dict(srcs=['harness/corelab/block.c'] + COMMON),
}

ENGINES = [
    dict(name='corelab', path='harness/corelab',
         serves_properties=['C18'],
         kind_free_text='model-based runtime monitors for core data '
                        'structures: after every API call the real object is '
                        'compared with a reference model; ASan/UBSan build'),
]

NOT_CLAIMED = {}

PROPS = {}

SAN_NOTE = ('Runtime monitoring: verdict = held on the executions explored '
            '(counts in the evidence), not a proof. ')

PROPS['C18'] = dict(
    engine='corelab',
    technique='runtime monitoring: reference-model oracle (independent '
              'MSB-first packer) + AddressSanitizer red zones + canaries over '
              'randomly generated field sequences, buffer sizes and block '
              'segmentations',
    level_text='Randomised differential testing of ubits writer/reader and '
               'the block bit-stream reader against an independent packer, '
               'under ASan with exact-size buffers and canaries; explores '
               '4e5 (quick) to 3e7 (thorough) sequences incl. adversarial '
               'width patterns, every start bit and up to 64 segments.',
    level_note=SAN_NOTE + 'Block bit-stream reader driven in chunks <= 25 '
               'bits (wider fields in two chunks, as the framers do). UBSan '
               'shift reports are diagnostics, wrong bytes are violations.',
    rule='each case = random field sequence (1-64 fields, widths 1-32, '
         'adversarial width patterns) written by ubits_put/clean into an '
         'exact / short / long buffer, re-read by ubits_get and by the block '
         'bit-stream reader over a random segmentation and start bit; '
         'non-trivial+distinct = distinct hash of (widths, values[, '
         'segment count, start bit])',
    assumptions=[
        'block bit-stream reader is driven in chunks of at most 25 bits, the '
        'largest width for which fill_bits is defined for every fill level',
        'UBSan shift reports are diagnostics; a wrong byte is the violation',
    ],
    jobs=[
        dict(name='bits', bin='bits', variant='asan', quick=400000,
             thorough=30000000,
             require=['write.fits', 'write.too_small', 'get.overflow_seen',
                      'stream.multiseg', 'stream.overflow_seen']),
    ],
)

PROPS['C03'] = dict(
    engine='corelab',
    technique='runtime monitoring: byte-vector reference model compared '
              'through the full accessor battery after every operation of '
              'random operation histories; ASan build',
    level_text='Model-based randomised testing: every mutating block '
               'operation of a generated history is mirrored on a byte '
               'vector; size, size_linear, read, peek, extract, iovec, scan, '
               'find, compare, equal, match and the octet stream are compared '
               'after each step on all touched handles, for 8 manager '
               'configurations, under AddressSanitizer.',
    level_note=SAN_NOTE + 'Arguments outside the documented domain are only '
               'judged by: error => unchanged; success => still a consistent '
               'byte string (except offsets before the start / reads past the '
               'end, which must be refused).',
    rule='case = history of 30 operations on up to 8 handles; non-trivial = '
         'history during which the battery ran on a block of >= 3 segments; '
         'distinct = distinct hash of the operation/argument sequence',
    assumptions=['undocumented negative offsets of insert/delete/truncate are '
                 'judged only by the weak rule',
                 'octets revealed by prepend / copy extension are unspecified '
                 '(adopted by the model)'],
    jobs=[
        dict(name='block', bin='block', variant='asan', mode='c03',
             quick=40000, thorough=2000000,
             require=['battery.on_3plus_segments', 'acc.peek_bounce',
                      'op.prepend_ok', 'ood.error', 'acc.find']),
    ],
)
