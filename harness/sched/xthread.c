/* C06 — buffers cross threads exactly once, in order, through queue pipes.
 *
 * mode "serial": producers and the consumer are logical threads of the seeded
 *   serialising scheduler, each owning a mock event loop that sleeps on the
 *   real event descriptors (deadlock = lost wake-up decided on logical state).
 * mode "free": the same scenarios with real threads and real upump_ev loops,
 *   random perturbation at the yield hook, for ThreadSanitizer.
 *
 * Per-thread append-only event logs (no shared clock in free mode, so that
 * the recorder adds no synchronisation), merged and checked after join. */
#include "vh.h"
#include "sched.h"
#include "mockloop.h"

#include "upipe/ubase.h"
#include "upipe/uverif.h"
#include "upipe/umem.h"
#include "upipe/umem_alloc.h"
#include "upipe/udict.h"
#include "upipe/udict_inline.h"
#include "upipe/uref.h"
#include "upipe/uref_std.h"
#include "upipe/uref_flow.h"
#include "upipe/uref_attr.h"
#include "upipe/uref_block.h"
#include "upipe/uref_block_flow.h"
#include "upipe/ubuf_block_mem.h"
#include "upipe/uprobe.h"
#include "upipe/uprobe_uref_mgr.h"
#include "upipe/uprobe_upump_mgr.h"
#include "upipe/upipe.h"
#include "upipe/upump.h"
#include "upipe/upipe_helper_upipe.h"
#include "upipe/upipe_helper_urefcount.h"
#include "upipe/upipe_helper_void.h"
#include "upipe-modules/upipe_queue_sink.h"
#include "upipe-modules/upipe_queue_source.h"
#include "upump-ev/upump_ev.h"
#include "lib/upipe-modules/upipe_queue.h"   /* internal: diagnostics of a deadlock only */

#include <ev.h>
#include <pthread.h>
#include <sched.h>
#include <stdlib.h>
#include <string.h>
#include <time.h>
#include <inttypes.h>

#define MAXT 4
#define MAXB 24

static struct vh_rng *R;
static bool free_running;

/* ---- per-thread logs ---- */
enum { X_SINK_FLOWDEF = 1, X_SINK_INPUT, X_SOURCE_END, X_PROBE, X_STALLED };
struct xev { int kind; int thread; int a; uint64_t b; };
#define MAXLOG 4096
struct xlog { struct xev e[MAXLOG]; int n; };
static struct xlog logs[MAXT];
static __thread int my_thr = -1;

static void xlog_add(int kind, int a, uint64_t b)
{
    int t = my_thr;
    if (t < 0 || t >= MAXT) t = 0;
    struct xlog *l = &logs[t];
    if (l->n < MAXLOG) { l->e[l->n].kind = kind; l->e[l->n].thread = my_thr; l->e[l->n].a = a; l->e[l->n].b = b; l->n++; }
}

/* ---- shared managers (thread-safe by design: lock-free pools) ---- */
static struct umem_mgr *umem_mgr;
static struct udict_mgr *udict_mgr;
static struct uref_mgr *uref_mgr;
static struct ubuf_mgr *block_mgr;

/* ---- recording sink (lives in the consumer thread) ---- */
#define XSINK_SIGNATURE UBASE_FOURCC('x','s','n','k')
struct xsink { struct urefcount urefcount; struct upipe upipe; };
UPIPE_HELPER_UPIPE(xsink, upipe, XSINK_SIGNATURE)
UPIPE_HELPER_UREFCOUNT(xsink, urefcount, xsink_free)
UPIPE_HELPER_VOID(xsink)

static struct upipe *xsink_alloc(struct upipe_mgr *mgr, struct uprobe *uprobe, uint32_t signature, va_list args)
{
    struct upipe *upipe = xsink_alloc_void(mgr, uprobe, signature, args);
    xsink_init_urefcount(upipe);
    upipe_throw_ready(upipe);
    return upipe;
}
static int xsink_control(struct upipe *upipe, int command, va_list args)
{
    (void)upipe;
    if (command == UPIPE_SET_FLOW_DEF) {
        struct uref *fd = va_arg(args, struct uref *);
        uint64_t v = 0;
        uref_attr_get_unsigned(fd, &v, UDICT_TYPE_UNSIGNED, "x.defver");
        xlog_add(X_SINK_FLOWDEF, 0, v);
        return UBASE_ERR_NONE;
    }
    if (command == UPIPE_REGISTER_REQUEST) { struct urequest *r = va_arg(args, struct urequest *); return upipe_throw_provide_request(upipe, r); }
    if (command == UPIPE_UNREGISTER_REQUEST) return UBASE_ERR_NONE;
    return UBASE_ERR_UNHANDLED;
}
static void xsink_input(struct upipe *upipe, struct uref *uref, struct upump **upump_p)
{
    (void)upipe; (void)upump_p;
    uint64_t seq = UINT64_MAX, prod = 0;
    uref_attr_get_unsigned(uref, &seq, UDICT_TYPE_UNSIGNED, "x.seq");
    uref_attr_get_unsigned(uref, &prod, UDICT_TYPE_UNSIGNED, "x.prod");
    xlog_add(X_SINK_INPUT, (int)prod, seq);
    uref_free(uref);
}
static void xsink_free(struct upipe *upipe)
{
    upipe_throw_dead(upipe);
    xsink_clean_urefcount(upipe);
    xsink_free_void(upipe);
}
static struct upipe_mgr xsink_mgr = { .refcount = NULL, .signature = XSINK_SIGNATURE, .upipe_alloc = xsink_alloc, .upipe_input = xsink_input, .upipe_control = xsink_control };

/* ---- probes ---- */
struct xprobe { struct uprobe uprobe; int owner_thread; int pipe_kind; };   /* pipe_kind: 0 qsink 1 qsrc 2 sink */
static int source_ends;
static struct ev_loop *consumer_evloop;
static int nproducers;

static int xprobe_throw(struct uprobe *uprobe, struct upipe *upipe, int event, va_list args)
{
    struct xprobe *xp = container_of(uprobe, struct xprobe, uprobe);
    if (event != UPROBE_LOG) xlog_add(X_PROBE, xp->pipe_kind * 100 + xp->owner_thread, event);
    if (event == UPROBE_SOURCE_END && xp->pipe_kind == 1) {
        xlog_add(X_SOURCE_END, 0, 0);
        source_ends++;
        if (free_running && source_ends >= nproducers && consumer_evloop) ev_break(consumer_evloop, EVBREAK_ALL);
    }
    if (event == UPROBE_STALLED) xlog_add(X_STALLED, 0, 0);
    return uprobe_throw_next(uprobe, upipe, event, args);
}

/* ---- threads ---- */
struct thr {
    int idx, role;                      /* 0 producer, 1 consumer */
    struct upump_mgr *loop;
    struct ev_loop *evloop;
    struct xprobe probe;
    struct vh_rng rng;
    /* producer */
    struct upipe *qsink;
    int k, sent;
    int defchange_at;                   /* -1: never */
    int flush_at;
    bool flushed;
    bool done;
};
static struct thr T[MAXT];
static int nthr;
static struct upipe *qsrc, *sink;
static struct xprobe qsrc_probe, sink_probe;
static int producers_done;
static unsigned qlen;

static void perturb(struct vh_rng *r)
{
    uint32_t k = vh_below(r, 16);
    if (k < 8) return;
    if (k < 12) sched_yield();
    else if (k < 15) { for (volatile int i = 0; i < (int)vh_below(r, 3000); i++) {} }
    else { struct timespec ts = { 0, (long)vh_below(r, 150000) }; nanosleep(&ts, NULL); }
}
static __thread struct vh_rng *perturb_rng;
static void free_hook(int site, const void *addr) { (void)site; (void)addr; if (perturb_rng) perturb(perturb_rng); }

static struct uref *make_def(uint64_t ver)
{
    struct uref *fd = uref_block_flow_alloc_def(uref_mgr, "x.");
    uref_attr_set_unsigned(fd, ver, UDICT_TYPE_UNSIGNED, "x.defver");
    return fd;
}

static bool loop_idle_pred(void *arg)
{
    struct thr *t = arg;
    if (t->role == 1) { if (source_ends >= nproducers) return true; }
    else if (mockloop_nb_active(t->loop) == 0) return true;
    return mockloop_has_ready(t->loop);
}

/* serial mode: run the mock loop until cond() */
static bool serial_loop(struct thr *t, bool (*cond)(struct thr *))
{
    for (;;) {
        if (cond(t)) return true;
        if (mockloop_has_ready(t->loop)) { mockloop_step(t->loop, &t->rng); continue; }
        if (!sched_block(loop_idle_pred, t)) return false;
    }
}
static bool cond_producer_drained(struct thr *t) { return mockloop_nb_active(t->loop) == 0; }
static bool cond_consumer_done(struct thr *t) { (void)t; return source_ends >= nproducers; }

static void producer(void *arg)
{
    struct thr *t = arg;
    my_thr = t->idx;
    perturb_rng = free_running ? &t->rng : NULL;
    uint64_t ver = 1;
    struct uref *fd = make_def(ver);
    upipe_set_flow_def(t->qsink, fd);
    uref_free(fd);
    for (int i = 0; i < t->k; i++) {
        if (i == t->defchange_at) { ver++; fd = make_def(ver); upipe_set_flow_def(t->qsink, fd); uref_free(fd); }
        struct uref *u = uref_block_alloc(uref_mgr, block_mgr, 8);
        uref_attr_set_unsigned(u, (uint64_t)i, UDICT_TYPE_UNSIGNED, "x.seq");
        uref_attr_set_unsigned(u, (uint64_t)t->idx, UDICT_TYPE_UNSIGNED, "x.prod");
        uref_attr_set_unsigned(u, ver, UDICT_TYPE_UNSIGNED, "x.ver");
        upipe_input(t->qsink, u, NULL);
        t->sent++;
        if (i == t->flush_at) { upipe_flush(t->qsink); t->flushed = true; }
        /* let the loop run now and then, as an application would */
        if (!free_running && vh_chance(&t->rng, 1, 3)) { while (mockloop_has_ready(t->loop) && vh_chance(&t->rng, 2, 3)) mockloop_step(t->loop, &t->rng); }
        if (free_running && vh_chance(&t->rng, 1, 3)) ev_run(t->evloop, EVRUN_NOWAIT);
    }
    /* release at any time: held buffers keep the queue sink alive until drained */
    upipe_release(t->qsink);
    t->qsink = NULL;
    bool drained = true;
    if (free_running) ev_run(t->evloop, 0);         /* returns when no watcher is active any more */
    else drained = serial_loop(t, cond_producer_drained);
    t->done = drained;
    __atomic_fetch_add(&producers_done, 1, __ATOMIC_SEQ_CST);
}

static void consumer(void *arg)
{
    struct thr *t = arg;
    my_thr = t->idx;
    perturb_rng = free_running ? &t->rng : NULL;
    if (free_running) { if (source_ends < nproducers) ev_run(t->evloop, 0); }
    else serial_loop(t, cond_consumer_done);
    /* every producer has ended: let go of the queue source and the sink */
    upipe_release(qsrc); qsrc = NULL;
    upipe_release(sink); sink = NULL;
    if (free_running) ev_run(t->evloop, EVRUN_NOWAIT);
    else while (mockloop_has_ready(t->loop)) mockloop_step(t->loop, &t->rng);
}

struct fr { sched_fn fn; void *arg; };
static void *fr_main(void *p) { struct fr *f = p; f->fn(f->arg); return NULL; }

static void xprobe_init(struct xprobe *xp, int owner, int kind, struct upump_mgr *loop)
{
    xp->owner_thread = owner; xp->pipe_kind = kind;
    struct uprobe *next = uprobe_uref_mgr_alloc(NULL, uref_mgr);
    next = uprobe_upump_mgr_alloc(next, loop);
    uprobe_init(&xp->uprobe, xprobe_throw, next);
}

static void run_case(struct vh_rng *r)
{
    R = r;
    /* fresh managers for every case: pool contents would otherwise change the
     * number of scheduling points and make single-case replays diverge */
    umem_mgr = umem_alloc_mgr_alloc();
    udict_mgr = udict_inline_mgr_alloc(4, umem_mgr, -1, -1);
    uref_mgr = uref_std_mgr_alloc(4, udict_mgr, 0);
    block_mgr = ubuf_block_mem_mgr_alloc(4, 4, umem_mgr, -1, 0, -1, 0);
    memset(T, 0, sizeof(T));
    memset(logs, 0, sizeof(logs));
    for (int i = 0; i < MAXT; i++) logs[i].n = 0;
    source_ends = 0; producers_done = 0;
    nproducers = 1 + vh_below(R, vh_arg_int("max-producers", 3));
    nthr = nproducers + 1;
    static const unsigned lens[] = { 1, 2, 3, 7, 255 };
    qlen = lens[vh_below(R, 5)];
    enum sched_strategy st = (enum sched_strategy)vh_below(R, 3);
    int ci = nproducers;                    /* consumer index */
    my_thr = ci;                            /* allocation-time events belong to the owner threads; logged under the consumer here */
    for (int i = 0; i < nthr; i++) {
        struct thr *t = &T[i];
        t->idx = i; t->role = i < nproducers ? 0 : 1;
        vh_rng_seed(&t->rng, vh_rand(R));
        if (free_running) { t->evloop = ev_loop_new(0); t->loop = upump_ev_mgr_alloc(t->evloop, 4, 4); }
        else t->loop = mockloop_mgr_alloc(2, 2);
    }
    consumer_evloop = T[ci].evloop;
    /* consumer side */
    xprobe_init(&qsrc_probe, ci, 1, T[ci].loop);
    xprobe_init(&sink_probe, ci, 2, T[ci].loop);
    struct upipe_mgr *qsrc_mgr = upipe_qsrc_mgr_alloc();
    qsrc = upipe_qsrc_alloc(qsrc_mgr, uprobe_use(&qsrc_probe.uprobe), qlen);
    upipe_mgr_release(qsrc_mgr);
    if (!qsrc) vh_violation("c06:alloc", "qsrc allocation failed");
    sink = upipe_void_alloc(&xsink_mgr, uprobe_use(&sink_probe.uprobe));
    upipe_set_output(qsrc, sink);
    uint64_t h = qlen;
    for (int i = 0; i < nproducers; i++) {
        struct thr *t = &T[i];
        my_thr = i;
        xprobe_init(&t->probe, i, 0, t->loop);
        struct upipe_mgr *qsink_mgr = upipe_qsink_mgr_alloc();
        t->qsink = upipe_qsink_alloc(qsink_mgr, uprobe_use(&t->probe.uprobe), qsrc);
        upipe_mgr_release(qsink_mgr);
        if (!t->qsink) vh_violation("c06:alloc", "qsink allocation failed");
        t->k = 1 + vh_below(R, MAXB);
        /* a shared queue carries one flow: definitions only change with a single producer */
        t->defchange_at = (nproducers == 1 && vh_chance(R, 1, 2)) ? (int)vh_below(R, t->k) : -1;
        t->flush_at = vh_chance(R, 1, 6) ? (int)vh_below(R, t->k) : -1;
        h = vh_hash_mix(h, t->k * 64 + t->defchange_at + 1);
    }
    my_thr = -1;
    if (vh_opts.verbose > 2) { struct upipe_queue *q = upipe_queue(qsrc); fprintf(stderr, "ADDR data: counter %p push %p pop %p | doob: counter %p push %p pop %p fifo %p\n", (void *)&q->uqueue.counter, (void *)&q->uqueue.event_push, (void *)&q->uqueue.event_pop, (void *)&q->downstream_oob.counter, (void *)&q->downstream_oob.event_push, (void *)&q->downstream_oob.event_pop, (void *)&q->downstream_oob.fifo); }
    vh_tr("queue len=%u producers=%d strategy=%d k=%d/%d/%d defchange=%d flush=%d/%d/%d", qlen, nproducers, st, T[0].k, T[1].k, T[2].k, T[0].defchange_at, T[0].flush_at, T[1].flush_at, T[2].flush_at);

    sched_fn fns[MAXT]; void *args[MAXT];
    for (int i = 0; i < nthr; i++) { fns[i] = T[i].role ? consumer : producer; args[i] = &T[i]; }
    struct sched_result res;
    memset(&res, 0, sizeof(res));
    if (free_running) {
        pthread_t th[MAXT]; struct fr f[MAXT];
        for (int i = 0; i < nthr; i++) { f[i].fn = fns[i]; f[i].arg = args[i]; pthread_create(&th[i], NULL, fr_main, &f[i]); }
        /* a lost wake-up leaves every loop inside epoll_wait for ever: bounded
         * wait, then the run is abandoned (threads cannot be unwound) */
        struct timespec dl; clock_gettime(CLOCK_REALTIME, &dl); dl.tv_sec += nproducers > 1 ? 10 : 90;
        for (int i = 0; i < nthr; i++)
            if (pthread_timedjoin_np(th[i], NULL, &dl) != 0) {
                char key[96];
                /* with one producer no lost wake-up is known: a hang is more likely an overloaded machine -> inconclusive */
                snprintf(key, sizeof(key), "%s:free-running-hang:%s-producer", nproducers > 1 ? "c06" : "inconclusive", nproducers > 1 ? "multi" : "single");
                vh_violation_noabort(key, "threads still inside their event loops long after start: %d of %d producers done (queue length %u)", __atomic_load_n(&producers_done, __ATOMIC_SEQ_CST), nproducers, qlen);
                fflush(stdout);
                fprintf(stderr, "VH-ABORT-KEY %s\n", key);
                abort();
            }
    } else
        sched_run(nthr, fns, args, R, st, &res, NULL, 0);

    if (vh_opts.verbose) for (int t = 0; t < nthr; t++) { fprintf(stderr, "LOG T%d:", t); for (int i = 0; i < logs[t].n; i++) fprintf(stderr, " %d/%d/%" PRIu64, logs[t].e[i].kind, logs[t].e[i].a, logs[t].e[i].b); fprintf(stderr, "\n"); }
    /* ---------------- checks ---------------- */
    bool any_flush = false;
    for (int i = 0; i < nproducers; i++) if (T[i].flushed) any_flush = true;
    char key[128];
    if (res.deadlock) {
        /* which side sleeps? */
        bool prod_stuck = false;
        for (int i = 0; i < nproducers; i++) if (!T[i].done) prod_stuck = true;
        snprintf(key, sizeof(key), "c06:deadlock:%s-producer:%s", nproducers > 1 ? "multi" : "single", prod_stuck ? "producer-asleep" : "consumer-asleep");
        struct upipe_queue *q = qsrc ? upipe_queue(qsrc) : NULL;
        vh_violation_noabort(key, "all event loops asleep while buffers are still held or queued (queue length %u, %d producers, %d source ends seen; data queue holds %u, downstream oob queue holds %u, upstream oob %u)", qlen, nproducers, source_ends,
                             q ? uqueue_length(&q->uqueue) : 0, q ? uqueue_length(&q->downstream_oob) : 0, q ? uqueue_length(&q->upstream_oob) : 0);
    } else {
        struct xlog *cl = &logs[ci];
        uint64_t next[MAXT] = { 0 }; int got[MAXT] = { 0 };
        uint64_t curdef = 0; bool ended = false; int ends = 0;
        for (int i = 0; i < cl->n; i++) {
            struct xev *e = &cl->e[i];
            if (e->kind == X_SINK_FLOWDEF) curdef = e->b;
            else if (e->kind == X_SOURCE_END) { ends++; if (ends >= nproducers) ended = true; }
            else if (e->kind == X_SINK_INPUT) {
                int p = e->a;
                if (p < 0 || p >= nproducers) { vh_violation_noabort("c06:invented", "buffer of unknown producer %d", p); continue; }
                if (ended) vh_violation_noabort("c06:buffer-after-source-end", "a buffer (producer %d seq %" PRIu64 ") was delivered after the last end-of-source", p, e->b);
                if (curdef == 0) vh_violation_noabort("c06:buffer-before-flow-def", "a buffer was delivered before any flow definition");
                if (e->b < next[p]) vh_violation_noabort(e->b + 1 == next[p] ? "c06:duplicated" : "c06:reordered", "producer %d: seq %" PRIu64 " delivered after %" PRIu64, p, e->b, next[p] - 1);
                else if (e->b > next[p] && !T[p].flushed) vh_violation_noabort("c06:lost", "producer %d: seq %" PRIu64 " delivered, %" PRIu64 " missing", p, e->b, next[p]);
                /* the definition in force must be the one the buffer was sent under */
                if (nproducers == 1 && T[0].defchange_at >= 0) {
                    uint64_t want = e->b >= (uint64_t)T[0].defchange_at ? 2 : 1;
                    if (curdef != want) vh_violation_noabort("c06:wrong-flow-def", "seq %" PRIu64 " delivered under flow definition %" PRIu64 ", sent under %" PRIu64, e->b, curdef, want);
                }
                next[p] = e->b + 1; got[p]++;
                VH_COUNT("c06.deliveries_checked");
            }
        }
        for (int p = 0; p < nproducers; p++)
            if (!T[p].flushed && got[p] != T[p].sent)
                vh_violation_noabort("c06:lost", "producer %d sent %d buffers, %d delivered (queue length %u, event loop attached)", p, T[p].sent, got[p], qlen);
        if (ends != nproducers) vh_violation_noabort("c06:source-end-count", "%d end-of-source events for %d producers", ends, nproducers);
        /* thread affinity: consumer-side events only in the consumer thread, each queue sink's events in its thread */
        for (int t = 0; t < nthr; t++) for (int i = 0; i < logs[t].n; i++) {
            struct xev *e = &logs[t].e[i];
            bool consumer_side = e->kind == X_SINK_FLOWDEF || e->kind == X_SINK_INPUT || e->kind == X_SOURCE_END || (e->kind == X_PROBE && e->a / 100 >= 1);
            if (consumer_side && e->thread != ci && e->thread != -1) vh_violation_noabort("c06:wrong-thread:consumer-side", "a consumer-side event (kind %d) happened in thread %d", e->kind, e->thread);
            if (e->kind == X_PROBE && e->a / 100 == 0 && e->thread != e->a % 100 && e->thread != -1 && e->b != UPROBE_DEAD)
                vh_violation_noabort("c06:wrong-thread:producer-side", "an event of the queue sink of thread %d happened in thread %d", e->a % 100, e->thread);
        }
        int stalls = 0; for (int t = 0; t < nproducers; t++) for (int i = 0; i < logs[t].n; i++) if (logs[t].e[i].kind == X_STALLED) stalls++;
        if (stalls) VH_COUNT("c06.cases_with_stall");
        if (any_flush) VH_COUNT("c06.cases_with_flush");
        if (T[0].defchange_at >= 0) VH_COUNT("c06.cases_with_flow_def_change");
    }
    /* cleanup */
    if (qsrc) { upipe_release(qsrc); qsrc = NULL; }
    if (sink) { upipe_release(sink); sink = NULL; }
    for (int i = 0; i < nproducers; i++) if (T[i].qsink) { upipe_release(T[i].qsink); T[i].qsink = NULL; }
    for (int i = 0; i < nthr; i++) {
        if (!free_running) mockloop_run(T[i].loop, R, 1000, 4);
        upump_mgr_release(T[i].loop);
        if (T[i].evloop) ev_loop_destroy(T[i].evloop);
    }
    for (int i = 0; i < nproducers; i++) uprobe_clean(&T[i].probe.uprobe);
    uprobe_clean(&qsrc_probe.uprobe);
    uprobe_clean(&sink_probe.uprobe);
    ubuf_mgr_release(block_mgr); uref_mgr_release(uref_mgr); udict_mgr_release(udict_mgr); umem_mgr_release(umem_mgr);
    VH_COUNT("c06.queue_programs");
    VH_ADD("sched.decisions", res.decisions);
    VH_ADD("sched.switches", res.switches);
    if (free_running || res.switches > (uint32_t)nthr) vh_nontrivial(vh_hash_mix(h, res.hash));
    if (vh_want_sample()) vh_sample("%s | %u decisions %u switches", vh_trace, res.decisions, res.switches);
}

static void init(void)
{
    free_running = !strcmp(vh_opts.mode, "free");
    if (free_running) uverif_yield_hook = free_hook; else sched_install();
}

static const struct vh_lab lab = { "xthread", init, run_case, NULL };
int main(int argc, char **argv) { return vh_main(argc, argv, &lab); }
