/* E1 — seeded serialising scheduler.  Logical threads are real pthreads, only
 * the holder of the baton runs.  Every UVERIF_YIELD point of the library
 * (atomic operations, ring element accesses, eventfd read/write) is a
 * scheduling point; the next thread is chosen by a seeded strategy, the
 * decisions are recorded (replay, distinct-schedule hash). */
#ifndef SCHED_H
#define SCHED_H

#include "vh.h"
#include <stdint.h>
#include <stdbool.h>

#define SCHED_MAX_THREADS 8
#define SCHED_MAX_DECISIONS 65536

enum sched_strategy {
    SCHED_UNIFORM = 0,      /* uniform choice among runnable threads at each point */
    SCHED_PCT,              /* random priorities, d priority change points */
    SCHED_LOWPREEMPT,       /* keep running with high probability */
    SCHED_SEQUENTIAL,       /* run each thread to completion (baseline) */
    SCHED_STRATEGIES
};

typedef void (*sched_fn)(void *arg);
typedef bool (*sched_pred)(void *arg);

struct sched_result {
    bool deadlock;          /* no runnable thread while some are unfinished */
    bool budget_exceeded;   /* too many scheduling points (livelock suspicion) */
    uint64_t hash;          /* hash of the decision string */
    uint32_t decisions;     /* scheduling points */
    uint32_t switches;      /* points at which another thread was chosen */
    uint32_t site_switches[32]; /* by yield site */
    uint32_t blocked_waits; /* times a thread blocked on a predicate */
};

void sched_install(void);

/* run the threads under the scheduler; returns when all finished or deadlock.
 * replay: if non-NULL, sequence of decisions to follow (thread indexes). */
void sched_run(int n, sched_fn fns[], void *args[], struct vh_rng *rng,
               enum sched_strategy strategy, struct sched_result *res,
               const uint8_t *replay, uint32_t replay_len);

/* outside sched_run (sequential phases): call cb once more than limit yield
 * points have been passed since this call (0 disables) */
void sched_spin_guard(uint64_t limit, void (*cb)(void));

/* from a logical thread: explicit scheduling point */
void sched_point(int site);
/* from a logical thread: block until pred(arg) becomes true (evaluated by the
 * scheduler while holding the baton). Returns false when the run is being
 * aborted (deadlock): the caller must unwind and return from its function. */
bool sched_block(sched_pred pred, void *arg);
/* index of the calling logical thread, -1 if not one */
int sched_self(void);
/* global logical clock, advanced at every scheduling point and on demand */
uint64_t sched_now(void);
uint64_t sched_tick(void);
bool sched_aborting(void);
/* decision string of the last run (for replay files) */
const uint8_t *sched_decisions(uint32_t *len_p);

#endif
