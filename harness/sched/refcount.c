/* C09 — a reference count runs its destructor exactly once, even under races;
 * shared buffer areas are returned to their allocator exactly once.
 * Programs of 2-3 threads under the serialising scheduler (mode "sched") or
 * free-running with random perturbation (mode "free", ThreadSanitizer). */
#include "vh.h"
#include "sched.h"
#include "cumem.h"

#include "upipe/ubase.h"
#include "upipe/uatomic.h"
#include "upipe/urefcount.h"
#include "upipe/umem.h"
#include "upipe/ubuf.h"
#include "upipe/ubuf_block.h"
#include "upipe/ubuf_block_mem.h"
#include "upipe/uverif.h"

#include <pthread.h>
#include <stdlib.h>
#include <string.h>
#include <time.h>
#include <sched.h>

#define MAXT 3
#define MAXOPS 8

static struct vh_rng *R;
static bool free_running;

/* ---------- part 1: bare urefcount ---------- */
struct obj {
    uint32_t magic;
    struct urefcount rc;
};

static struct obj *the_obj;
static uatomic_uint32_t destructor_runs;
static uatomic_uint32_t outstanding;        /* references whose release has not started */
static uatomic_uint32_t viol_early, viol_single, viol_dead;

static void obj_dtor(struct urefcount *rc)
{
    struct obj *o = container_of(rc, struct obj, rc);
    if (__atomic_load_n(&outstanding, __ATOMIC_SEQ_CST) != 0)
        __atomic_fetch_add(&viol_early, 1, __ATOMIC_SEQ_CST);
    __atomic_fetch_add(&destructor_runs, 1, __ATOMIC_SEQ_CST);
    if (o->magic == 0x0B1EC7ED) {
        o->magic = 0xDEAD;
        urefcount_clean(rc);
        free(o);
    }
}

enum { A_USE, A_RELEASE, A_SINGLE, A_DEAD };
static int plan[MAXT][MAXOPS], plan_n[MAXT], tokens0[MAXT];

struct tctx { int idx; struct vh_rng rng; };

static void perturb(struct tctx *c)
{
    if (!free_running) return;
    uint32_t k = vh_below(&c->rng, 16);
    if (k < 6) return;
    if (k < 11) sched_yield();
    else if (k < 15) { for (volatile int i = 0; i < (int)vh_below(&c->rng, 2000); i++) {} }
    else { struct timespec ts = { 0, (long)vh_below(&c->rng, 100000) }; nanosleep(&ts, NULL); }
}

static void rc_thread(void *arg)
{
    struct tctx *c = arg;
    int tokens = tokens0[c->idx];
    for (int i = 0; i < plan_n[c->idx]; i++) {
        perturb(c);
        switch (plan[c->idx][i]) {
            case A_USE:
                if (tokens) {
                    urefcount_use(&the_obj->rc);
                    __atomic_fetch_add(&outstanding, 1, __ATOMIC_SEQ_CST);
                    tokens++;
                }
                break;
            case A_RELEASE:
                if (tokens) {
                    tokens--;
                    __atomic_fetch_sub(&outstanding, 1, __ATOMIC_SEQ_CST);   /* release starts */
                    urefcount_release(&the_obj->rc);
                }
                break;
            case A_SINGLE:
                if (tokens) {
                    bool s = urefcount_single(&the_obj->rc);
                    /* the real count is at least the number of references not yet being released */
                    if (s && __atomic_load_n(&outstanding, __ATOMIC_SEQ_CST) > 1 && !free_running)
                        __atomic_fetch_add(&viol_single, 1, __ATOMIC_SEQ_CST);
                }
                break;
            case A_DEAD:
                if (tokens && urefcount_dead(&the_obj->rc))
                    __atomic_fetch_add(&viol_dead, 1, __ATOMIC_SEQ_CST);
                break;
        }
    }
    while (tokens) {
        perturb(c);
        tokens--;
        __atomic_fetch_sub(&outstanding, 1, __ATOMIC_SEQ_CST);
        urefcount_release(&the_obj->rc);
    }
}

/* ---------- part 2: shared buffer areas ---------- */
static struct umem_mgr *umem;
static struct ubuf_mgr *blk_mgr[2];
static struct ubuf *handles0[MAXT][3];
static int handles0_n[MAXT];
static uatomic_uint32_t viol_content;

static void shared_thread(void *arg)
{
    struct tctx *c = arg;
    struct ubuf *h[MAXOPS + 4];
    int nh = 0;
    for (int i = 0; i < handles0_n[c->idx]; i++) h[nh++] = handles0[c->idx][i];
    for (int i = 0; i < plan_n[c->idx]; i++) {
        perturb(c);
        int a = plan[c->idx][i];
        if ((a == A_USE || a == A_SINGLE) && nh && nh < MAXOPS + 3) {
            struct ubuf *src = h[vh_below(&c->rng, nh)];
            struct ubuf *d = a == A_USE ? ubuf_dup(src) : ubuf_block_splice(src, 2, 8);
            if (d) h[nh++] = d;
        } else if (a == A_RELEASE && nh) {
            int k = vh_below(&c->rng, nh);
            ubuf_free(h[k]);
            h[k] = h[--nh];
        } else if (nh) {
            /* read through a handle: the area must still be there and intact */
            struct ubuf *u = h[vh_below(&c->rng, nh)];
            size_t sz = 0;
            ubuf_block_size(u, &sz);
            uint8_t buf[32];
            if (sz > sizeof(buf) || !ubase_check(ubuf_block_extract(u, 0, -1, buf)))
                __atomic_fetch_add(&viol_content, 1, __ATOMIC_SEQ_CST);
            else for (size_t k = 0; k < sz; k++)
                if (buf[k] != (uint8_t)(0xA0 + k + (sz == 8 ? 2 : 0))) { __atomic_fetch_add(&viol_content, 1, __ATOMIC_SEQ_CST); break; }
            /* a write mapping may be granted only to a sole owner; never use it here */
        }
    }
    while (nh) { perturb(c); ubuf_free(h[--nh]); }
}

/* ---------- free-running thread launcher ---------- */
struct fr { sched_fn fn; void *arg; pthread_barrier_t *bar; };
static void *fr_main(void *p)
{
    struct fr *f = p;
    pthread_barrier_wait(f->bar);
    f->fn(f->arg);
    return NULL;
}

static void run_threads(int n, sched_fn fn, struct tctx *ctx, struct sched_result *res, enum sched_strategy st)
{
    sched_fn fns[MAXT]; void *args[MAXT];
    for (int t = 0; t < n; t++) { fns[t] = fn; args[t] = &ctx[t]; }
    if (!free_running) { sched_run(n, fns, args, R, st, res, NULL, 0); return; }
    memset(res, 0, sizeof(*res));
    pthread_t th[MAXT]; struct fr f[MAXT];
    pthread_barrier_t bar;
    pthread_barrier_init(&bar, NULL, n);
    for (int t = 0; t < n; t++) { f[t].fn = fn; f[t].arg = &ctx[t]; f[t].bar = &bar; pthread_create(&th[t], NULL, fr_main, &f[t]); }
    for (int t = 0; t < n; t++) pthread_join(th[t], NULL);
    pthread_barrier_destroy(&bar);
}

static void run_case(struct vh_rng *r)
{
    R = r;
    int nthr = 2 + vh_below(R, 2);
    enum sched_strategy st = (enum sched_strategy)vh_below(R, 3);
    struct tctx ctx[MAXT];
    uint64_t h = 0;
    for (int t = 0; t < nthr; t++) {
        ctx[t].idx = t;
        vh_rng_seed(&ctx[t].rng, vh_rand(R));
        plan_n[t] = 1 + vh_below(R, MAXOPS);
        for (int i = 0; i < plan_n[t]; i++) {
            int k = vh_below(R, 10);
            plan[t][i] = k < 3 ? A_USE : k < 7 ? A_RELEASE : k < 9 ? A_SINGLE : A_DEAD;
            h = vh_hash_mix(h, plan[t][i] + 5 * t);
        }
    }
    struct sched_result res;
    bool part2 = vh_chance(R, 1, 3);
    vh_tr("part=%d threads=%d strategy=%d", part2 ? 2 : 1, nthr, st);
    if (!part2) {
        /* initial references: 1..3, spread over the threads (every thread that
         * acts holds at least one: each release matches an acquisition made
         * while a reference was held) */
        the_obj = malloc(sizeof(*the_obj));
        the_obj->magic = 0x0B1EC7ED;
        urefcount_init(&the_obj->rc, obj_dtor);
        int total = 1;
        for (int t = 0; t < nthr; t++) tokens0[t] = 0;
        tokens0[0] = 1;
        for (int t = 1; t < nthr; t++) { tokens0[t] = 1; urefcount_use(&the_obj->rc); total++; }
        int extra = vh_below(R, 3);
        for (int k = 0; k < extra; k++) { tokens0[vh_below(R, nthr)]++; urefcount_use(&the_obj->rc); total++; }
        destructor_runs = 0; outstanding = total; viol_early = viol_single = viol_dead = 0;
        run_threads(nthr, rc_thread, ctx, &res, st);
        uint32_t runs = destructor_runs;
        if (runs != 1)
            vh_violation(runs == 0 ? "c09:destructor-never-ran" : "c09:destructor-ran-twice", "destructor ran %u times after all %d references were released", runs, total);
        if (viol_early)
            vh_violation("c09:destructor-while-referenced", "destructor entered while a reference was still outstanding");
        if (viol_single)
            vh_violation("c09:single-while-shared", "urefcount_single() true while more than one reference was outstanding");
        if (viol_dead)
            vh_violation("c09:dead-while-referenced", "urefcount_dead() true while the caller held a reference");
        VH_COUNT("refcount.programs");
    } else {
        struct cumem_stats *stt = cumem_stats(umem);
        uint64_t a0 = stt->allocs, f0 = stt->frees;
        int m = vh_below(R, 2);
        struct ubuf *root = ubuf_block_alloc(blk_mgr[m], 12);
        uint8_t *w; int ws = -1;
        ubuf_block_write(root, 0, &ws, &w);
        for (int k = 0; k < 12; k++) w[k] = 0xA0 + k;
        ubuf_block_unmap(root, 0);
        for (int t = 0; t < nthr; t++) {
            handles0_n[t] = 1 + vh_below(R, 2);
            for (int k = 0; k < handles0_n[t]; k++) handles0[t][k] = ubuf_dup(root);
        }
        if (vh_chance(R, 1, 2)) ubuf_free(root);
        else handles0[0][handles0_n[0]++] = root;   /* the original handle goes to thread 0 */
        viol_content = 0;
        run_threads(nthr, shared_thread, ctx, &res, st);
        /* sequential probe on the same manager: with pools, the shared-area
         * descriptors released by the threads are recycled here, so a counter
         * left wrong by a racy release shows as a sole owner refused, or a
         * write granted while a duplicate is alive */
        {
            struct ubuf *x = ubuf_block_alloc(blk_mgr[m], 12);
            uint8_t *pw; int pws = -1;
            if (!x || !ubase_check(ubuf_block_write(x, 0, &pws, &pw)))
                vh_violation("c09:shared-count-wrong-after-concurrent-release", "a freshly allocated buffer (recycled descriptor) is refused a write mapping: its owner count is not 1");
            ubuf_block_unmap(x, 0);
            struct ubuf *y = ubuf_dup(x);
            pws = -1;
            if (y && ubase_check(ubuf_block_write(x, 0, &pws, &pw))) {
                ubuf_block_unmap(x, 0);
                vh_violation("c09:shared-count-wrong-after-concurrent-release", "a write mapping was granted on a buffer that has a live duplicate: the owner count of the recycled descriptor is wrong");
            }
            ubuf_free(y);
            pws = -1;
            if (!ubase_check(ubuf_block_write(x, 0, &pws, &pw)))
                vh_violation("c09:shared-count-wrong-after-concurrent-release", "sole owner again after the duplicate was freed, but the write mapping is refused");
            ubuf_block_unmap(x, 0);
            ubuf_free(x);
            VH_COUNT("shared.recycling_probes");
        }
        if (vh_chance(R, 1, 3)) ubuf_mgr_vacuum(blk_mgr[m]);
        if (viol_content)
            vh_violation("c09:shared-area-content", "a live handle read wrong content / failed (area released early?)");
        if (stt->bad_free)
            vh_violation("c09:shared-area-freed-twice", "umem block freed twice or unknown (%lu)", (unsigned long)stt->bad_free);
        if (stt->allocs - a0 != stt->frees - f0)
            vh_violation("c09:shared-area-leaked", "%lu areas allocated, %lu returned", (unsigned long)(stt->allocs - a0), (unsigned long)(stt->frees - f0));
        VH_COUNT("shared.programs");
        h ^= 0x5555;
    }
    if (res.deadlock) vh_violation("c09:deadlock", "deadlock in a non-blocking program");
    VH_ADD("sched.decisions", res.decisions);
    VH_ADD("sched.switches", res.switches);
    if (free_running || res.switches > (uint32_t)nthr) vh_nontrivial(vh_hash_mix(h, res.hash));
    if (vh_want_sample()) {
        char b[400]; int o = 0;
        for (int t = 0; t < nthr; t++) { o += snprintf(b + o, sizeof(b) - o, "T%d[%d tok]:", t, tokens0[t]); for (int i = 0; i < plan_n[t]; i++) o += snprintf(b + o, sizeof(b) - o, "%c", "URSD"[plan[t][i]]); o += snprintf(b + o, sizeof(b) - o, " "); }
        vh_sample("part%d %s| %u decisions %u switches", part2 ? 2 : 1, b, res.decisions, res.switches);
    }
}

static void init(void)
{
    free_running = !strcmp(vh_opts.mode, "free");
    if (!free_running) sched_install();
    umem = cumem_mgr_alloc(8);
    blk_mgr[0] = ubuf_block_mem_mgr_alloc(0, 0, umem, -1, 0, -1, 0);
    blk_mgr[1] = ubuf_block_mem_mgr_alloc(2, 2, umem, -1, 0, -1, 0);
}

static void fini(void)
{
    ubuf_mgr_release(blk_mgr[0]);
    ubuf_mgr_release(blk_mgr[1]);
    umem_mgr_release(umem);
}

static const struct vh_lab lab = { "refcount", init, run_case, fini };
int main(int argc, char **argv) { return vh_main(argc, argv, &lab); }
