/* C07 — lock-free FIFO, LIFO and pool are linearizable.
 * Small client programs (2-3 threads, 1-4 operations each, capacity 1-3) run
 * under the serialising scheduler with a scheduling point before every atomic
 * operation and every plain ring-element access.  The recorded history
 * (call / return stamps, unique values) is checked against the sequential
 * specification by a Wing-Gong search. */
#include "vh.h"
#include "sched.h"

#include "upipe/ubase.h"
#include "upipe/uatomic.h"
#include "upipe/uring.h"
#include "upipe/ufifo.h"
#include "upipe/ulifo.h"
#include "upipe/urefcount.h"
#include "upipe/upool.h"

#include <stdlib.h>
#include <string.h>
#include <inttypes.h>

enum { K_FIFO, K_LIFO, K_POOL };
enum { O_PUSH, O_POP };

#define MAXT 3
#define MAXOPS 4
#define MAXCAP 3

struct op {
    int thread, kind;       /* O_PUSH / O_POP */
    uintptr_t val;          /* pushed value, or popped value (0 = NULL) */
    bool ok;                /* push result */
    uint64_t call, ret;
};

static struct vh_rng *R;
static int kind, cap, nthr;
static struct ufifo fifo;
static struct ulifo lifo;
static uint8_t extra[uring_sizeof(MAXCAP + 1) + 64];
static struct op ops[MAXT * MAXOPS];
static int nops;
static int plan[MAXT][MAXOPS], plan_n[MAXT];
static uintptr_t next_val;
static uintptr_t init_state[MAXCAP];
static int init_n;
static uintptr_t final_state[MAXCAP + 1];
static int final_n;
static uint64_t nodes;
static int strat_arg = -1;

/* ---------------- pool part ---------------- */
struct pobj { uint32_t magic; int id; int state; int holder; }; /* state: 0 free/parked, 1 held, 2 destroyed */
static struct upool pool;
static struct urefcount pool_rc;
static int pool_created, pool_destroyed;
static struct pobj *pobjs[256];

static void *pool_alloc_cb(struct upool *p)
{
    (void)p;
    struct pobj *o = malloc(sizeof(*o));
    o->magic = 0xB00B1E5; o->id = pool_created; o->state = 0; o->holder = -1;
    if (pool_created < 256) pobjs[pool_created] = o;
    pool_created++;
    return o;
}

static void pool_free_cb(struct upool *p, void *obj)
{
    (void)p;
    struct pobj *o = obj;
    if (o->magic != 0xB00B1E5 || o->state == 2)
        vh_violation_noabort("c07:pool:destroyed-twice", "object %d destroyed twice or corrupted", o->id);
    if (o->state == 1)
        vh_violation_noabort("c07:pool:destroyed-while-held", "object %d destroyed while held by thread %d", o->id, o->holder);
    o->state = 2;
    pool_destroyed++;
    free(o);
}

struct tctx { int idx; };

static void pool_thread(void *arg)
{
    struct tctx *c = arg;
    struct pobj *mine[MAXOPS];
    int nmine = 0;
    for (int i = 0; i < plan_n[c->idx]; i++) {
        if (plan[c->idx][i] == O_PUSH || nmine == 0) {   /* alloc */
            struct pobj *o = upool_alloc(&pool, struct pobj *);
            sched_tick();
            if (!o) { vh_violation_noabort("c07:pool:alloc-null", "upool_alloc returned NULL"); continue; }
            if (o->magic != 0xB00B1E5 || o->state != 0)
                vh_violation_noabort("c07:pool:two-holders", "object %d handed to thread %d while in state %d (holder %d)", o->id, c->idx, o->state, o->holder);
            o->state = 1; o->holder = c->idx;
            mine[nmine++] = o;
        } else {                                          /* free */
            struct pobj *o = mine[--nmine];
            o->state = 0; o->holder = -1;
            upool_free(&pool, o);
        }
    }
    while (nmine) { struct pobj *o = mine[--nmine]; o->state = 0; o->holder = -1; upool_free(&pool, o); }
}

/* ---------------- fifo / lifo part ---------------- */
static bool do_push(void *v)
{
    return kind == K_FIFO ? ufifo_push(&fifo, v) : ulifo_push(&lifo, v);
}
static void *do_pop(void)
{
    return kind == K_FIFO ? ufifo_pop(&fifo, void *) : ulifo_pop(&lifo, void *);
}

static void ring_thread(void *arg)
{
    struct tctx *c = arg;
    for (int i = 0; i < plan_n[c->idx]; i++) {
        struct op *o = &ops[c->idx * MAXOPS + i];
        o->thread = c->idx;
        o->kind = plan[c->idx][i];
        if (o->kind == O_PUSH) {
            o->val = 0x1000 + (uintptr_t)c->idx * 0x100 + i + 1 + (next_val << 16);
            o->call = sched_tick();
            o->ok = do_push((void *)o->val);
            o->ret = sched_tick();
        } else {
            o->call = sched_tick();
            o->val = (uintptr_t)do_pop();
            o->ret = sched_tick();
            o->ok = true;
        }
    }
}

/* ---- Wing-Gong search ---- */
static struct op *H[MAXT * MAXOPS];
static int hn;
#define MEMO 4096
static uint64_t memo_key[MEMO];
static uint32_t memo_stamp[MEMO], stamp;

static bool memo_seen(uint64_t key)
{
    uint32_t i = (uint32_t)(key * 0x9E3779B97F4A7C15ULL >> 52) & (MEMO - 1);
    for (int k = 0; k < 8; k++) {
        uint32_t j = (i + k) & (MEMO - 1);
        if (memo_stamp[j] != stamp) { memo_stamp[j] = stamp; memo_key[j] = key; return false; }
        if (memo_key[j] == key) return true;
    }
    return false; /* table full around here: just explore */
}

static bool overlap(struct op *a, struct op *b) { return a->call < b->ret && b->call < a->ret; }

static bool search(uint32_t mask, uintptr_t *st, int sn)
{
    if (++nodes > 2000000) return false;
    if (mask == (1u << hn) - 1) {
        if (sn != final_n) return false;
        /* drained order: FIFO pops from the head st[0]; LIFO pops from the top st[sn-1] */
        for (int i = 0; i < sn; i++) {
            uintptr_t want = kind == K_FIFO ? st[i] : st[sn - 1 - i];
            if (final_state[i] != want) return false;
        }
        return true;
    }
    uint64_t key = mask;
    for (int i = 0; i < sn; i++) key = key * 1000003ULL + st[i];
    key = key * 31 + sn;
    if (memo_seen(key)) return false;
    /* minimal operations: not linearized, no other unlinearized op returned before its call */
    for (int i = 0; i < hn; i++) {
        if (mask & (1u << i)) continue;
        struct op *o = H[i];
        bool minimal = true;
        for (int j = 0; j < hn; j++)
            if (j != i && !(mask & (1u << j)) && H[j]->ret < o->call) { minimal = false; break; }
        if (!minimal) continue;
        uintptr_t ns[MAXCAP + 1];
        int nn = sn;
        memcpy(ns, st, sizeof(uintptr_t) * sn);
        if (o->kind == O_PUSH) {
            if (o->ok) {
                if (sn >= cap) continue;
                ns[nn++] = o->val;
            } else {
                /* fails only when every slot is taken by a stored element or
                 * by an operation still in progress */
                int held = 0;
                for (int j = 0; j < hn; j++) {
                    if (j == i || !overlap(o, H[j])) continue;
                    if (H[j]->kind == O_PUSH && H[j]->ok && !(mask & (1u << j))) held++;
                    if (H[j]->kind == O_POP && H[j]->val && (mask & (1u << j))) held++;
                }
                if (sn + held < cap) continue;
            }
        } else {
            if (!o->val) { if (sn != 0) continue; }
            else {
                if (sn == 0) continue;
                if (kind == K_FIFO) {
                    if (st[0] != o->val) continue;
                    memmove(ns, ns + 1, sizeof(uintptr_t) * (sn - 1));
                } else if (st[sn - 1] != o->val) continue;
                nn = sn - 1;
            }
        }
        if (search(mask | (1u << i), ns, nn)) return true;
    }
    return false;
}

static void describe(char *buf, size_t n)
{
    int o = snprintf(buf, n, "%s cap=%d init=%d | ", kind == K_FIFO ? "fifo" : "lifo", cap, init_n);
    for (int i = 0; i < hn && o < (int)n - 60; i++) {
        struct op *p = H[i];
        if (p->kind == O_PUSH) o += snprintf(buf + o, n - o, "T%d push(%lx)=%d [%" PRIu64 ",%" PRIu64 "] ", p->thread, (unsigned long)p->val & 0xffff, p->ok, p->call, p->ret);
        else o += snprintf(buf + o, n - o, "T%d pop=%lx [%" PRIu64 ",%" PRIu64 "] ", p->thread, (unsigned long)p->val & 0xffff, p->call, p->ret);
    }
    o += snprintf(buf + o, n - o, "| drained:");
    for (int i = 0; i < final_n && o < (int)n - 12; i++) o += snprintf(buf + o, n - o, " %lx", (unsigned long)final_state[i] & 0xffff);
}

static void drain_spins(void)
{
    char b[900];
    hn = 0;
    for (int t = 0; t < nthr; t++) for (int i = 0; i < plan_n[t]; i++) H[hn++] = &ops[t * MAXOPS + i];
    final_n = 0;
    describe(b, sizeof(b));
    vh_violation(kind == K_FIFO ? "c07:fifo:corrupted-after-run" : kind == K_LIFO ? "c07:lifo:corrupted-after-run" : "c07:pool:corrupted-after-run",
                 "sequential operation after the concurrent phase does not terminate (structure corrupted): %s", b);
}

static void run_case(struct vh_rng *r)
{
    R = r;
    next_val++;
    sched_spin_guard(0, NULL);
    kind = vh_below(R, 5); if (kind > K_POOL) kind = kind == 3 ? K_FIFO : K_LIFO;
    cap = 1 + vh_below(R, MAXCAP);
    nthr = 2 + vh_below(R, 2);
    enum sched_strategy st = strat_arg >= 0 ? (enum sched_strategy)strat_arg : (enum sched_strategy)vh_below(R, 3);
    struct tctx ctx[MAXT];
    sched_fn fns[MAXT]; void *args[MAXT];
    for (int t = 0; t < nthr; t++) {
        ctx[t].idx = t; args[t] = &ctx[t];
        plan_n[t] = 1 + vh_below(R, MAXOPS);
        for (int i = 0; i < plan_n[t]; i++) plan[t][i] = vh_below(R, 2);
    }
    /* pre-roll: sequential cycles bringing the 8/16-bit element tags next to wrap-around */
    uint32_t preroll;
    int pc = vh_below(R, 16);
    if (pc < 4) preroll = 0;
    else if (pc < 8) preroll = vh_below(R, 8);
    else if (pc < 14) preroll = 100 + vh_below(R, 200);
    else if (pc < 15) preroll = 120 + vh_below(R, 16);
    else preroll = kind == K_FIFO ? 250 + vh_below(R, 12) : 32760 + vh_below(R, 12);
    vh_tr("kind=%d cap=%d threads=%d strategy=%d preroll=%u", kind, cap, nthr, st, preroll);
    struct sched_result res;
    uint64_t h;

    if (kind == K_POOL) {
        urefcount_init(&pool_rc, NULL);
        pool_created = pool_destroyed = 0;
        upool_init(&pool, &pool_rc, cap, extra, pool_alloc_cb, pool_free_cb);
        for (uint32_t i = 0; i < preroll % 600; i++) { void *o = upool_alloc(&pool, void *); upool_free(&pool, o); }
        for (int t = 0; t < nthr; t++) fns[t] = pool_thread;
        sched_run(nthr, fns, args, R, st, &res, NULL, 0);
        sched_spin_guard(100000, drain_spins);
        upool_clean(&pool);
        sched_spin_guard(0, NULL);
        if (pool_created != pool_destroyed)
            vh_violation("c07:pool:lost-object", "%d objects created, %d destroyed after vacuum", pool_created, pool_destroyed);
        if (!urefcount_single(&pool_rc))
            vh_violation("c07:pool:refcount", "pool refcount not back to 1");
        VH_COUNT("pool.programs");
        h = res.hash ^ 0x9999;
    } else {
        if (kind == K_FIFO) ufifo_init(&fifo, cap, extra); else ulifo_init(&lifo, cap, extra);
        for (uint32_t i = 0; i < preroll; i++) { do_push((void *)(uintptr_t)0x77); do_pop(); }
        init_n = vh_below(R, cap + 1);
        for (int i = 0; i < init_n; i++) {
            init_state[i] = 0x5000 + i + (next_val << 16);
            if (!do_push((void *)init_state[i]))
                vh_violation("c07:seq:push-failed", "sequential push %d/%d failed on capacity %d", i, init_n, cap);
        }
        memset(ops, 0, sizeof(ops));
        for (int t = 0; t < nthr; t++) fns[t] = ring_thread;
        sched_run(nthr, fns, args, R, st, &res, NULL, 0);
        /* drain sequentially */
        sched_spin_guard(100000, drain_spins);
        final_n = 0;
        for (;;) {
            void *v = do_pop();
            if (!v) break;
            if (final_n > cap) vh_violation("c07:more-than-capacity", "drained more than %d elements", cap);
            final_state[final_n++] = (uintptr_t)v;
        }
        sched_spin_guard(0, NULL);
        if (kind == K_FIFO) ufifo_clean(&fifo); else ulifo_clean(&lifo);
        hn = 0;
        for (int t = 0; t < nthr; t++) for (int i = 0; i < plan_n[t]; i++) H[hn++] = &ops[t * MAXOPS + i];
        /* direct checks: nothing invented, nothing duplicated */
        for (int i = 0; i < hn + final_n; i++) {
            uintptr_t v = i < hn ? (H[i]->kind == O_POP ? H[i]->val : 0) : final_state[i - hn];
            if (!v) continue;
            bool known = false;
            for (int k = 0; k < init_n; k++) if (init_state[k] == v) known = true;
            for (int k = 0; k < hn; k++) if (H[k]->kind == O_PUSH && H[k]->ok && H[k]->val == v) known = true;
            if (!known) { char b[900]; describe(b, sizeof(b)); vh_violation("c07:invented", "value %lx popped but never pushed: %s", (unsigned long)v & 0xffff, b); }
            for (int j = i + 1; j < hn + final_n; j++) {
                uintptr_t w = j < hn ? (H[j]->kind == O_POP ? H[j]->val : 0) : final_state[j - hn];
                if (w == v) { char b[900]; describe(b, sizeof(b)); vh_violation("c07:duplicated", "value %lx popped twice: %s", (unsigned long)v & 0xffff, b); }
            }
        }
        stamp++;
        nodes = 0;
        bool lin = search(0, init_state, init_n);
        if (!lin && nodes > 2000000) { VH_COUNT("checker.budget_exceeded"); }
        else if (!lin) {
            char b[900]; describe(b, sizeof(b));
            vh_violation(kind == K_FIFO ? "c07:fifo:not-linearizable" : "c07:lifo:not-linearizable", "%s", b);
        }
        VH_COUNT("ring.programs");
        int failed = 0, nulls = 0;
        for (int i = 0; i < hn; i++) { if (H[i]->kind == O_PUSH && !H[i]->ok) failed++; if (H[i]->kind == O_POP && !H[i]->val) nulls++; }
        if (failed) VH_COUNT("ring.with_failed_push");
        if (nulls) VH_COUNT("ring.with_null_pop");
        h = res.hash;
        for (int t = 0; t < nthr; t++) for (int i = 0; i < plan_n[t]; i++) h = vh_hash_mix(h, plan[t][i] + 3 * t);
        h = vh_hash_mix(h, kind * 16 + cap * 4 + init_n);
        if (vh_want_sample()) { char b[900]; describe(b, sizeof(b)); vh_sample("%s | %u decisions %u switches", b, res.decisions, res.switches); }
    }
    if (res.deadlock) vh_violation("c07:deadlock", "scheduler reported a deadlock in a non-blocking program");
    VH_ADD("sched.decisions", res.decisions);
    VH_ADD("sched.switches", res.switches);
    if (res.budget_exceeded) VH_COUNT("sched.budget_exceeded");
    static const char *site_names[] = { "atomic_store", "atomic_load", "atomic_cas", "atomic_fetch_add", "atomic_fetch_sub",
        "ring_tag_inc", "ring_tag_read", "ring_next_read", "ring_next_write", "ring_opaque_read", "ring_opaque_write", "eventfd_read", "eventfd_write" };
    for (int s = 0; s < 13; s++)
        if (res.site_switches[s]) { char nm[64]; snprintf(nm, sizeof(nm), "preempt_at.%s", site_names[s]); *vh_counter(nm) += res.site_switches[s]; }
    if (res.switches > (uint32_t)nthr) { VH_COUNT("sched.runs_with_preemption_inside_ops"); vh_nontrivial(h); }
}

static void init(void)
{
    sched_install();
    strat_arg = (int)vh_arg_int("strategy", -1);
}

static const struct vh_lab lab = { "lincheck", init, run_case, NULL };
int main(int argc, char **argv) { return vh_main(argc, argv, &lab); }
