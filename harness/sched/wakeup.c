/* C08 — event-driven waiting never loses a wake-up; the dealer grants
 * exclusively.  Producers / consumers / contenders are logical threads of the
 * serialising scheduler, each with its own mock event loop watching the REAL
 * event descriptors of uqueue / udeal: a thread whose loop has nothing ready
 * sleeps until poll() reports one of its descriptors readable, exactly what
 * libev would do.  Deadlock (= lost wake-up) is decided by the scheduler on
 * logical state: no thread runnable while work remains. */
#include "vh.h"
#include "sched.h"
#include "mockloop.h"

#include "upipe/ubase.h"
#include "upipe/uatomic.h"
#include "upipe/uqueue.h"
#include "upipe/udeal.h"
#include "upipe/upump.h"

#include <stdlib.h>
#include <string.h>

#define MAXT 5
#define MAXE 6

static struct vh_rng *R;

struct thr {
    int idx, role;                  /* 0 producer, 1 consumer, 2 contender */
    struct upump_mgr *mgr;
    struct upump *pump;
    struct vh_rng rng;
    /* producer */
    int k, next;
    uintptr_t elems[MAXE];
    /* consumer */
    bool eager;
    /* contender */
    int rounds, rounds_done;
    bool round_done, aborts;
};

static struct thr T[MAXT];
static int nthr;
static struct uqueue queue;
static uint8_t qextra[uqueue_sizeof(4) + 64];
static unsigned qlen;
static int total, consumed;
static uintptr_t got[MAXT * MAXE];
static int got_by[MAXT * MAXE];
static int viol_length, viol_cs;
static struct udeal deal;
static int in_cs, grants;

static bool all_consumed(void) { return consumed >= total; }

static bool loop_pred(void *arg)
{
    struct thr *t = arg;
    if (t->role == 0 && t->next >= t->k) return true;
    if (t->role == 1 && all_consumed()) return true;
    if (t->role == 2 && t->round_done) return true;
    return mockloop_has_ready(t->mgr);
}

/* runs the thread's loop until cond; false if the run is aborted */
static bool run_loop(struct thr *t)
{
    for (;;) {
        if (t->role == 0 && t->next >= t->k) return true;
        if (t->role == 1 && all_consumed()) return true;
        if (t->role == 2 && t->round_done) return true;
        if (mockloop_has_ready(t->mgr)) { mockloop_step(t->mgr, &t->rng); continue; }
        if (!sched_block(loop_pred, t)) return false;
    }
}

static int diag_underflow, diag_over, pushed_ret, nconsumers;
static void check_length(void)
{
    /* the accessor reads the wake-up counter, which is updated after the
     * FIFO operation: transient values (length+1, 2^32-1) are diagnostics */
    unsigned l = uqueue_length(&queue);
    if (l >= 0x80000000u) diag_underflow++;
    else if (l > qlen) diag_over++;
    /* sound occupancy bound from the client boundary: elements whose push
     * returned minus elements whose pop returned <= length + pops in flight */
    if (pushed_ret - consumed > (int)qlen + nconsumers) viol_length++;
}

/* ---- producer (mirrors upipe_qsink: push directly, on failure hold and
 * watch event_push) ---- */
static void producer_cb(struct upump *pump)
{
    struct thr *t = pump->opaque;
    while (t->next < t->k && uqueue_push(&queue, (void *)t->elems[t->next])) { t->next++; pushed_ret++; }
    if (t->next >= t->k) upump_stop(pump);
    check_length();
}

static void producer(void *arg)
{
    struct thr *t = arg;
    t->pump = uqueue_upump_alloc_push(&queue, t->mgr, producer_cb, t, NULL);
    while (t->next < t->k && uqueue_push(&queue, (void *)t->elems[t->next])) { t->next++; pushed_ret++; check_length(); }
    if (t->next < t->k) {
        upump_start(t->pump);
        run_loop(t);
    }
    upump_stop(t->pump);
    upump_free(t->pump);
}

/* ---- consumer (mirrors upipe_qsrc: one pop per callback; or eager) ---- */
static void consumer_take(struct thr *t, void *e)
{
    if (consumed < MAXT * MAXE) { got[consumed] = (uintptr_t)e; got_by[consumed] = t->idx; }
    consumed++;
}

static void consumer_cb(struct upump *pump)
{
    struct thr *t = pump->opaque;
    void *e;
    if (t->eager) {
        while ((e = uqueue_pop(&queue, void *)) != NULL) consumer_take(t, e);
    } else if ((e = uqueue_pop(&queue, void *)) != NULL)
        consumer_take(t, e);
    check_length();
}

static void consumer(void *arg)
{
    struct thr *t = arg;
    t->pump = uqueue_upump_alloc_pop(&queue, t->mgr, consumer_cb, t, NULL);
    upump_start(t->pump);
    run_loop(t);
    upump_stop(t->pump);
    upump_free(t->pump);
}

/* ---- dealer contender ---- */
static void contender_cb(struct upump *pump)
{
    struct thr *t = pump->opaque;
    if (!udeal_grab(&deal)) return;
    in_cs++;
    if (in_cs != 1) viol_cs++;
    grants++;
    sched_point(-1);
    if (vh_chance(&t->rng, 1, 2)) sched_point(-1);
    if (in_cs != 1) viol_cs++;
    in_cs--;
    udeal_yield(&deal, pump);
    t->round_done = true;
}

static void contender(void *arg)
{
    struct thr *t = arg;
    t->pump = udeal_upump_alloc(&deal, t->mgr, contender_cb, t, NULL);
    for (int r = 0; r < t->rounds; r++) {
        t->round_done = false;
        udeal_start(&deal, t->pump);
        if (!t->round_done && t->aborts && vh_chance(&t->rng, 1, 3)) {
            /* gives up before its watcher had a chance to run */
            udeal_abort(&deal, t->pump);
            t->round_done = true;
        }
        if (!run_loop(t)) break;
        t->rounds_done++;
    }
    upump_free(t->pump);
}

static void run_case(struct vh_rng *r)
{
    R = r;
    bool dealer = vh_chance(R, 1, 3);
    enum sched_strategy st = (enum sched_strategy)vh_below(R, 3);
    sched_fn fns[MAXT]; void *args[MAXT];
    struct sched_result res;
    uint64_t h = 0;
    memset(T, 0, sizeof(T));
    if (!dealer) {
        int np = 1 + vh_below(R, 3), nc = 1 + (vh_arg_int("consumers", 1) > 1 ? (int)vh_below(R, 2) : 0);
        qlen = 1 + vh_below(R, 3);
        nthr = np + nc;
        total = 0; consumed = 0; viol_length = 0; diag_underflow = diag_over = 0; pushed_ret = 0; nconsumers = nc;
        if (!uqueue_init(&queue, qlen, qextra)) vh_violation("c08:init", "uqueue_init failed");
        for (int i = 0; i < nthr; i++) {
            struct thr *t = &T[i];
            t->idx = i; t->role = i < np ? 0 : 1;
            t->mgr = mockloop_mgr_alloc(0, 0);
            vh_rng_seed(&t->rng, vh_rand(R));
            if (t->role == 0) {
                t->k = 2 + vh_below(R, MAXE - 1);
                for (int e = 0; e < t->k; e++) t->elems[e] = 0x100 * (i + 1) + e + 1;
                total += t->k;
                h = vh_hash_mix(h, t->k);
            } else t->eager = vh_chance(R, 1, 2);
            fns[i] = t->role == 0 ? producer : consumer;
            args[i] = t;
        }
        vh_tr("queue len=%u producers=%d consumers=%d total=%d strategy=%d", qlen, np, nc, total, st);
        sched_run(nthr, fns, args, R, st, &res, NULL, 0);
        if (res.deadlock) {
            char b[300]; int o = 0;
            for (int i = 0; i < nthr; i++) o += snprintf(b + o, sizeof(b) - o, "T%d(%s %d/%d) ", i, T[i].role ? "cons" : "prod", T[i].role ? consumed : T[i].next, T[i].role ? total : T[i].k);
            /* who sleeps although it could make progress? */
            bool prod_asleep = false, cons_asleep = consumed < total;
            for (int i = 0; i < nthr; i++) if (T[i].role == 0 && T[i].next < T[i].k) prod_asleep = true;
            unsigned held = uqueue_length(&queue);
            char key[96];
            snprintf(key, sizeof(key), "c08:lost-wakeup:queue:%s-producer:%s", np > 1 ? "multi" : "single",
                     prod_asleep && held < qlen ? "producer-asleep-queue-not-full" : cons_asleep && held > 0 ? "consumer-asleep-queue-not-empty" : "other");
            vh_violation_noabort(key, "all threads asleep on their event descriptors with work remaining: queue length %u holds %u, %s", qlen, uqueue_length(&queue), b);
        } else {
            if (consumed != total)
                vh_violation_noabort("c08:queue:count", "%d elements consumed, %d produced", consumed, total);
            /* exactly once, producer order */
            int last[MAXT]; memset(last, 0, sizeof(last));
            for (int i = 0; i < consumed && i < MAXT * MAXE; i++) {
                int p = (int)(got[i] >> 8) - 1, seq = (int)(got[i] & 0xff);
                if (p < 0 || p >= nthr || T[p].role != 0 || seq < 1 || seq > T[p].k)
                    vh_violation_noabort("c08:queue:invented", "element %lx never produced", (unsigned long)got[i]);
                else if (nc == 1 && seq != last[p] + 1)
                    vh_violation_noabort("c08:queue:order", "producer %d element %d received after %d", p, seq, last[p]);
                if (p >= 0 && p < nthr) last[p] = seq;
            }
        }
        if (viol_length)
            vh_violation_noabort("c08:queue:overfull", "more than length %u (+ pops in flight) elements pushed and not yet popped", qlen);
        if (diag_underflow) { VH_COUNT("queue.diag.length_accessor_underflow"); vh_diag("c08:diag:uqueue_length-underflow", "uqueue_length() transiently reported >= 2^31 (a pop's decrement overtook the matching push's increment)"); }
        if (diag_over) { VH_COUNT("queue.diag.length_accessor_over"); vh_diag("c08:diag:uqueue_length-over", "uqueue_length() transiently reported length+1 (a push's increment overtook the decrement of the pop that made room)"); }
        if (!res.deadlock && uqueue_length(&queue) != 0)
            vh_violation_noabort("c08:queue:length-at-rest", "uqueue_length() = %u after everything was consumed", uqueue_length(&queue));
        /* drain leftovers of an aborted run, then clean */
        while (uqueue_pop(&queue, void *)) {}
        uqueue_clean(&queue);
        VH_COUNT("queue.programs");
        if (res.blocked_waits) VH_COUNT("queue.programs_with_sleep");
        VH_ADD("queue.sleeps", res.blocked_waits);
    } else {
        nthr = 2 + vh_below(R, 2);
        in_cs = grants = viol_cs = 0;
        if (!udeal_init(&deal)) vh_violation("c08:init", "udeal_init failed");
        int expected_rounds = 0;
        for (int i = 0; i < nthr; i++) {
            struct thr *t = &T[i];
            t->idx = i; t->role = 2;
            t->mgr = mockloop_mgr_alloc(0, 0);
            vh_rng_seed(&t->rng, vh_rand(R));
            t->rounds = 1 + vh_below(R, 3);
            t->aborts = vh_chance(R, 1, 4);
            expected_rounds += t->rounds;
            h = vh_hash_mix(h, t->rounds * 2 + t->aborts);
            fns[i] = contender; args[i] = t;
        }
        vh_tr("dealer contenders=%d strategy=%d", nthr, st);
        sched_run(nthr, fns, args, R, st, &res, NULL, 0);
        if (res.deadlock) {
            char b[300]; int o = 0;
            for (int i = 0; i < nthr; i++) o += snprintf(b + o, sizeof(b) - o, "T%d(%d/%d rounds%s) ", i, T[i].rounds_done, T[i].rounds, T[i].aborts ? ",aborts" : "");
            vh_violation_noabort("c08:lost-wakeup:dealer", "all contenders asleep although nobody holds the resource: %s", b);
        }
        if (viol_cs)
            vh_violation_noabort("c08:dealer:two-holders", "two contenders inside the critical section");
        udeal_clean(&deal);
        VH_COUNT("dealer.programs");
        VH_ADD("dealer.grants", grants);
        if (res.blocked_waits) VH_COUNT("dealer.programs_with_sleep");
        h ^= 0x77;
    }
    for (int i = 0; i < nthr; i++) upump_mgr_release(T[i].mgr);
    VH_ADD("sched.decisions", res.decisions);
    VH_ADD("sched.switches", res.switches);
    if (res.site_switches[11]) VH_ADD("preempt_at.eventfd_read", res.site_switches[11]);
    if (res.site_switches[12]) VH_ADD("preempt_at.eventfd_write", res.site_switches[12]);
    if (res.switches > (uint32_t)nthr) vh_nontrivial(vh_hash_mix(h, res.hash));
    if (vh_want_sample()) vh_sample("%s | %u decisions %u switches %u sleeps", vh_trace, res.decisions, res.switches, res.blocked_waits);
}

static void init(void) { sched_install(); }

static const struct vh_lab lab = { "wakeup", init, run_case, NULL };
int main(int argc, char **argv) { return vh_main(argc, argv, &lab); }
