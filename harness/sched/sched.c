#include "sched.h"

#include "upipe/ubase.h"
#include "upipe/uverif.h"

#include <pthread.h>
#include <semaphore.h>
#include <stdlib.h>
#include <string.h>
#include <stdio.h>
#include <unistd.h>

enum { ST_RUNNABLE, ST_BLOCKED, ST_DONE };

struct lthread {
    pthread_t th;
    sem_t sem;
    int state;
    sched_pred pred;
    void *parg;
    sched_fn fn;
    void *arg;
    int prio;
};

static struct lthread T[SCHED_MAX_THREADS];
static int nthreads;
static volatile int current = -1;
static __thread int self_idx = -1;
static sem_t main_sem;
static volatile bool active, aborted;
static struct vh_rng *rng;
static enum sched_strategy strategy;
static struct sched_result *res;
static uint8_t decisions[SCHED_MAX_DECISIONS];
static uint32_t ndecisions_total;
static const uint8_t *replay;
static uint32_t replay_len;
static uint64_t lclock;
static const void *last_addr;
static uint32_t pct_change[8];
static int pct_nchange;
static int pct_low;

int sched_self(void) { return self_idx; }
uint64_t sched_now(void) { return lclock; }
uint64_t sched_tick(void) { return ++lclock; }
bool sched_aborting(void) { return aborted; }
const uint8_t *sched_decisions(uint32_t *len_p)
{
    *len_p = ndecisions_total < SCHED_MAX_DECISIONS ? ndecisions_total : SCHED_MAX_DECISIONS;
    return decisions;
}

/* returns the next thread to run, -1 when all are done */
static int choose_next(int site)
{
    int runnable[SCHED_MAX_THREADS], nr = 0, undone = 0;
    for (int i = 0; i < nthreads; i++) {
        if (T[i].state == ST_BLOCKED && (aborted || T[i].pred(T[i].parg)))
            T[i].state = ST_RUNNABLE;
        if (T[i].state == ST_RUNNABLE) runnable[nr++] = i;
        if (T[i].state != ST_DONE) undone++;
    }
    if (!undone) return -1;
    if (!nr) {
        /* deadlock: every unfinished thread waits for something that cannot
         * happen any more; let them unwind */
        res->deadlock = true;
        if (vh_opts.verbose > 2) { fprintf(stderr, "sched: DEADLOCK at step %u:", ndecisions_total); for (int i = 0; i < nthreads; i++) fprintf(stderr, " T%d=%d", i, T[i].state); fprintf(stderr, "\n"); }
        aborted = true;
        for (int i = 0; i < nthreads; i++)
            if (T[i].state == ST_BLOCKED) { T[i].state = ST_RUNNABLE; runnable[nr++] = i; }
    }
    int pick = -1;
    uint32_t step = ndecisions_total;
    if (replay && step < replay_len) {
        for (int k = 0; k < nr; k++) if (runnable[k] == replay[step]) pick = replay[step];
    }
    bool cur_runnable = false;
    for (int k = 0; k < nr; k++) if (runnable[k] == current) cur_runnable = true;
    enum sched_strategy st = strategy;
    if (step > SCHED_MAX_DECISIONS / 2) { st = SCHED_UNIFORM; res->budget_exceeded = true; }
    if (pick < 0) switch (st) {
        case SCHED_UNIFORM:
            pick = runnable[vh_below(rng, nr)];
            break;
        case SCHED_LOWPREEMPT:
            if (cur_runnable && !vh_chance(rng, 1, 8)) pick = current;
            else pick = runnable[vh_below(rng, nr)];
            break;
        case SCHED_PCT: {
            for (int c = 0; c < pct_nchange; c++)
                if (pct_change[c] == step && current >= 0)
                    T[current].prio = pct_low--;
            int best = runnable[0];
            for (int k = 1; k < nr; k++) if (T[runnable[k]].prio > T[best].prio) best = runnable[k];
            pick = best;
            break;
        }
        default:
            pick = cur_runnable ? current : runnable[0];
            break;
    }
    if (step < SCHED_MAX_DECISIONS) decisions[step] = (uint8_t)pick;
    if (vh_opts.verbose > 2) fprintf(stderr, "sched: step %u site %d addr %p cur T%d -> T%d\n", step, site, last_addr, current, pick);
    ndecisions_total++;
    res->decisions++;
    res->hash = (res->hash ^ (uint64_t)(pick + 1)) * 0x100000001b3ULL;
    if (pick != current) {
        res->switches++;
        if (site >= 0 && site < 32 && cur_runnable) res->site_switches[site]++;
    }
    lclock++;
    if (ndecisions_total > SCHED_MAX_DECISIONS * 8) {
        vh_violation_noabort("sched:nonterm", "more than %u scheduling points in one run", SCHED_MAX_DECISIONS * 8);
        abort();
    }
    return pick;
}

static void switch_to(int next)
{
    int me = self_idx;
    if (next == me) { current = me; return; }
    current = next;
    sem_post(&T[next].sem);
    while (sem_wait(&T[me].sem) == -1) {}
}

void sched_point(int site)
{
    if (self_idx < 0 || !active) return;
    int next = choose_next(site);
    switch_to(next);
}

static uint64_t unscheduled_calls, unscheduled_limit;
static void (*spin_cb)(void);

void sched_spin_guard(uint64_t limit, void (*cb)(void))
{
    unscheduled_calls = 0;
    unscheduled_limit = limit;
    spin_cb = cb;
}

static void hook(int site, const void *addr)
{
    last_addr = addr;
    if (self_idx < 0) {
        /* sequential phase of the harness: bound the number of atomic
         * operations so that a corrupted structure is a verdict, not a hang */
        if (unscheduled_limit && ++unscheduled_calls > unscheduled_limit && spin_cb) {
            unscheduled_limit = 0;
            spin_cb();
        }
        return;
    }
    sched_point(site);
}

bool sched_block(sched_pred pred, void *arg)
{
    if (self_idx < 0 || !active) return true;
    if (aborted) return false;
    int me = self_idx;
    T[me].state = ST_BLOCKED;
    T[me].pred = pred;
    T[me].parg = arg;
    res->blocked_waits++;
    int next = choose_next(-1);
    if (next == me) { current = me; return !aborted; }
    current = next;
    sem_post(&T[next].sem);
    while (sem_wait(&T[me].sem) == -1) {}
    return !aborted;
}

static void *thread_main(void *p)
{
    int idx = (int)(intptr_t)p;
    self_idx = idx;
    while (sem_wait(&T[idx].sem) == -1) {}
    T[idx].fn(T[idx].arg);
    T[idx].state = ST_DONE;
    int next = choose_next(-1);
    if (next < 0) { current = -1; sem_post(&main_sem); }
    else { current = next; sem_post(&T[next].sem); }
    self_idx = -1;
    return NULL;
}

void sched_install(void)
{
    uverif_yield_hook = hook;
    sem_init(&main_sem, 0, 0);
}

void sched_run(int n, sched_fn fns[], void *args[], struct vh_rng *r,
               enum sched_strategy st, struct sched_result *result,
               const uint8_t *rp, uint32_t rp_len)
{
    memset(result, 0, sizeof(*result));
    result->hash = 0xcbf29ce484222325ULL;
    res = result;
    rng = r;
    strategy = st;
    replay = rp; replay_len = rp_len;
    nthreads = n;
    aborted = false;
    ndecisions_total = 0;
    current = -1;
    pct_low = -1;
    /* PCT: distinct random priorities, a few change points */
    int perm[SCHED_MAX_THREADS];
    for (int i = 0; i < n; i++) perm[i] = i;
    for (int i = n - 1; i > 0; i--) { int j = vh_below(r, i + 1); int t = perm[i]; perm[i] = perm[j]; perm[j] = t; }
    pct_nchange = st == SCHED_PCT ? 1 + (int)vh_below(r, 4) : 0;
    for (int c = 0; c < pct_nchange; c++) pct_change[c] = vh_below(r, 120);
    pthread_attr_t attr;
    pthread_attr_init(&attr);
    pthread_attr_setstacksize(&attr, 256 * 1024);
    for (int i = 0; i < n; i++) {
        sem_init(&T[i].sem, 0, 0);
        T[i].state = ST_RUNNABLE;
        T[i].fn = fns[i];
        T[i].arg = args[i];
        T[i].prio = perm[i] + 1;
        pthread_create(&T[i].th, &attr, thread_main, (void *)(intptr_t)i);
    }
    pthread_attr_destroy(&attr);
    active = true;
    /* first decision made on behalf of nobody */
    int first = choose_next(-1);
    current = first;
    sem_post(&T[first].sem);
    while (sem_wait(&main_sem) == -1) {}
    active = false;
    for (int i = 0; i < n; i++) {
        pthread_join(T[i].th, NULL);
        sem_destroy(&T[i].sem);
    }
}
