/* C06 (worker part) — a pipe transferred to a worker thread is only entered
 * from that thread; buffers cross a linear worker exactly once and in order;
 * events forwarded to the application are delivered in the application's
 * thread.  Application thread A and worker thread W are logical threads of the
 * serialising scheduler with mock loops (mode "serial") or real threads with
 * libev loops under ThreadSanitizer (mode "free"). */
#include "vh.h"
#include "sched.h"
#include "mockloop.h"

#include "upipe/ubase.h"
#include "upipe/uverif.h"
#include "upipe/umem.h"
#include "upipe/umem_alloc.h"
#include "upipe/udict_inline.h"
#include "upipe/uref.h"
#include "upipe/uref_std.h"
#include "upipe/uref_flow.h"
#include "upipe/uref_attr.h"
#include "upipe/uprobe.h"
#include "upipe/uprobe_transfer.h"
#include "upipe/uprobe_uref_mgr.h"
#include "upipe/upipe.h"
#include "upipe/upump.h"
#include "upipe/umutex.h"
#include "upipe/upipe_helper_upipe.h"
#include "upipe/upipe_helper_urefcount.h"
#include "upipe/upipe_helper_void.h"
#include "upipe-modules/upipe_transfer.h"
#include "upipe-modules/upipe_worker_linear.h"
#include "upipe-modules/upipe_worker_sink.h"
#include "upipe-modules/upipe_worker_source.h"
#include "upipe-pthread/uprobe_pthread_upump_mgr.h"
#include "upump-ev/upump_ev.h"

#include <ev.h>
#include <pthread.h>
#include <sched.h>
#include <stdlib.h>
#include <string.h>
#include <time.h>
#include <inttypes.h>

static bool free_running;
static struct vh_rng *R;
static __thread int my_thr = -1;        /* 0 application, 1 worker */
static __thread struct vh_rng *perturb_rng;

static void perturb_hook(int site, const void *addr)
{
    (void)site; (void)addr;
    if (!perturb_rng) return;
    uint32_t k = vh_below(perturb_rng, 16);
    if (k < 9) return;
    if (k < 13) sched_yield();
    else if (k < 15) { for (volatile int i = 0; i < (int)vh_below(perturb_rng, 3000); i++) {} }
    else { struct timespec ts = { 0, (long)vh_below(perturb_rng, 120000) }; nanosleep(&ts, NULL); }
}

static struct umem_mgr *umem_mgr;
static struct udict_mgr *udict_mgr;
static struct uref_mgr *uref_mgr;

/* ---- per-thread logs ---- */
enum { W_REMOTE_ENTRY = 1, W_SINK_INPUT, W_SINK_FLOWDEF, W_MAIN_EVENT, W_REMOTE_EVENT, W_REMOTE_INPUT, W_REMOTE_FLOWDEF };
struct wev { int kind, thread, a; uint64_t b; };
#define MAXLOG 2048
static struct { struct wev e[MAXLOG]; int n; } logs[2];
static void wlog(int kind, int a, uint64_t b)
{
    int t = my_thr == 1 ? 1 : 0;
    if (logs[t].n < MAXLOG) { struct wev *e = &logs[t].e[logs[t].n++]; e->kind = kind; e->thread = my_thr; e->a = a; e->b = b; }
}

/* ---- remote pipe (linear): records the thread of every entry ---- */
#define REMOTE_SIGNATURE UBASE_FOURCC('r','m','o','t')
struct remote { struct urefcount urefcount; struct upipe *output; bool transferred; int inputs; struct upipe upipe; };
UPIPE_HELPER_UPIPE(remote, upipe, REMOTE_SIGNATURE)
enum { RE_ALLOC, RE_ATTACH, RE_INPUT, RE_SET_FLOW_DEF, RE_SET_OUTPUT, RE_GET_OUTPUT, RE_OTHER, RE_FREE };
static bool frozen_window;      /* the application froze the worker loop and is allowed in */

/* ---- the mutex of the transfer manager: held by the worker while it runs
 * callbacks, taken by the application to freeze the worker's loop.  Owner
 * tracking tells whether an entry into the remote pipe from the application
 * thread happens inside a frozen window. ---- */
static struct xmutex { struct umutex umutex; struct urefcount rc; pthread_mutex_t m; int owner; int depth; } xm;
#define XM_OWNER() __atomic_load_n(&xm.owner, __ATOMIC_SEQ_CST)
#define XM_SET_OWNER(v) __atomic_store_n(&xm.owner, (v), __ATOMIC_SEQ_CST)
static bool xm_free(void *arg) { (void)arg; return XM_OWNER() == -1; }
static int xm_lock(struct umutex *u)
{
    (void)u;
    if (XM_OWNER() == my_thr) { xm.depth++; return UBASE_ERR_NONE; }
    if (free_running) pthread_mutex_lock(&xm.m);
    else while (XM_OWNER() != -1) if (!sched_block(xm_free, NULL)) return UBASE_ERR_BUSY;
    xm.depth = 1; XM_SET_OWNER(my_thr);
    return UBASE_ERR_NONE;
}
static int xm_unlock(struct umutex *u)
{
    (void)u;
    if (XM_OWNER() != my_thr) return UBASE_ERR_INVALID;
    if (--xm.depth) return UBASE_ERR_NONE;
    XM_SET_OWNER(-1);
    if (free_running) pthread_mutex_unlock(&xm.m);
    return UBASE_ERR_NONE;
}
static void xm_dead(struct urefcount *rc) { (void)rc; }
static bool use_mutex;
static bool last_alloc_got_mgr;  /* the last remote pipe allocated obtained a upump manager at allocation */

static void remote_free(struct urefcount *urefcount)
{
    struct remote *r = container_of(urefcount, struct remote, urefcount);
    wlog(W_REMOTE_ENTRY, RE_FREE, r->transferred);
    upipe_throw_dead(&r->upipe);
    upipe_release(r->output);
    urefcount_clean(&r->urefcount);
    upipe_clean(&r->upipe);
    free(r);
}
static struct upipe *remote_alloc(struct upipe_mgr *mgr, struct uprobe *uprobe, uint32_t signature, va_list args)
{
    (void)signature; (void)args;
    struct remote *r = calloc(1, sizeof(*r));
    upipe_init(&r->upipe, mgr, uprobe);
    urefcount_init(&r->urefcount, remote_free);
    r->upipe.refcount = &r->urefcount;
    wlog(W_REMOTE_ENTRY, RE_ALLOC, 0);
    upipe_throw_ready(&r->upipe);
    /* like most pipes, ask for an event loop manager at once: inside a frozen
     * section (the pipe is meant for another thread) this must be refused */
    struct upump_mgr *m = NULL;
    upipe_throw_need_upump_mgr(&r->upipe, &m);
    last_alloc_got_mgr = m != NULL;
    upump_mgr_release(m);
    return &r->upipe;
}
static void remote_input(struct upipe *upipe, struct uref *uref, struct upump **upump_p)
{
    struct remote *r = remote_from_upipe(upipe);
    wlog(W_REMOTE_ENTRY, RE_INPUT, r->transferred);
    { uint64_t seq = UINT64_MAX; uref_attr_get_unsigned(uref, &seq, UDICT_TYPE_UNSIGNED, "x.seq"); wlog(W_REMOTE_INPUT, 0, seq); }
    r->inputs++;
    if (r->output) upipe_input(r->output, uref, upump_p); else uref_free(uref);
}
static int remote_control(struct upipe *upipe, int command, va_list args)
{
    struct remote *r = remote_from_upipe(upipe);
    switch (command) {
        case UPIPE_ATTACH_UPUMP_MGR: r->transferred = true; wlog(W_REMOTE_ENTRY, RE_ATTACH, 1); return UBASE_ERR_NONE;
        case UPIPE_SET_FLOW_DEF: {
            wlog(W_REMOTE_ENTRY, RE_SET_FLOW_DEF, r->transferred);
            wlog(W_REMOTE_FLOWDEF, 0, 0);
            struct uref *fd = va_arg(args, struct uref *);
            return r->output ? upipe_set_flow_def(r->output, fd) : UBASE_ERR_NONE;
        }
        case UPIPE_SET_OUTPUT: {
            wlog(W_REMOTE_ENTRY, RE_SET_OUTPUT, r->transferred);
            struct upipe *o = va_arg(args, struct upipe *);
            upipe_release(r->output);
            r->output = upipe_use(o);
            return UBASE_ERR_NONE;
        }
        case UPIPE_GET_OUTPUT: wlog(W_REMOTE_ENTRY, RE_GET_OUTPUT, r->transferred); *va_arg(args, struct upipe **) = r->output; return UBASE_ERR_NONE;
        case UPIPE_REGISTER_REQUEST: wlog(W_REMOTE_ENTRY, RE_OTHER, r->transferred); return r->output ? upipe_register_request(r->output, va_arg(args, struct urequest *)) : upipe_throw_provide_request(upipe, va_arg(args, struct urequest *));
        case UPIPE_UNREGISTER_REQUEST: wlog(W_REMOTE_ENTRY, RE_OTHER, r->transferred); return r->output ? upipe_unregister_request(r->output, va_arg(args, struct urequest *)) : UBASE_ERR_NONE;
        default: wlog(W_REMOTE_ENTRY, RE_OTHER, (uint64_t)r->transferred | (use_mutex && XM_OWNER() == 0 ? 2 : 0)); VH_COUNT("c06.remote_controls"); return UBASE_ERR_UNHANDLED;
    }
}
static struct upipe_mgr remote_mgr = { .refcount = NULL, .signature = REMOTE_SIGNATURE, .upipe_alloc = remote_alloc, .upipe_input = remote_input, .upipe_control = remote_control };

/* ---- recording sink in the application thread ---- */
#define ASINK_SIGNATURE UBASE_FOURCC('a','s','n','k')
struct asink { struct urefcount urefcount; struct upipe upipe; };
UPIPE_HELPER_UPIPE(asink, upipe, ASINK_SIGNATURE)
UPIPE_HELPER_UREFCOUNT(asink, urefcount, asink_free)
UPIPE_HELPER_VOID(asink)
static struct upipe *asink_alloc(struct upipe_mgr *mgr, struct uprobe *uprobe, uint32_t signature, va_list args)
{
    struct upipe *upipe = asink_alloc_void(mgr, uprobe, signature, args);
    asink_init_urefcount(upipe);
    upipe_throw_ready(upipe);
    return upipe;
}
static void asink_input(struct upipe *upipe, struct uref *uref, struct upump **upump_p)
{
    (void)upipe; (void)upump_p;
    uint64_t seq = UINT64_MAX;
    uref_attr_get_unsigned(uref, &seq, UDICT_TYPE_UNSIGNED, "x.seq");
    wlog(W_SINK_INPUT, 0, seq);
    uref_free(uref);
}
static int asink_control(struct upipe *upipe, int command, va_list args)
{
    if (command == UPIPE_SET_FLOW_DEF) { wlog(W_SINK_FLOWDEF, 0, 0); return UBASE_ERR_NONE; }
    if (command == UPIPE_REGISTER_REQUEST) return upipe_throw_provide_request(upipe, va_arg(args, struct urequest *));
    if (command == UPIPE_UNREGISTER_REQUEST) return UBASE_ERR_NONE;
    return UBASE_ERR_UNHANDLED;
}
static void asink_free(struct upipe *upipe) { upipe_throw_dead(upipe); asink_clean_urefcount(upipe); asink_free_void(upipe); }
static struct upipe_mgr asink_mgr = { .refcount = NULL, .signature = ASINK_SIGNATURE, .upipe_alloc = asink_alloc, .upipe_input = asink_input, .upipe_control = asink_control };

/* ---- probes ---- */
static int handle_dead, main_source_end;
static struct ev_loop *app_evloop;
static int main_throw(struct uprobe *uprobe, struct upipe *upipe, int event, va_list args)
{
    if (event != UPROBE_LOG) wlog(W_MAIN_EVENT, 0, event);
    if (event == UPROBE_DEAD) { handle_dead++; }
    if (event == UPROBE_SOURCE_END) main_source_end++;
    return uprobe_throw_next(uprobe, upipe, event, args);
}
static int remote_throw(struct uprobe *uprobe, struct upipe *upipe, int event, va_list args)
{
    if (event != UPROBE_LOG) wlog(W_REMOTE_EVENT, 0, event);
    return uprobe_throw_next(uprobe, upipe, event, args);
}

/* ---- the two threads ---- */
static struct upump_mgr *loops[2];
static struct ev_loop *evloops[2];
static struct upipe_mgr *xfer_mgr;
static struct uprobe *pthread_probe;
static struct upipe *handle, *app_sink;
static int nbuf, in_q, out_q;
static int wkind;       /* 0 linear worker (wlin), 1 sink worker (wsink): the remote pipe is the end of the line */
static bool worker_attached, app_done;
static struct vh_rng rngs[2];

static bool loop_pred(void *arg)
{
    int t = (int)(intptr_t)arg;
    if (t == 0 && app_done) return true;
    if (mockloop_nb_active(loops[t]) == 0 && (t == 1 ? worker_attached : true)) return true;
    return mockloop_has_ready(loops[t]);
}

static void run_mock_until_idle(int t)
{
    /* runs the loop until it has no active watcher at all (as upump_mgr_run does) */
    for (;;) {
        if (mockloop_has_ready(loops[t])) {
            bool lk = use_mutex && t == 1;
            if (lk) xm_lock(&xm.umutex);
            if (mockloop_has_ready(loops[t])) mockloop_step(loops[t], &rngs[t]);
            if (lk) xm_unlock(&xm.umutex);
            continue;
        }
        if (mockloop_nb_active(loops[t]) == 0) return;
        if (!sched_block(loop_pred, (void *)(intptr_t)t)) return;
    }
}

static void worker(void *arg)
{
    (void)arg;
    my_thr = 1;
    perturb_rng = free_running ? &rngs[1] : NULL;
    uprobe_pthread_upump_mgr_set(pthread_probe, loops[1]);
    upipe_xfer_mgr_attach(xfer_mgr, loops[1]);
    upipe_mgr_release(xfer_mgr);
    worker_attached = true;
    if (free_running) { if (use_mutex) upump_mgr_run(loops[1], &xm.umutex); else ev_run(evloops[1], 0); }
    else run_mock_until_idle(1);
}

static void application(void *arg)
{
    (void)arg;
    my_thr = 0;
    perturb_rng = free_running ? &rngs[0] : NULL;
    uprobe_pthread_upump_mgr_set(pthread_probe, loops[0]);   /* thread-local: this thread's loop */
    upipe_attach_upump_mgr(handle);
    if (wkind == 0) upipe_set_output(handle, app_sink);
    struct uref *fd = uref_alloc_control(uref_mgr);
    uref_flow_set_def(fd, "void.");
    upipe_set_flow_def(handle, fd);
    uref_free(fd);
    for (int i = 0; i < nbuf; i++) {
        struct uref *u = uref_alloc_control(uref_mgr);
        uref_attr_set_unsigned(u, (uint64_t)i, UDICT_TYPE_UNSIGNED, "x.seq");
        upipe_input(handle, u, NULL);
        if (vh_chance(&rngs[0], 1, 4)) {
            /* a command the queue pipes do not handle: with a mutex the worker
             * pipe freezes the remote loop and forwards it from this thread */
            upipe_set_option(handle, "verif", "x");
            VH_COUNT("c06.controls_sent_to_worker_pipe");
        }
        if (!free_running && vh_chance(&rngs[0], 1, 3)) while (mockloop_has_ready(loops[0]) && vh_chance(&rngs[0], 2, 3)) mockloop_step(loops[0], &rngs[0]);
        if (free_running && vh_chance(&rngs[0], 1, 3)) ev_run(evloops[0], EVRUN_NOWAIT);
    }
    upipe_release(handle);
    handle = NULL;
    if (free_running) ev_run(evloops[0], 0);
    else run_mock_until_idle(0);
    app_done = true;
}

struct fr { sched_fn fn; };
static void *fr_main(void *p) { ((struct fr *)p)->fn(NULL); return NULL; }

static void run_case(struct vh_rng *r)
{
    R = r;
    memset(logs, 0, sizeof(logs));
    handle_dead = main_source_end = 0; worker_attached = app_done = false; frozen_window = false;
    umem_mgr = umem_alloc_mgr_alloc();
    udict_mgr = udict_inline_mgr_alloc(4, umem_mgr, -1, -1);
    uref_mgr = uref_std_mgr_alloc(4, udict_mgr, 0);
    nbuf = 1 + vh_below(R, 24);
    static const int qs[] = { 1, 2, 3, 7, 255 };
    in_q = qs[vh_below(R, 5)]; out_q = qs[vh_below(R, 5)];
    int xfer_q = vh_chance(R, 1, 2) ? 255 : 8 + (int)vh_below(R, 24);
    wkind = vh_chance(R, 1, 3) ? 1 : 0;
    vh_count_dyn("c06.worker_kind.%s", wkind ? "wsink" : "wlin");
    enum sched_strategy st = (enum sched_strategy)vh_below(R, 3);
    vh_tr("wlin nbuf=%d in_q=%d out_q=%d xfer_q=%d strategy=%d", nbuf, in_q, out_q, xfer_q, st);
    for (int t = 0; t < 2; t++) {
        vh_rng_seed(&rngs[t], vh_rand(R));
        if (free_running) { evloops[t] = ev_loop_new(0); loops[t] = upump_ev_mgr_alloc(evloops[t], 4, 4); }
        else loops[t] = mockloop_mgr_alloc(2, 2);
    }
    app_evloop = evloops[0];
    my_thr = 0;     /* allocation happens in the application thread */
    struct uprobe base; uprobe_init(&base, NULL, NULL);
    struct uprobe *chain = uprobe_uref_mgr_alloc(NULL, uref_mgr);
    chain = uprobe_pthread_upump_mgr_alloc(chain);
    pthread_probe = chain;
    uprobe_pthread_upump_mgr_set(pthread_probe, loops[0]);
    struct uprobe main_probe, remote_probe;
    uprobe_init(&main_probe, main_throw, uprobe_use(chain));
    uprobe_init(&remote_probe, remote_throw, uprobe_use(chain));

    /* the application allocates the pipes of the worker inside a section where
     * its own event loop manager is frozen; upipe_w*_alloc freezes and thaws
     * on its own inside, which must not end the outer section */
    bool outer_freeze = vh_chance(R, 1, 2);
    if (outer_freeze) uprobe_throw(chain, NULL, UPROBE_FREEZE_UPUMP_MGR);
    struct upipe *remote = upipe_void_alloc(&remote_mgr, uprobe_use(&remote_probe));
    if (outer_freeze && last_alloc_got_mgr)
        vh_violation_noabort("c06:worker:upump-mgr-given-inside-frozen-section", "a pipe allocated inside a frozen section obtained the application's event loop manager");
    use_mutex = vh_chance(R, 1, 2);
    if (use_mutex) {
        memset(&xm, 0, sizeof(xm));
        pthread_mutex_init(&xm.m, NULL);
        XM_SET_OWNER(-1);
        urefcount_init(&xm.rc, xm_dead);
        xm.umutex.refcount = &xm.rc;
        xm.umutex.umutex_lock = xm_lock;
        xm.umutex.umutex_unlock = xm_unlock;
        VH_COUNT("c06.programs_with_mutex");
    }
    xfer_mgr = upipe_xfer_mgr_alloc(xfer_q, 2, use_mutex ? &xm.umutex : NULL);
    upipe_mgr_use(xfer_mgr);        /* reference handed to the worker thread */
    struct upipe_mgr *wlin_mgr = upipe_wlin_mgr_alloc(xfer_mgr);
    upipe_mgr_release(xfer_mgr);
    app_sink = upipe_void_alloc(&asink_mgr, uprobe_use(&main_probe));
    if (wkind == 0)
        handle = upipe_wlin_alloc(wlin_mgr, uprobe_use(&main_probe), remote, uprobe_use(&remote_probe), in_q, out_q);
    else {
        struct upipe_mgr *wsink_mgr = upipe_wsink_mgr_alloc(xfer_mgr);
        handle = upipe_wsink_alloc(wsink_mgr, uprobe_use(&main_probe), remote, uprobe_use(&remote_probe), in_q);
        upipe_mgr_release(wsink_mgr);
    }
    upipe_mgr_release(wlin_mgr);
    if (!handle) vh_violation("c06:worker:alloc", "wlin allocation failed");
    if (outer_freeze) {
        /* still inside the outer section: another pipe meant for a worker */
        struct upipe *b = upipe_void_alloc(&remote_mgr, uprobe_use(&remote_probe));
        if (last_alloc_got_mgr)
            vh_violation_noabort("c06:worker:upump-mgr-given-inside-frozen-section", "after upipe_wlin_alloc (which freezes and thaws internally) a pipe allocated in the still frozen outer section obtained the application's event loop manager: its pumps would run in the application thread");
        upipe_release(b);
        uprobe_throw(chain, NULL, UPROBE_THAW_UPUMP_MGR);
        struct upipe *c = upipe_void_alloc(&remote_mgr, uprobe_use(&remote_probe));
        if (!last_alloc_got_mgr)
            vh_violation_noabort("c06:worker:upump-mgr-refused-after-thaw", "after the outer section was thawed a pipe is still refused the event loop manager");
        upipe_release(c);
        VH_COUNT("c06.frozen_sections_checked");
    }
    my_thr = -1;

    sched_fn fns[2] = { application, worker }; void *args[2] = { NULL, NULL };
    struct sched_result res; memset(&res, 0, sizeof(res));
    if (free_running) {
        pthread_t th[2]; struct fr f[2] = { { application }, { worker } };
        for (int i = 0; i < 2; i++) pthread_create(&th[i], NULL, fr_main, &f[i]);
        struct timespec dl; clock_gettime(CLOCK_REALTIME, &dl); dl.tv_sec += 90;
        for (int i = 0; i < 2; i++)
            if (pthread_timedjoin_np(th[i], NULL, &dl) != 0) {
                vh_violation_noabort("inconclusive:free-running-hang:worker", "threads still inside their event loops long after start");
                fflush(stdout); fprintf(stderr, "VH-ABORT-KEY inconclusive:free-running-hang:worker\n"); abort();
            }
    } else
        sched_run(2, fns, args, R, st, &res, NULL, 0);

    if (vh_opts.verbose) for (int t = 0; t < 2; t++) { fprintf(stderr, "LOG T%d:", t); for (int i = 0; i < logs[t].n; i++) fprintf(stderr, " %d/%d/%" PRIu64 "@%d", logs[t].e[i].kind, logs[t].e[i].a, logs[t].e[i].b, logs[t].e[i].thread); fprintf(stderr, "\n active A=%d W=%d\n", mockloop_nb_active(loops[0]), mockloop_nb_active(loops[1])); }
    /* ---------------- checks ---------------- */
    if (res.deadlock)
        vh_violation_noabort("c06:worker:deadlock", "application and worker loops both asleep with work remaining (%d buffers, queues %d/%d; mutex %s owner %d depth %d)", nbuf, in_q, out_q, use_mutex ? "used" : "none", XM_OWNER(), xm.depth);
    else {
        uint64_t next = 0; int got = 0;
        bool def_seen = false;
        for (int t = 0; t < 2; t++) for (int i = 0; i < logs[t].n; i++) {
            struct wev *e = &logs[t].e[i];
            switch (e->kind) {
                case W_REMOTE_ENTRY:
                    /* after the transfer, the remote pipe is only entered from the worker thread */
                    if ((e->b & 2) && e->thread == 0) VH_COUNT("c06.remote_entered_inside_frozen_window");
                    if ((e->b & 1) && e->thread != 1 && e->a != RE_ALLOC && !(e->b & 2)) {
                        static const char *nm[] = { "alloc", "attach_upump_mgr", "input", "set_flow_def", "set_output", "get_output", "control", "free" };
                        char key[96]; snprintf(key, sizeof(key), "c06:worker:remote-entered-from-wrong-thread:%s", nm[e->a]);
                        vh_violation_noabort(key, "the transferred pipe was entered (%s) from thread %d", nm[e->a], e->thread);
                    }
                    if (e->a == RE_ATTACH && e->thread != 1) vh_violation_noabort("c06:worker:remote-entered-from-wrong-thread:attach_upump_mgr", "attach_upump_mgr ran in thread %d", e->thread);
                    VH_COUNT("c06.remote_entries_checked");
                    break;
                case W_REMOTE_FLOWDEF: if (wkind == 1) def_seen = true; break;
                case W_REMOTE_INPUT:
                    if (wkind != 1) break;
                    if (e->thread != 1) vh_violation_noabort("c06:worker:remote-entered-from-wrong-thread:input", "the remote sink got a buffer in thread %d", e->thread);
                    if (!def_seen) vh_violation_noabort("c06:worker:buffer-before-flow-def", "a buffer reached the remote sink before any flow definition");
                    if (e->b < next) vh_violation_noabort(e->b + 1 == next ? "c06:worker:duplicated" : "c06:worker:reordered", "seq %" PRIu64 " delivered after %" PRIu64, e->b, next - 1);
                    else if (e->b > next) vh_violation_noabort("c06:worker:lost", "seq %" PRIu64 " delivered, %" PRIu64 " missing", e->b, next);
                    next = e->b + 1; got++;
                    VH_COUNT("c06.worker_deliveries_checked");
                    break;
                case W_SINK_FLOWDEF: if (e->thread != 0) vh_violation_noabort("c06:worker:wrong-thread:application-side", "the application's sink got a flow definition in thread %d", e->thread); def_seen = true; break;
                case W_SINK_INPUT:
                    if (e->thread != 0) vh_violation_noabort("c06:worker:wrong-thread:application-side", "the application's sink got a buffer in thread %d", e->thread);
                    if (!def_seen) vh_violation_noabort("c06:worker:buffer-before-flow-def", "a buffer reached the application's sink before any flow definition");
                    if (e->b < next) vh_violation_noabort(e->b + 1 == next ? "c06:worker:duplicated" : "c06:worker:reordered", "seq %" PRIu64 " delivered after %" PRIu64, e->b, next - 1);
                    else if (e->b > next) vh_violation_noabort("c06:worker:lost", "seq %" PRIu64 " delivered, %" PRIu64 " missing", e->b, next);
                    next = e->b + 1; got++;
                    VH_COUNT("c06.worker_deliveries_checked");
                    break;
                case W_MAIN_EVENT: if (e->thread != 0) vh_violation_noabort("c06:worker:event-in-wrong-thread", "an event of the application-side handle (%" PRIu64 ") was delivered in thread %d", e->b, e->thread); break;
                default: break;
            }
        }
        if (got != nbuf) vh_violation_noabort("c06:worker:lost", "%d buffers sent through the worker, %d delivered (queues %d/%d)", nbuf, got, in_q, out_q);
    }
    /* cleanup */
    if (handle) upipe_release(handle);
    upipe_release(app_sink);
    for (int t = 0; t < 2; t++) { if (!free_running) mockloop_run(loops[t], R, 2000, 4); upump_mgr_release(loops[t]); if (evloops[t]) { ev_loop_destroy(evloops[t]); evloops[t] = NULL; } }
    uprobe_clean(&main_probe); uprobe_clean(&remote_probe);
    uprobe_release(chain);
    uref_mgr_release(uref_mgr); udict_mgr_release(udict_mgr); umem_mgr_release(umem_mgr);
    VH_COUNT("c06.worker_programs");
    VH_ADD("sched.decisions", res.decisions);
    VH_ADD("sched.switches", res.switches);
    if (free_running || res.switches > 2) vh_nontrivial(vh_hash_mix(res.hash, nbuf * 65536 + in_q * 256 + out_q));
    if (vh_want_sample()) vh_sample("%s | %u decisions %u switches", vh_trace, res.decisions, res.switches);
}

static void init(void)
{
    free_running = !strcmp(vh_opts.mode, "free");
    if (free_running) uverif_yield_hook = perturb_hook; else sched_install();
}

static const struct vh_lab lab = { "xworker", init, run_case, NULL };
int main(int argc, char **argv) { return vh_main(argc, argv, &lab); }
