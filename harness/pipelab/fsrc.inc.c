/* C20 on a source: upipe_file_source (position, range, size, output size, uri).
 * The pipe reads a regular file through a descriptor watcher, which the mock
 * loop dispatches like any other pump (a regular file is always readable).
 * Same differential scheme as for the catalogue: the seeded history runs once
 * without and once with every getter called after every operation; the
 * getters must return what was set (while it is known) and the two runs must
 * deliver the same octets.  (included by pipelab.c) */
#include "upipe-modules/upipe_file_source.h"
#include <fcntl.h>
#include <unistd.h>

#define FSRC_SIZE 65536
static char fsrc_path[64];
static void fsrc_unlink(void) { if (fsrc_path[0]) unlink(fsrc_path); }
static void fsrc_file(void)
{
    if (fsrc_path[0]) return;
    snprintf(fsrc_path, sizeof(fsrc_path), "/tmp/pipelab-fsrc-XXXXXX");
    int fd = mkstemp(fsrc_path);
    if (fd < 0) { perror("mkstemp"); abort(); }
    static uint8_t buf[FSRC_SIZE];
    for (int i = 0; i < FSRC_SIZE; i += 4) { buf[i] = (uint8_t)(i >> 16); buf[i + 1] = (uint8_t)(i >> 8); buf[i + 2] = (uint8_t)i; buf[i + 3] = 0xa5; }
    if (write(fd, buf, FSRC_SIZE) != FSRC_SIZE) abort();
    close(fd);
    atexit(fsrc_unlink);
}

struct fsrc_out { int n; uint64_t h[1024]; size_t sz[1024]; };

/* the file is closed once its end was reached (source_end thrown): every command but the uri then answers UNHANDLED */
static bool fsrc_closed(int pid)
{
    for (int i = 0; i < lab_nev; i++) if (lab_log[i].kind == EV_PROBE && lab_log[i].a == pid && lab_log[i].b == UPROBE_SOURCE_END) return true;
    return false;
}

static void fsrc_getters(struct upipe *pipe, bool closed, bool pos_known, uint64_t pos, bool len_known, uint64_t len, bool os_known, unsigned os)
{
    uint64_t v = 0, v2 = 0; unsigned u = 0; const char *uri = NULL;
    VH_COUNT("c20.getter_rounds");
    if (closed) {
        /* nothing is in force any more; the getters are still called (they must not change what follows) */
        upipe_src_get_size(pipe, &v); upipe_control(pipe, UPIPE_SRC_GET_POSITION, &v); upipe_src_get_range(pipe, &v, &v2);
        upipe_get_output_size(pipe, &u); upipe_get_uri(pipe, &uri);
        return;
    }
    if (!ubase_check(upipe_src_get_size(pipe, &v)) || v != FSRC_SIZE)
        vh_violation("c20:file_source:size:getter-value", "after %s: get_size returns %" PRIu64 ", the file has %d octets", opname, v, FSRC_SIZE);
    if (!ubase_check(upipe_control(pipe, UPIPE_SRC_GET_POSITION, &v)) || (pos_known && v != pos))
        vh_violation("c20:file_source:position:getter-value", "after %s: get_position returns %" PRIu64 ", last accepted value %" PRIu64, opname, v, pos);
    if (!ubase_check(upipe_src_get_range(pipe, &v, &v2)) || (pos_known && v != pos) || (len_known && v2 != len))
        vh_violation("c20:file_source:range:getter-value", "after %s: get_range returns %" PRIu64 "+%" PRIu64 ", last accepted %" PRIu64 "+%" PRIu64, opname, v, v2, pos, len);
    if (!ubase_check(upipe_get_output_size(pipe, &u)) || (os_known && u != os))
        vh_violation("c20:file_source:output_size:getter-value", "after %s: get_output_size returns %u, last accepted value %u", opname, u, os);
    if (!ubase_check(upipe_get_uri(pipe, &uri)) || !uri || !strstr(uri, fsrc_path))
        vh_violation("c20:file_source:uri:getter-value", "after %s: get_uri returns %s", opname, uri ? uri : "(null)");
}

static void fsrc_history(uint64_t seed, bool getters, struct fsrc_out *out)
{
    struct vh_rng rr; vh_rng_seed(&rr, seed); R = &rr;
    memset(&S, 0, sizeof(S));
    lab_nev = 0; lab_log_overflow = false; lab_inputs_reset(); in_reset(); pooltrack_reset(); lab_nprobes = 0; lab_probe_hook = NULL;
    src_pump = NULL;
    lab_env_init(vh_below(R, 3));
    int pid, sid;
    struct upipe *sink = lab_sink_new("sink0", &sid);
    lab_sink_set_request_mode(sink, 1);
    struct upipe_mgr *mgr = upipe_fsrc_mgr_alloc();
    struct upipe *pipe = upipe_void_alloc(mgr, lab_probe_new("file_source", &pid));
    upipe_mgr_release(mgr);
    if (!pipe) vh_violation("c04:alloc-failed", "file source");
    lab_ev(EV_DRIVER, D_SET_OUTPUT, sid, pid, 0, NULL, "");
    upipe_set_output(pipe, sink);
    OP("set_uri");
    if (!ubase_check(upipe_set_uri(pipe, fsrc_path))) vh_violation("c20:file_source:uri:valid-value-rejected", "set_uri(%s) failed", fsrc_path);
    bool pos_known = true, len_known = false, os_known = false; uint64_t pos = 0, len = 0; unsigned os = 0;
    if (getters) fsrc_getters(pipe, false, pos_known, pos, len_known, len, os_known, os);
    int nops = 6 + vh_below(R, 14);
    for (int i = 0; i < nops; i++) {
        int c = vh_below(R, 100);
        if (c < 25) {
            uint64_t p = vh_below(R, FSRC_SIZE + 1);
            OP("set_position(%" PRIu64 ")", p);
            if (ubase_check(upipe_src_set_position(pipe, p))) { pos = p; pos_known = true; VH_COUNT("c20.setter_accepted"); }
            else if (!fsrc_closed(pid)) vh_violation("c20:file_source:position:valid-value-rejected", "set_position(%" PRIu64 ") refused", p);
        } else if (c < 40) {
            uint64_t o = vh_below(R, FSRC_SIZE), l = 1 + vh_below(R, FSRC_SIZE);
            OP("set_range(%" PRIu64 ",%" PRIu64 ")", o, l);
            if (ubase_check(upipe_src_set_range(pipe, o, l))) { pos = o; len = l; pos_known = len_known = true; VH_COUNT("c20.setter_accepted"); }
            else if (!fsrc_closed(pid)) vh_violation("c20:file_source:range:valid-value-rejected", "set_range(%" PRIu64 ",%" PRIu64 ") refused", o, l);
        } else if (c < 55) {
            unsigned n = 1 + vh_below(R, 4000);
            OP("set_output_size(%u)", n);
            if (ubase_check(upipe_set_output_size(pipe, n))) { os = n; os_known = true; VH_COUNT("c20.setter_accepted"); }
        } else {
            OP("loop");
            lab_sink_burst = 0; lab_sink_burst_limit = 100000;
            if (mockloop_run(E.upump_mgr, R, 1 + vh_below(R, 6), 2)) { pos_known = len_known = os_known = false; VH_COUNT("fsrc.loop_dispatches"); }   /* reading moves the position, shrinks the remaining length and, at the end of a range, the output size */
            lab_sink_burst_limit = 0;
        }
        if (getters) fsrc_getters(pipe, fsrc_closed(pid), pos_known, pos, len_known, len, os_known, os);
    }
    OP("release");
    lab_ev(EV_DRIVER, D_RELEASE, pid, 0, 0, NULL, "");
    upipe_release(pipe);
    mockloop_run(E.upump_mgr, R, 1000, 8);
    upipe_release(sink);
    out->n = 0;
    for (int i = 0; i < lab_ninputs && out->n < 1024; i++) { out->h[out->n] = lab_inputs[i].payload_hash; out->sz[out->n] = lab_inputs[i].size; out->n++; }
    check_c04(&S);
    lab_probes_release();
    lab_env_fini();
}

static void c20_fsrc_case(struct vh_rng *r)
{
    fsrc_file();
    uint64_t seed = vh_rand(r);
    static struct fsrc_out a, b;
    fsrc_history(seed, false, &a);
    fsrc_history(seed, true, &b);
    bool same = a.n == b.n;
    for (int i = 0; same && i < a.n; i++) same = a.h[i] == b.h[i] && a.sz[i] == b.sz[i];
    if (!same) vh_violation("c20:file_source:getter-changes-behaviour", "the same history delivers %d buffers without getters and %d with them (or other octets)", a.n, b.n);
    VH_COUNT("c20.twin_runs_compared"); VH_COUNT("c20.fsrc_cases");
    if (a.n) VH_COUNT("c20.fsrc_cases_with_data");
    vh_nontrivial(case_hash);
}
