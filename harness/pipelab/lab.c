#include "lab.h"
#include <execinfo.h>

#include "upipe/uverif.h"
#include "upipe/umem.h"
#include "upipe/ubuf_mem.h"
#include "upipe/udict.h"
#include "upipe/udict_inline.h"
#include "upipe/uref_std.h"
#include "upipe/uref_block.h"
#include "upipe/uref_clock.h"
#include "upipe/uref_attr.h"
#include "upipe/ubuf_block_mem.h"
#include "upipe/ubuf_pic_mem.h"
#include "upipe/ubuf_sound_mem.h"
#include "upipe/uprobe_uref_mgr.h"
#include "upipe/uprobe_ubuf_mem.h"
#include "upipe/uprobe_uclock.h"
#include "upipe/uprobe_upump_mgr.h"
#include "upipe/upipe_helper_upipe.h"
#include "upipe/upipe_helper_urefcount.h"
#include "upipe/upipe_helper_void.h"

#include <stdlib.h>
#include <string.h>

#if defined(__SANITIZE_ADDRESS__)
#include <sanitizer/asan_interface.h>
extern int __sanitizer_get_ownership(const volatile void *p);
extern size_t __sanitizer_get_allocated_size(const volatile void *p);
#define LAB_ASAN 1
#else
#define LAB_ASAN 0
#endif

struct ev *lab_log;
int lab_nev;
static int lab_ev_cap;
bool lab_log_overflow;
struct lab_env E;
uint64_t lab_sink_burst, lab_sink_burst_limit;
const char *lab_burst_pipe = "?";

struct ev *lab_ev(int kind, int a, int b, uint64_t c, uint64_t d, const void *p, const char *msg)
{
    static struct ev overflow;
    if (lab_nev == lab_ev_cap && lab_ev_cap < LAB_MAX_EV) {
        lab_ev_cap = lab_ev_cap ? lab_ev_cap * 2 : 1024;
        lab_log = realloc(lab_log, sizeof(struct ev) * lab_ev_cap);
    }
    if (lab_nev >= lab_ev_cap) lab_log_overflow = true;
    struct ev *e = lab_nev < lab_ev_cap ? &lab_log[lab_nev++] : &overflow;
    e->kind = kind; e->a = a; e->b = b; e->c = c; e->d = d; e->p = p;
    snprintf(e->msg, sizeof(e->msg), "%s", msg ? msg : "");
    return e;
}

/* ---------------- pool tracker ---------------- */
#define PT_SIZE 4096
static struct { void *obj; void *pool; int state; void *bt[10]; int nbt; } pt[PT_SIZE];  /* state 1 live, 2 parked */
static int pt_trace = -1;       /* LAB_TRACE_POOL=1: remember who obtained each object (debugging aid) */
static long pt_live;
int pooltrack_violations;
char pooltrack_msg[160];

static int pt_find(void *obj, bool create)
{
    uintptr_t h = ((uintptr_t)obj >> 4) * 2654435761u;
    for (int k = 0; k < PT_SIZE; k++) {
        int i = (int)((h + k) & (PT_SIZE - 1));
        if (pt[i].obj == obj) return i;
        if (pt[i].obj == NULL) {
            if (!create) return -1;
            pt[i].obj = obj; pt[i].state = 0;
            return i;
        }
    }
    return -1;
}

static void pt_remove(int i)
{
    /* open addressing: re-insert the cluster */
    pt[i].obj = NULL;
    int j = (i + 1) & (PT_SIZE - 1);
    while (pt[j].obj) {
        void *o = pt[j].obj; void *p = pt[j].pool; int s = pt[j].state;
        void *bt[10]; int nbt = pt[j].nbt; memcpy(bt, pt[j].bt, sizeof(bt));
        pt[j].obj = NULL;
        int k = pt_find(o, true);
        pt[k].pool = p; pt[k].state = s; pt[k].nbt = nbt; memcpy(pt[k].bt, bt, sizeof(bt));
        j = (j + 1) & (PT_SIZE - 1);
    }
}

static void pt_poison(void *obj, bool poison)
{
#if LAB_ASAN
    size_t sz = __sanitizer_get_ownership(obj) ? __sanitizer_get_allocated_size(obj) : 0;
    if (sz) { if (poison) ASAN_POISON_MEMORY_REGION(obj, sz); else ASAN_UNPOISON_MEMORY_REGION(obj, sz); }
#else
    (void)obj; (void)poison;
#endif
}

uint64_t lab_steps, lab_step_limit;

static void lab_nonterm(const char *what)
{
    char key[96];
    snprintf(key, sizeof(key), "nonterm:%s", lab_burst_pipe);
    lab_step_limit = 0; lab_sink_burst_limit = 0;
    vh_violation_noabort(key, "%s during a single flush/release call: the pipe does not terminate", what);
    fflush(stdout);
    fprintf(stderr, "VH-ABORT-KEY %s\n", key);
    abort();
}

static void pool_hook(int event, void *pool, void *obj)
{
    int i;
    /* non-termination is decided in logical steps (pool operations), not by the clock */
    if (lab_step_limit && ++lab_steps > lab_step_limit)
        lab_nonterm("more than 4 million pool operations");
    switch (event) {
        case UVERIF_POOL_NEW:
            i = pt_find(obj, true);
            if (i >= 0) { pt[i].pool = pool; pt[i].state = 1; if (pt_trace > 0) pt[i].nbt = backtrace(pt[i].bt, 10); }
            pt_live++;
            break;
        case UVERIF_POOL_GET:
            pt_poison(obj, false);
            i = pt_find(obj, true);
            if (i >= 0) {
                if (pt[i].state == 1 && !pooltrack_violations++)
                    snprintf(pooltrack_msg, sizeof(pooltrack_msg), "pool handed out an object that is still held");
                pt[i].pool = pool; pt[i].state = 1;
                if (pt_trace > 0) pt[i].nbt = backtrace(pt[i].bt, 10);
            }
            pt_live++;
            break;
        case UVERIF_POOL_PARK:
            i = pt_find(obj, false);
            if (i < 0 || pt[i].state != 1) {
                if (!pooltrack_violations++)
                    snprintf(pooltrack_msg, sizeof(pooltrack_msg), "object returned to its pool twice (or never obtained from it)");
            } else { pt[i].state = 2; pt_live--; }
            pt_poison(obj, true);
            break;
        case UVERIF_POOL_PARK_FAILED:
        case UVERIF_POOL_VACUUM:
            pt_poison(obj, false);
            i = pt_find(obj, false);
            if (i >= 0) pt_remove(i);
            break;
    }
}

void pooltrack_install(void) { uverif_pool_hook = pool_hook; pt_trace = getenv("LAB_TRACE_POOL") != NULL; }
void pooltrack_dump_live(void)
{
    if (pt_trace <= 0) return;
    for (int i = 0; i < PT_SIZE; i++)
        if (pt[i].obj && pt[i].state == 1) {
            fprintf(stderr, "still held: object %p of pool %p obtained at:\n", pt[i].obj, pt[i].pool);
            backtrace_symbols_fd(pt[i].bt, pt[i].nbt, 2);
        }
}
void pooltrack_reset(void) { memset(pt, 0, sizeof(pt)); pt_live = 0; pooltrack_violations = 0; pooltrack_msg[0] = 0; }
long pooltrack_live(void) { return pt_live; }

/* ---------------- hashes ---------------- */
uint64_t lab_dict_hash(struct uref *uref)
{
    if (!uref || !uref->udict) return 0;
    uint64_t h = 0;
    const char *name = NULL;
    enum udict_type type = UDICT_TYPE_END;
    while (ubase_check(udict_iterate(uref->udict, &name, &type)) && type != UDICT_TYPE_END) {
        size_t sz = 0; const uint8_t *v = NULL;
        if (!ubase_check(udict_get(uref->udict, name, type, &sz, &v))) continue;
        uint64_t a = vh_hash_bytes(type * 31 + 7, name ? name : "", name ? strlen(name) : 0);
        a = vh_hash_bytes(a, v, sz);
        h += a * 0x9E3779B97F4A7C15ULL + 1;       /* order independent */
    }
    return h;
}

uint64_t lab_block_hash(struct uref *uref, size_t *size_p, uint8_t head[16], uint8_t **copy_p)
{
    size_t sz = 0;
    if (head) memset(head, 0, 16);
    if (copy_p) *copy_p = NULL;
    if (!uref->ubuf || !ubase_check(uref_block_size(uref, &sz))) { if (size_p) *size_p = 0; return 0; }
    if (size_p) *size_p = sz;
    uint8_t *buf = malloc(sz ? sz : 1);
    if (sz && !ubase_check(uref_block_extract(uref, 0, -1, buf))) { free(buf); return 0xBADBADBADULL; }
    uint64_t h = vh_hash_bytes(0x1234, buf, sz);
    if (head) memcpy(head, buf, sz < 16 ? sz : 16);
    if (copy_p) *copy_p = buf; else free(buf);
    return h;
}

/* ---------------- recording probe ---------------- */
struct rprobe lab_probes[LAB_MAX_PIPES];
int lab_nprobes;
bool (*lab_probe_hook)(struct rprobe *rp, struct upipe *upipe, int event, va_list args, int *ret_p);

static void normalise(char *dst, size_t n, const char *src)
{
    /* numbers and addresses away, so that keys are stable */
    size_t o = 0;
    while (*src && o + 4 < n) {
        if (src[0] == '0' && src[1] == 'x') {
            src += 2;
            while ((*src >= '0' && *src <= '9') || (*src >= 'a' && *src <= 'f') || (*src >= 'A' && *src <= 'F')) src++;
            dst[o++] = 'P'; dst[o++] = 'T'; dst[o++] = 'R';
        } else if (*src >= '0' && *src <= '9') {
            while (*src >= '0' && *src <= '9') src++;
            dst[o++] = '#';
        } else dst[o++] = *src++;
    }
    dst[o] = 0;
}

static int rprobe_throw(struct uprobe *uprobe, struct upipe *upipe, int event, va_list args)
{
    struct rprobe *rp = container_of(uprobe, struct rprobe, uprobe);
    char msg[72] = "";
    if (event == UPROBE_LOG) {
        va_list c; va_copy(c, args);
        struct ulog *ulog = va_arg(c, struct ulog *);
        va_end(c);
        if (ulog && ulog->format) {
            char tmp[160];
            va_list a2; va_copy(a2, *ulog->args);
            vsnprintf(tmp, sizeof(tmp), ulog->format, a2);
            va_end(a2);
            /* lines of a dictionary dump: one key whatever the attribute */
            if (!strncmp(tmp, " - \"", 4)) snprintf(tmp, sizeof(tmp), "(attribute line of a dictionary dump)");
            normalise(msg, sizeof(msg), tmp);
        }
    }
    if (event == UPROBE_PROVIDE_REQUEST) {
        va_list c; va_copy(c, args);
        struct urequest *req = va_arg(c, struct urequest *);
        va_end(c);
        lab_ev(EV_PROBE_PROVIDE, rp->id, req->type, 0, 0, req, "");
    }
    uint64_t detail = 0;
    if (event == UPROBE_NEW_FLOW_DEF) {
        va_list c; va_copy(c, args);
        struct uref *fd = va_arg(c, struct uref *);
        va_end(c);
        detail = lab_dict_hash(fd);
    }
    lab_ev(EV_PROBE, rp->id, event, detail, 0, upipe, msg);
    if (event == UPROBE_READY) rp->ready = true;
    if (event == UPROBE_DEAD) rp->dead = true;
    int ret;
    if (lab_probe_hook) {
        va_list c; va_copy(c, args);
        bool handled = lab_probe_hook(rp, upipe, event, c, &ret);
        va_end(c);
        if (handled) return ret;
    }
    return uprobe_throw_next(uprobe, upipe, event, args);
}

static void rprobe_free(struct urefcount *urefcount)
{
    struct rprobe *rp = container_of(urefcount, struct rprobe, urefcount);
    uprobe_clean(&rp->uprobe);
    urefcount_clean(urefcount);
    rp->in_use = false;
}

struct uprobe *lab_probe_new(const char *name, int *id_p)
{
    if (lab_nprobes >= LAB_MAX_PIPES) abort();
    struct rprobe *rp = &lab_probes[lab_nprobes];
    memset(rp, 0, sizeof(*rp));
    rp->id = lab_nprobes++;
    snprintf(rp->name, sizeof(rp->name), "%s", name);
    uprobe_init(&rp->uprobe, rprobe_throw, uprobe_use(E.providers));
    urefcount_init(&rp->urefcount, rprobe_free);
    rp->uprobe.refcount = &rp->urefcount;
    rp->in_use = true;
    if (id_p) *id_p = rp->id;
    /* one reference for the pipe, one kept by the lab until the end of the case */
    return uprobe_use(&rp->uprobe);
}

int lab_probes_release(void)
{
    /* the reference of the laboratory was the last one unless a pipe (or a
     * request, a sub-pipe manager...) kept the reference it was given */
    int leaked = 0;
    for (int i = 0; i < lab_nprobes; i++)
        if (lab_probes[i].in_use) {
            uprobe_release(&lab_probes[i].uprobe);
            if (lab_probes[i].in_use) leaked++;
        }
    lab_nprobes = 0;
    return leaked;
}

/* ---------------- recording sink ---------------- */
#define RSINK_SIGNATURE UBASE_FOURCC('r','s','n','k')
#define RSINK_MAX_REQ 16
struct rsink {
    struct urefcount urefcount;
    int id;
    bool accept;
    unsigned reject_count;
    struct upipe *release_on_input;     /* handle given by the driver: released from inside the next input */
    int request_mode;
    struct urequest *reqs[RSINK_MAX_REQ];
    int nreqs;
    struct upipe upipe;
};
UPIPE_HELPER_UPIPE(rsink, upipe, RSINK_SIGNATURE)
UPIPE_HELPER_UREFCOUNT(rsink, urefcount, rsink_free)
UPIPE_HELPER_VOID(rsink)

static int next_sink_id;
struct sink_input *lab_inputs;
int lab_ninputs;
static int lab_inputs_cap;


void lab_inputs_reset(void)
{
    for (int i = 0; i < lab_ninputs; i++) free(lab_inputs[i].copy);
    lab_ninputs = 0;
}

static struct upipe *rsink_alloc(struct upipe_mgr *mgr, struct uprobe *uprobe, uint32_t signature, va_list args)
{
    struct upipe *upipe = rsink_alloc_void(mgr, uprobe, signature, args);
    if (!upipe) return NULL;
    struct rsink *s = rsink_from_upipe(upipe);
    rsink_init_urefcount(upipe);
    s->id = next_sink_id++;
    s->accept = true;
    s->reject_count = 0;
    s->release_on_input = NULL;
    s->request_mode = 0;
    s->nreqs = 0;
    upipe_throw_ready(upipe);
    return upipe;
}

/* latency announced by the laboratory sinks (27 MHz ticks); the C12 histories
 * draw it per case, also beyond 32 bits */
uint64_t lab_sink_latency = 12345;

static void rsink_provide(struct rsink *s, struct urequest *req)
{
    (void)s;
    switch (req->type) {
        case UREQUEST_UREF_MGR: urequest_provide_uref_mgr(req, uref_mgr_use(E.uref_mgr)); break;
        case UREQUEST_FLOW_FORMAT: urequest_provide_flow_format(req, uref_dup(req->uref)); break;
        case UREQUEST_UBUF_MGR: {
            const char *def = NULL;
            struct ubuf_mgr *m = E.block_mgr;
            if (req->uref && ubase_check(uref_flow_get_def(req->uref, &def)) && def &&
                (!strncmp(def, "pic.", 4) || !strncmp(def, "sound.", 6))) {
                /* a manager built for the requested format, as uprobe_ubuf_mem does */
                struct ubuf_mgr *fm = ubuf_mem_mgr_alloc_from_flow_def(E.pool_depth, E.pool_depth, E.umem, req->uref);
                if (fm) { urequest_provide_ubuf_mgr(req, fm, uref_dup(req->uref)); break; }
                m = !strncmp(def, "pic.", 4) ? E.pic_mgr : E.sound_mgr;
            }
            urequest_provide_ubuf_mgr(req, ubuf_mgr_use(m), uref_dup(req->uref));
            break;
        }
        case UREQUEST_UCLOCK: urequest_provide_uclock(req, uclock_use(E.uclock)); break;
        case UREQUEST_SINK_LATENCY: urequest_provide_sink_latency(req, lab_sink_latency); break;
        default: break;
    }
}

static int rsink_control(struct upipe *upipe, int command, va_list args)
{
    struct rsink *s = rsink_from_upipe(upipe);
    switch (command) {
        case UPIPE_SET_FLOW_DEF: {
            struct uref *fd = va_arg(args, struct uref *);
            lab_ev(EV_SINK_FLOWDEF, s->id, s->accept, lab_dict_hash(fd), 0, NULL, "");
            /* a rejecting output answers with any error code (the sink id picks it) */
            static const int codes[] = { UBASE_ERR_INVALID, UBASE_ERR_UNHANDLED, UBASE_ERR_BUSY, UBASE_ERR_EXTERNAL };
            return s->accept ? UBASE_ERR_NONE : codes[(s->id + s->reject_count++) & 3];
        }
        case UPIPE_REGISTER_REQUEST: {
            struct urequest *req = va_arg(args, struct urequest *);
            lab_ev(EV_SINK_REGISTER, s->id, req->type, 0, 0, req, "");
            if (s->nreqs < RSINK_MAX_REQ) s->reqs[s->nreqs++] = req;
            if (s->request_mode == 0) return upipe_throw_provide_request(upipe, req);
            if (s->request_mode == 1) rsink_provide(s, req);
            return UBASE_ERR_NONE;
        }
        case UPIPE_UNREGISTER_REQUEST: {
            struct urequest *req = va_arg(args, struct urequest *);
            lab_ev(EV_SINK_UNREGISTER, s->id, req->type, 0, 0, req, "");
            for (int i = 0; i < s->nreqs; i++)
                if (s->reqs[i] == req) { s->reqs[i] = s->reqs[--s->nreqs]; break; }
            return UBASE_ERR_NONE;
        }
        default:
            return UBASE_ERR_UNHANDLED;
    }
}

static void rsink_input(struct upipe *upipe, struct uref *uref, struct upump **upump_p)
{
    struct rsink *s = rsink_from_upipe(upipe);
    (void)upump_p;
    uint64_t seq = UINT64_MAX;
    uref_attr_get_unsigned(uref, &seq, UDICT_TYPE_UNSIGNED, "x.seq");
    size_t sz = 0;
    uint8_t head[16];
    uint8_t *copy = NULL;
    bool is_block = uref->ubuf && uref->ubuf->mgr->signature == UBUF_ALLOC_BLOCK;
    uint64_t ph = is_block ? lab_block_hash(uref, &sz, head, &copy) : 0;
    lab_ev(EV_SINK_INPUT, s->id, (int)seq, ph, sz, NULL, "");
    if (lab_ninputs == lab_inputs_cap && lab_inputs_cap < LAB_MAX_INPUTS) {
        lab_inputs_cap = lab_inputs_cap ? lab_inputs_cap * 2 : 256;
        lab_inputs = realloc(lab_inputs, sizeof(struct sink_input) * lab_inputs_cap);
    }
    if (lab_ninputs >= lab_inputs_cap) lab_log_overflow = true;
    if (lab_ninputs < lab_inputs_cap) {
        struct sink_input *in = &lab_inputs[lab_ninputs++];
        in->sink = s->id; in->seq = seq; in->payload_hash = ph; in->size = sz;
        if (is_block) memcpy(in->head, head, 16); else memset(in->head, 0, 16);
        in->attr_hash = lab_dict_hash(uref);
        in->copy = copy;
        in->dates[0] = in->dates[1] = in->dates[2] = UINT64_MAX;
        uref_clock_get_cr_sys(uref, &in->dates[0]);
        uref_clock_get_dts_sys(uref, &in->dates[1]);
        uref_clock_get_pts_sys(uref, &in->dates[2]);
    } else free(copy);
    uref_free(uref);
    /* non-termination is decided in logical steps, not by the clock */
    if (lab_sink_burst_limit && ++lab_sink_burst > lab_sink_burst_limit)
        lab_nonterm("sink received more buffers than octets were ever sent");
    if (s->release_on_input) {
        /* an output (or a probe) may release the pipe that is feeding it: the
         * pipe then loses its last reference inside its own input function */
        struct upipe *victim = s->release_on_input;
        s->release_on_input = NULL;
        lab_ev(EV_DRIVER, 5 /* D_RELEASE */, -1, 0, 0, NULL, "released from its output");
        upipe_release(victim);
    }
}

static void rsink_free(struct upipe *upipe)
{
    upipe_throw_dead(upipe);
    rsink_clean_urefcount(upipe);
    rsink_free_void(upipe);
}

static struct upipe_mgr rsink_mgr = {
    .refcount = NULL,
    .signature = RSINK_SIGNATURE,
    .upipe_alloc = rsink_alloc,
    .upipe_input = rsink_input,
    .upipe_control = rsink_control,
};

struct upipe_mgr *lab_sink_mgr(void) { return &rsink_mgr; }

struct upipe *lab_sink_new(const char *name, int *sink_id_p)
{
    struct upipe *u = upipe_void_alloc(&rsink_mgr, lab_probe_new(name, NULL));
    if (!u) abort();
    if (sink_id_p) *sink_id_p = rsink_from_upipe(u)->id;
    return u;
}

void lab_sink_set_accept(struct upipe *sink, bool accept) { rsink_from_upipe(sink)->accept = accept; }
void lab_sink_arm_release(struct upipe *sink, struct upipe *victim) { rsink_from_upipe(sink)->release_on_input = victim; }
bool lab_sink_armed(struct upipe *sink) { return rsink_from_upipe(sink)->release_on_input != NULL; }
void lab_sink_set_request_mode(struct upipe *sink, int mode) { rsink_from_upipe(sink)->request_mode = mode; }
int lab_sink_id(struct upipe *sink) { return rsink_from_upipe(sink)->id; }
int lab_sink_nb_requests(struct upipe *sink) { return rsink_from_upipe(sink)->nreqs; }
bool lab_sink_has_request(struct upipe *sink, struct urequest *req)
{
    struct rsink *s = rsink_from_upipe(sink);
    for (int i = 0; i < s->nreqs; i++) if (s->reqs[i] == req) return true;
    return false;
}
int lab_sink_count_match(struct upipe *sink, bool (*match)(struct urequest *, void *), void *arg)
{
    struct rsink *s = rsink_from_upipe(sink);
    int n = 0;
    for (int i = 0; i < s->nreqs; i++) if (match(s->reqs[i], arg)) n++;
    return n;
}

void lab_sink_provide_all(struct upipe *sink)
{
    struct rsink *s = rsink_from_upipe(sink);
    struct urequest *copy[RSINK_MAX_REQ];
    int n = s->nreqs;
    memcpy(copy, s->reqs, sizeof(copy[0]) * n);
    for (int i = 0; i < n; i++)
        if (lab_sink_has_request(sink, copy[i])) rsink_provide(s, copy[i]);
}

/* ---------------- environment ---------------- */
void lab_env_init(int pool_depth)
{
    memset(&E, 0, sizeof(E));
    E.pool_depth = pool_depth;
    next_sink_id = 0;
    E.umem = cumem_mgr_alloc(16);
    E.udict_mgr = udict_inline_mgr_alloc(pool_depth, E.umem, -1, -1);
    E.uref_mgr = uref_std_mgr_alloc(pool_depth, E.udict_mgr, 0);
    E.block_mgr = ubuf_block_mem_mgr_alloc(pool_depth, pool_depth, E.umem, -1, 0, -1, 0);
    E.pic_mgr = ubuf_pic_mem_mgr_alloc(pool_depth, pool_depth, E.umem, 1, 0, 0, 0, 0, 0, 0);
    ubuf_pic_mem_mgr_add_plane(E.pic_mgr, "y8", 1, 1, 1);
    ubuf_pic_mem_mgr_add_plane(E.pic_mgr, "u8", 2, 2, 1);
    ubuf_pic_mem_mgr_add_plane(E.pic_mgr, "v8", 2, 2, 1);
    E.sound_mgr = ubuf_sound_mem_mgr_alloc(pool_depth, pool_depth, E.umem, 4, 0);
    ubuf_sound_mem_mgr_add_plane(E.sound_mgr, "lr");
    E.upump_mgr = mockloop_mgr_alloc(pool_depth, pool_depth);
    E.uclock = mockclock_alloc(E.upump_mgr, UINT64_C(27000000) * 100);
    struct uprobe *p = NULL;
    p = uprobe_uref_mgr_alloc(p, E.uref_mgr);
    p = uprobe_ubuf_mem_alloc(p, E.umem, pool_depth, pool_depth);
    p = uprobe_uclock_alloc(p, E.uclock);
    p = uprobe_upump_mgr_alloc(p, E.upump_mgr);
    E.providers = p;
}

const char *lab_env_fini(void)
{
    /* every manager must be back to the single reference held by its
     * creator once its users are gone; released in dependency order */
    const char *bad = NULL;
    uprobe_release(E.providers);
    uclock_release(E.uclock);
    if (!urefcount_single(E.upump_mgr->refcount)) bad = "upump_mgr";
    upump_mgr_release(E.upump_mgr);
    if (!urefcount_single(E.sound_mgr->refcount)) bad = "sound ubuf_mgr";
    ubuf_mgr_release(E.sound_mgr);
    if (!urefcount_single(E.pic_mgr->refcount)) bad = "pic ubuf_mgr";
    ubuf_mgr_release(E.pic_mgr);
    if (!urefcount_single(E.block_mgr->refcount)) bad = "block ubuf_mgr";
    ubuf_mgr_release(E.block_mgr);
    if (!urefcount_single(E.uref_mgr->refcount)) bad = "uref_mgr";
    uref_mgr_release(E.uref_mgr);
    if (!urefcount_single(E.udict_mgr->refcount)) bad = "udict_mgr";
    udict_mgr_release(E.udict_mgr);
    if (!urefcount_single(E.umem->refcount)) bad = "umem_mgr";
    umem_mgr_release(E.umem);
    memset(&E, 0, sizeof(E));
    return bad;
}
