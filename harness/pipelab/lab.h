/* E3 — pipe laboratory: shared infrastructure (managers, event log, recording
 * probe, recording sink, pool tracker). */
#ifndef LAB_H
#define LAB_H

#include "vh.h"
#include "cumem.h"
#include "mockloop.h"

#include "upipe/ubase.h"
#include "upipe/uref.h"
#include "upipe/ubuf.h"
#include "upipe/uprobe.h"
#include "upipe/upipe.h"
#include "upipe/urequest.h"
#include "upipe/uclock.h"

/* ---------- event log (one logical clock, single thread) ---------- */
enum ev_kind {
    EV_PROBE,           /* event thrown on a recording probe: a=pipe id, b=event, c=detail hash */
    EV_SINK_FLOWDEF,    /* a=sink id, b=accepted, c=dict hash */
    EV_SINK_INPUT,      /* a=sink id, b=seq, c=payload hash, d=size */
    EV_SINK_REGISTER,   /* a=sink id, b=request type, p=request */
    EV_SINK_UNREGISTER, /* a=sink id, p=request */
    EV_DRIVER,          /* driver call marker: a=op code, b/c args */
    EV_PROBE_PROVIDE,   /* a=pipe id, b=request type, p=request */
};

struct ev {
    int kind;
    int a, b;
    uint64_t c, d;
    const void *p;
    char msg[72];
};

#define LAB_MAX_EV 400000
extern struct ev *lab_log;
extern int lab_nev;
struct ev *lab_ev(int kind, int a, int b, uint64_t c, uint64_t d, const void *p, const char *msg);

/* ---------- managers shared by a case ---------- */
struct lab_env {
    struct umem_mgr *umem;
    struct udict_mgr *udict_mgr;
    struct uref_mgr *uref_mgr;
    struct ubuf_mgr *block_mgr;
    struct ubuf_mgr *pic_mgr;
    struct ubuf_mgr *sound_mgr;
    struct upump_mgr *upump_mgr;     /* mock loop */
    struct uclock *uclock;           /* virtual clock */
    struct uprobe *providers;        /* uref_mgr / ubuf_mem / uclock / upump_mgr provider chain */
    int pool_depth;
};
extern struct lab_env E;
void lab_env_init(int pool_depth);
/* releases everything in dependency order; returns the name of a manager
 * that was not back to a single reference, or NULL */
const char *lab_env_fini(void);

/* ---------- pool tracker (UVERIF_POOL hook) ---------- */
void pooltrack_install(void);
void pooltrack_reset(void);
long pooltrack_live(void);          /* objects currently taken out of any pool */
void pooltrack_dump_live(void);     /* LAB_TRACE_POOL=1: who obtained the objects still held */
extern int pooltrack_violations;     /* double park / get of a live object */
extern char pooltrack_msg[160];

/* ---------- recording probe ---------- */
#define LAB_MAX_PIPES 24
struct rprobe {
    struct uprobe uprobe;
    struct urefcount urefcount;
    int id;                 /* pipe identity in the log */
    char name[24];
    bool ready, dead;
    int provide_mode;       /* 0 pass to providers, 1 answer here (C12), 2 swallow */
    bool in_use;
    bool no_pipe;           /* allocation refused: no pipe ever existed behind this probe */
    bool forced;            /* the laboratory dropped the references this pipe held on itself (after reporting it) */
};
extern struct rprobe lab_probes[LAB_MAX_PIPES];
extern int lab_nprobes;
/* returns a probe to hand over to upipe_*_alloc (one reference given away);
 * the lab keeps its own reference until lab_probes_release() */
struct uprobe *lab_probe_new(const char *name, int *id_p);
/* returns the number of probes still referenced by somebody else */
int lab_probes_release(void);
/* hook for events the lab wants to intercept (probe_uref etc.): return true if handled */
extern bool (*lab_probe_hook)(struct rprobe *rp, struct upipe *upipe, int event, va_list args, int *ret_p);

/* ---------- recording sink ---------- */
struct rsink;
struct upipe_mgr *lab_sink_mgr(void);
struct upipe *lab_sink_new(const char *name, int *sink_id_p);
/* scripting */
void lab_sink_set_accept(struct upipe *sink, bool accept);
/* the driver hands its handle on a pipe over to the sink, which releases it
 * from inside its next input; lab_sink_armed tells whether that happened */
void lab_sink_arm_release(struct upipe *sink, struct upipe *victim);
bool lab_sink_armed(struct upipe *sink);
/* what the sink does with requests: 0 = unhandled (goes to its probe),
 * 1 = provide immediately from E, 2 = keep silent (registered, never answered) */
void lab_sink_set_request_mode(struct upipe *sink, int mode);
int lab_sink_id(struct upipe *sink);
/* requests currently registered on the sink */
int lab_sink_nb_requests(struct upipe *sink);
bool lab_sink_has_request(struct upipe *sink, struct urequest *req_or_proxy_of);
extern uint64_t lab_sink_latency;   /* latency announced by the laboratory sinks */
/* answer again all ubuf_mgr/uref_mgr/uclock requests currently registered */
void lab_sink_provide_all(struct upipe *sink);
/* inputs seen since the beginning of the case */
struct sink_input {
    int sink;
    uint64_t seq;           /* x.seq attribute, UINT64_MAX when absent */
    uint64_t payload_hash;
    size_t size;
    uint8_t head[16];       /* first octets */
    uint64_t attr_hash;     /* hash of the dictionary */
    uint64_t dates[3];      /* cr/dts/pts sys when readable, else UINT64_MAX */
    uint8_t *copy;          /* full payload copy (block flows), may be NULL */
};
#define LAB_MAX_INPUTS 200000
extern struct sink_input *lab_inputs;
extern bool lab_log_overflow;
extern int lab_ninputs;
void lab_inputs_reset(void);
/* step budget during flush/release: inputs received since last reset */
extern uint64_t lab_sink_burst, lab_sink_burst_limit;
extern const char *lab_burst_pipe;
extern uint64_t lab_steps, lab_step_limit;

uint64_t lab_dict_hash(struct uref *uref);
uint64_t lab_block_hash(struct uref *uref, size_t *size_p, uint8_t head[16], uint8_t **copy_p);

#endif
