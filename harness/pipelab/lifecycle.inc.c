/* Life cycles of the module pipes that have no descriptor in the catalogue
 * (included by pipelab.c).
 *
 * The oracles need no knowledge of what a pipe does: the C04 automaton over
 * every probe identity and every sink (ready first, dead once and last,
 * nothing afterwards, flow definition accepted before the first buffer and
 * after every change) and the C01 accounting (pooled objects, managers,
 * probes, umem blocks).  The driver needs no knowledge either: flow
 * definitions of four kinds (block, picture, sound, void) are offered to the
 * pipe and to its sub-pipes, whatever they accept; buffers of a kind are only
 * given to a pipe that accepted a definition of that kind; sources are driven
 * by the mock loop. */

#include "upipe/uref_pic_flow.h"
#include "upipe/uref_pic.h"
#include "upipe/uref_sound.h"
#include "upipe/uref_void_flow.h"
#include "upipe/ubuf_pic.h"
#include "upipe/ubuf_sound.h"
#include "upipe-modules/upipe_audio_blank.h"
#include "upipe-modules/upipe_audio_copy.h"
#include "upipe-modules/upipe_audio_merge.h"
#include "upipe-modules/upipe_audio_split.h"
#include "upipe-modules/upipe_audiocont.h"
#include "upipe-modules/upipe_blit.h"
#include "upipe-modules/upipe_block_to_sound.h"
#include "upipe-modules/upipe_convert_to_block.h"
#include "upipe-modules/upipe_crop.h"
#include "upipe-modules/upipe_even.h"
#include "upipe-modules/upipe_ntsc_prepend.h"
#include "upipe-modules/upipe_play.h"
#include "upipe-modules/upipe_row_join.h"
#include "upipe-modules/upipe_row_split.h"
#include "upipe-modules/upipe_rtp_h264.h"
#include "upipe-modules/upipe_rtp_mpeg4.h"
#include "upipe-modules/upipe_separate_fields.h"
#include "upipe-modules/upipe_sine_wave_source.h"
#include "upipe-modules/upipe_stream_switcher.h"
#include "upipe-modules/upipe_subpic_schedule.h"
#include "upipe-modules/upipe_trickplay.h"
#include "upipe-modules/upipe_video_blank.h"
#include "upipe-modules/upipe_videocont.h"
#include "upipe-modules/upipe_void_source.h"
#include "upipe-modules/upipe_blank_source.h"
#include "upipe-modules/upipe_dtsdi.h"
#include "upipe-modules/upipe_sync.h"
#include "upipe-ts/upipe_ts_encaps.h"
#include "upipe-ts/upipe_ts_pes_encaps.h"
#include "upipe-ts/upipe_ts_split.h"
#include "upipe-filters/upipe_filter_blend.h"
#include "upipe-filters/upipe_audio_bar.h"
#include "upipe-filters/upipe_audio_graph.h"
#include "upipe-filters/upipe_audio_max.h"

enum { LK_BLOCK, LK_PIC, LK_SOUND, LK_VOID, LK_N };
static const char *lk_name[] = { "block", "pic", "sound", "void" };

struct lcdesc {
    const char *name;
    struct upipe_mgr *(*mgr_alloc)(void);
    int alloc;          /* 0 void, 1 flow */
    int sub;            /* 0 none, 1 void-allocated sub-pipes, 2 flow-allocated sub-pipes */
    unsigned no_data;   /* bit mask of kinds whose buffers are not given (see DESIGN 10.4) */
    bool answering_sinks;   /* bins made of pipes listed here on their own: the sinks always answer requests,
                             * so that what is reported on the inner pipe is not reported again on the bin */
};

static const struct lcdesc lc_cat[] = {
    { "audio_blank", upipe_ablk_mgr_alloc, 1, 0, 0 },
    { "audio_copy", upipe_audio_copy_mgr_alloc, 1, 0, 0 },
    { "audio_merge", upipe_audio_merge_mgr_alloc, 1, 1, 0 },
    { "audio_split", upipe_audio_split_mgr_alloc, 0, 2, 0 },
    { "audiocont", upipe_audiocont_mgr_alloc, 1, 1, 0 },
    { "blit", upipe_blit_mgr_alloc, 0, 1, 0 },
    { "block_to_sound", upipe_block_to_sound_mgr_alloc, 1, 0, 0 },
    { "convert_to_block", upipe_tblk_mgr_alloc, 0, 0, 0 },
    { "crop", upipe_crop_mgr_alloc, 0, 0, 0 },
    { "even", upipe_even_mgr_alloc, 0, 1, 0 },
    { "ntsc_prepend", upipe_ntsc_prepend_mgr_alloc, 0, 0, 0 },
    { "play", upipe_play_mgr_alloc, 0, 1, 0 },
    { "row_join", upipe_row_join_mgr_alloc, 0, 0, 0 },
    { "row_split", upipe_row_split_mgr_alloc, 1, 0, 0 },
    { "rtp_h264", upipe_rtp_h264_mgr_alloc, 0, 0, 0 },
    { "rtp_mpeg4", upipe_rtp_mpeg4_mgr_alloc, 0, 0, 0 },
    { "rtp_pcm_pack", upipe_rtp_pcm_pack_mgr_alloc, 0, 0, 0 },
    { "separate_fields", upipe_separate_fields_mgr_alloc, 0, 0, 0 },
    { "sine_wave_source", upipe_sinesrc_mgr_alloc, 0, 0, 0 },
    { "stream_switcher", upipe_stream_switcher_mgr_alloc, 0, 1, 0 },
    { "subpic_schedule", upipe_subpic_schedule_mgr_alloc, 0, 1, 0 },
    { "trickplay", upipe_trickp_mgr_alloc, 0, 1, 0 },
    { "video_blank", upipe_vblk_mgr_alloc, 1, 0, 0 },
    { "videocont", upipe_videocont_mgr_alloc, 0, 1, 0 },
    { "void_source", upipe_voidsrc_mgr_alloc, 1, 0, 0 },
    { "blank_source", upipe_blksrc_mgr_alloc, 1, 0, 0, true },   /* video_blank / audio_blank inside */
    { "dtsdi", upipe_dtsdi_mgr_alloc, 0, 0, 0 },
    { "sync", upipe_sync_mgr_alloc, 0, 1, 0xf },     /* no clock, no mercy: dereferences a NULL uclock on its first buffer */
    { "dejitter", upipe_dejitter_mgr_alloc, 0, 1, 0 },
    { "ts_encaps", upipe_ts_encaps_mgr_alloc, 0, 0, 0 },
    { "ts_pes_encaps", upipe_ts_pese_mgr_alloc, 0, 0, 0 },
    { "ts_split", upipe_ts_split_mgr_alloc, 0, 2, 0 },
    { "filter_blend", upipe_filter_blend_mgr_alloc, 0, 0, 0 },
    { "audio_bar", upipe_audiobar_mgr_alloc, 1, 0, 0 },
    { "audio_graph", upipe_agraph_mgr_alloc, 1, 0, 0 },
    { "audio_max", upipe_amax_mgr_alloc, 0, 0, 0 },
};
#define LC_NCAT ((int)(sizeof(lc_cat) / sizeof(lc_cat[0])))
static int lc_only = -1;

#define LC_HS 32
#define LC_VS 16
#define LC_SAMPLES 64

static struct uref *lc_flow_def(int kind, uint64_t seed)
{
    struct uref *fd = NULL;
    switch (kind) {
        case LK_BLOCK: {
            static const char *sfx[] = { "", "", "h264.", "mpegts.", "mpegtsaligned.", "mpegtspes." };
            fd = uref_block_flow_alloc_def(E.uref_mgr, sfx[vh_below(R, 6)]);
            if (fd && vh_chance(R, 1, 2)) { uref_ts_flow_set_pid(fd, 68 + vh_below(R, 4)); uref_ts_flow_set_pes_id(fd, 0xe0); }
            break;
        }
        case LK_PIC:
            fd = uref_pic_flow_alloc_def(E.uref_mgr, 1);
            uref_pic_flow_add_plane(fd, 1, 1, 1, "y8");
            uref_pic_flow_add_plane(fd, 2, 2, 1, "u8");
            uref_pic_flow_add_plane(fd, 2, 2, 1, "v8");
            uref_pic_flow_set_hsize(fd, LC_HS);
            uref_pic_flow_set_vsize(fd, LC_VS);
            { struct urational fps = { 25, 1 }; uref_pic_flow_set_fps(fd, fps); }
            break;
        case LK_SOUND:
            fd = uref_sound_flow_alloc_def(E.uref_mgr, "s16.", 2, 4);
            uref_sound_flow_add_plane(fd, "lr");
            uref_sound_flow_set_rate(fd, 48000);
            uref_sound_flow_set_samples(fd, LC_SAMPLES);
            break;
        default: fd = uref_void_flow_alloc_def(E.uref_mgr); break;
    }
    if (!fd) abort();
    if (seed) uref_attr_set_unsigned(fd, seed, UDICT_TYPE_UNSIGNED, "x.defseed");
    return fd;
}

static struct uref *lc_buffer(int kind, uint64_t seq)
{
    struct uref *u = NULL;
    switch (kind) {
        case LK_BLOCK: {
            size_t n = 8 + vh_below(R, 200);
            u = uref_block_alloc(E.uref_mgr, E.block_mgr, (int)n);
            uint8_t *w; int ws = -1;
            if (u && ubase_check(uref_block_write(u, 0, &ws, &w))) { for (int i = 0; i < ws; i++) w[i] = (uint8_t)vh_rand(R); uref_block_unmap(u, 0); }
            break;
        }
        case LK_PIC:
            u = uref_pic_alloc(E.uref_mgr, E.pic_mgr, LC_HS, LC_VS);
            if (u) ubuf_pic_clear(u->ubuf, 0, 0, -1, -1, 0);
            break;
        case LK_SOUND: {
            u = uref_sound_alloc(E.uref_mgr, E.sound_mgr, LC_SAMPLES);
            uint8_t *w;
            if (u && ubase_check(uref_sound_plane_write_uint8_t(u, "lr", 0, -1, &w))) { memset(w, 0, LC_SAMPLES * 4); uref_sound_plane_unmap(u, "lr", 0, -1); }
            break;
        }
        default: u = uref_alloc(E.uref_mgr); break;
    }
    if (!u) abort();
    uref_attr_set_unsigned(u, seq, UDICT_TYPE_UNSIGNED, "x.seq");
    uint64_t t = UINT64_C(27000000) * 100 + seq * 1080000;
    if (vh_chance(R, 3, 4)) { uref_clock_set_pts_sys(u, t); uref_clock_set_pts_prog(u, t); uref_clock_set_pts_orig(u, t); uref_clock_set_duration(u, 1080000); }
    return u;
}

#define LC_MAXSUB 3
static void lifecycle_case(struct vh_rng *r)
{
    R = r;
    memset(&S, 0, sizeof(S));
    lab_nev = 0; lab_log_overflow = false; lab_inputs_reset(); in_reset(); pooltrack_reset(); lab_nprobes = 0; lab_probe_hook = NULL;
    src_pump = NULL;
    lab_env_init(vh_chance(R, 1, 2) ? 0 : 1 + vh_below(R, 3));
    const struct lcdesc *d = &lc_cat[lc_only >= 0 ? lc_only : (int)vh_below(R, LC_NCAT)];
    const char *name = d->name;
    vh_count_dyn("pipe.%s", name);
    struct upipe *sinks[4]; int sink_ids[4]; int sink_user[4];    /* -1 free, 100 super, k sub */
    for (int k = 0; k < 4; k++) { char nm[16]; snprintf(nm, sizeof(nm), "sink%d", k); sinks[k] = lab_sink_new(nm, &sink_ids[k]); sink_user[k] = -1; lab_sink_set_request_mode(sinks[k], d->answering_sinks ? 1 : (int)vh_below(R, 3)); }
    struct upipe_mgr *mgr = d->mgr_alloc();
    if (!mgr) vh_violation("c04:alloc-failed", "manager of %s", name);
    int super_id = -1, super_kind = -1;
    struct upipe *super;
    char key[128];
    if (d->alloc) {
        int k = vh_below(R, LK_N);
        struct uref *fd = lc_flow_def(k, 1);
        OP("%s=flow_alloc(%s)", name, lk_name[k]);
        super = upipe_flow_alloc(mgr, lab_probe_new(name, &super_id), fd);
        uref_free(fd);
        if (!super) { lab_probes[super_id].no_pipe = true; VH_COUNT("lc.flow_alloc_refused"); }
    } else {
        OP("%s=void_alloc", name);
        super = upipe_void_alloc(mgr, lab_probe_new(name, &super_id));
        if (!super) { snprintf(key, sizeof(key), "c04:%s:alloc-failed", name); vh_violation(key, "void allocation failed"); }
    }
    upipe_mgr_release(mgr);
    struct upipe *subs[LC_MAXSUB] = { NULL }; int sub_ids[LC_MAXSUB]; int sub_kind[LC_MAXSUB]; int sub_out[LC_MAXSUB];
    for (int k = 0; k < LC_MAXSUB; k++) { sub_kind[k] = -1; sub_out[k] = -1; }
    int super_out = -1;
    uint64_t seq = 0;
    int nops = super ? 8 + vh_below(R, 28) : 0;
    for (int i = 0; i < nops; i++) {
        int c = vh_below(R, 100);
        /* the target of this operation: the super-pipe or one of its sub-pipes */
        int tk = d->sub && vh_chance(R, 1, 2) ? (int)vh_below(R, LC_MAXSUB) : -1;
        struct upipe *t = tk < 0 ? super : subs[tk];
        if (c < 14 && d->sub) {                                  /* allocate a sub-pipe */
            int k = vh_below(R, LC_MAXSUB);
            if (subs[k] || !super || lab_nprobes >= LAB_MAX_PIPES - 2) continue;
            char sn[24]; snprintf(sn, sizeof(sn), "%.18s_sub", name);
            if (d->sub == 1) {
                OP("sub%d=void_alloc_sub", k);
                subs[k] = upipe_void_alloc_sub(super, lab_probe_new(sn, &sub_ids[k]));
            } else {
                int fk = vh_below(R, LK_N);
                struct uref *fd = lc_flow_def(fk, 10 + k);
                OP("sub%d=flow_alloc_sub(%s)", k, lk_name[fk]);
                subs[k] = upipe_flow_alloc_sub(super, lab_probe_new(sn, &sub_ids[k]), fd);
                uref_free(fd);
            }
            sub_kind[k] = -1; sub_out[k] = -1;
            if (subs[k]) VH_COUNT("lc.sub_alloc"); else { lab_probes[sub_ids[k]].no_pipe = true; VH_COUNT("lc.sub_alloc_refused"); }
        } else if (c < 34) {                                     /* a flow definition, of any kind */
            if (!t) continue;
            int fk = vh_below(R, LK_N);
            struct uref *fd = lc_flow_def(fk, 1 + vh_below(R, 3));
            OP("%s%d.set_flow_def(%s)", tk < 0 ? "super" : "sub", tk, lk_name[fk]);
            int err = upipe_set_flow_def(t, fd);
            uref_free(fd);
            if (ubase_check(err)) { if (tk < 0) super_kind = fk; else sub_kind[tk] = fk; vh_count_dyn("lc.flow_def_accepted.%s", name); }
            else VH_COUNT("lc.flow_def_rejected");
        } else if (c < 50) {                                     /* plumbing */
            if (!t) continue;
            int idx = vh_chance(R, 1, 6) ? -1 : (int)vh_below(R, 4);
            int me = tk < 0 ? 100 : tk;
            if (idx >= 0 && sink_user[idx] != -1 && sink_user[idx] != me) continue;
            int tid = tk < 0 ? super_id : sub_ids[tk];
            OP("%s%d.set_output(%d)", tk < 0 ? "super" : "sub", tk, idx);
            lab_ev(EV_DRIVER, tk < 0 ? D_SET_OUTPUT : D_SUB_SET_OUTPUT, idx >= 0 ? sink_ids[idx] : -1, tid, 0, NULL, "");
            int err = upipe_set_output(t, idx >= 0 ? sinks[idx] : NULL);
            int *cur = tk < 0 ? &super_out : &sub_out[tk];
            if (!ubase_check(err)) {
                /* no output on this pipe: the model forgets the connection it was told about */
                lab_ev(EV_DRIVER, tk < 0 ? D_SET_OUTPUT : D_SUB_SET_OUTPUT, -1, tid, 0, NULL, "");
                if (*cur >= 0) { sink_user[*cur] = -1; *cur = -1; upipe_set_output(t, NULL); }
                VH_COUNT("lc.set_output_refused");
                continue;
            }
            if (*cur >= 0) sink_user[*cur] = -1;
            *cur = idx; if (idx >= 0) sink_user[idx] = me;
            VH_COUNT("op.set_output");
        } else if (c < 56) {
            if (!t) continue;
            OP("%s%d.attach_upump_mgr", tk < 0 ? "super" : "sub", tk);
            upipe_attach_upump_mgr(t);
        } else if (c < 62) {
            if (!t) continue;
            OP("%s%d.attach_uclock", tk < 0 ? "super" : "sub", tk);
            upipe_attach_uclock(t);
        } else if (c < 80) {                                     /* a buffer of the kind the pipe accepted */
            if (!t || !t->mgr->upipe_input) continue;
            int kind = tk < 0 ? super_kind : sub_kind[tk];
            if (kind < 0 || (d->no_data & (1u << kind))) continue;
            struct uref *u = lc_buffer(kind, seq);
            OP("%s%d.input(%s,seq %" PRIu64 ")", tk < 0 ? "super" : "sub", tk, lk_name[kind], seq);
            lab_ev(EV_DRIVER, D_INPUT, (int)seq, 0, 0, NULL, "");
            upipe_input(t, u, NULL);
            seq++; S.inputs++;
            VH_COUNT("op.input"); vh_count_dyn("lc.inputs.%s", name);
        } else if (c < 88) {                                     /* the loop runs: sources, timers, idlers */
            OP("loop");
            lab_sink_burst = 0; lab_sink_burst_limit = 4000;
            unsigned n = mockloop_run(E.upump_mgr, R, 40, 4);
            lab_sink_burst_limit = 0;
            if (n) VH_COUNT("lc.loop_dispatches");
        } else if (c < 94 && tk >= 0) {                          /* release a sub-pipe */
            if (!subs[tk]) continue;
            OP("sub%d.release", tk);
            lab_ev(EV_DRIVER, D_SUB_RELEASE, tk, 0, 0, NULL, "");
            upipe_release(subs[tk]); subs[tk] = NULL; sub_kind[tk] = -1;
            if (sub_out[tk] >= 0) { sink_user[sub_out[tk]] = -1; sub_out[tk] = -1; }
            VH_COUNT("op.sub_release");
        } else if (c < 96 && super && d->sub) {                  /* the super-pipe goes first */
            OP("super.release");
            lab_ev(EV_DRIVER, D_RELEASE, super_id, 0, 0, NULL, "");
            upipe_release(super); super = NULL; super_kind = -1;
            VH_COUNT("op.super_released_before_subs");
        } else {
            if (!t) continue;
            struct uref *g = NULL; struct upipe *o = NULL;
            upipe_get_flow_def(t, &g); upipe_get_output(t, &o);
        }
    }
    /* teardown in random order, under the eyes of private handles of the
     * laboratory: does a pipe keep itself alive once the application is gone? */
    struct upipe *obs[LC_MAXSUB + 1] = { NULL };
    for (int k = 0; k < LC_MAXSUB; k++) if (subs[k]) obs[k] = upipe_use(subs[k]);
    if (super) obs[LC_MAXSUB] = upipe_use(super);
    if (super && vh_chance(R, 1, 2)) { OP("super.release"); lab_ev(EV_DRIVER, D_RELEASE, super_id, 0, 0, NULL, ""); upipe_release(super); super = NULL; }
    for (int k = 0; k < LC_MAXSUB; k++) if (subs[k]) { OP("sub%d.release(final)", k); upipe_release(subs[k]); subs[k] = NULL; }
    if (super) { OP("super.release(final)"); lab_ev(EV_DRIVER, D_RELEASE, super_id, 0, 0, NULL, ""); upipe_release(super); super = NULL; }
    lab_sink_burst = 0; lab_sink_burst_limit = 4000;
    mockloop_run(E.upump_mgr, R, 1000, 8);
    for (int k = 0; k <= LC_MAXSUB; k++) {
        if (!obs[k]) continue;
        if (!urefcount_single(obs[k]->refcount)) {
            /* same idiom as in the catalogue (release_pipe): a reference on itself
             * "to avoid disappearing before all packets have been sent", kept
             * until a manager request is answered */
            snprintf(key, sizeof(key), "c01:%s%s:alive-after-release:request-pending", name, k < LC_MAXSUB ? "_sub" : "");
            for (int q = 0; q < 4; q++) { lab_sink_set_request_mode(sinks[q], 1); lab_sink_provide_all(sinks[q]); }
            if (!urefcount_single(obs[k]->refcount)) {
                int cur = k < LC_MAXSUB ? sub_out[k] : super_out;
                int free_sink = -1;
                for (int q = 0; q < 4; q++) if (sink_user[q] == -1) free_sink = q;
                if (cur < 0 && free_sink >= 0) {
                    lab_sink_set_accept(sinks[free_sink], true);
                    lab_ev(EV_DRIVER, k < LC_MAXSUB ? D_SUB_SET_OUTPUT : D_SET_OUTPUT, sink_ids[free_sink], k < LC_MAXSUB ? sub_ids[k] : super_id, 0, NULL, "");
                    if (ubase_check(upipe_set_output(obs[k], sinks[free_sink]))) sink_user[free_sink] = 200;
                }
            }
            mockloop_run(E.upump_mgr, R, 1000, 8);
            if (urefcount_single(obs[k]->refcount)) {
                vh_violation_noabort(key, "the pipe outlives its last handle: it holds a reference on itself until a manager request is answered, which may never happen");
                VH_COUNT("c01.released_with_request_pending");
            }
            /* otherwise: seen again below, once the private handle is gone */
        }
        upipe_release(obs[k]);
    }
    mockloop_run(E.upump_mgr, R, 1000, 8);
    lab_sink_burst_limit = 0;
    /* Pipes that are still alive now (also those released earlier in the case,
     * on which no private handle was kept), youngest first: a sub-pipe keeps its
     * super-pipe alive.  One finding per pipe that keeps itself alive; then the
     * laboratory drops the references the pipe holds on itself, so that what it
     * still holds is not reported a second time as leaked probes, sinks and
     * buffers, and the rest of the accounting stays meaningful. */
    for (int p = lab_nprobes - 1; p >= 0; p--) {
        if (lab_probes[p].no_pipe || lab_probes[p].dead || !strncmp(lab_probes[p].name, "sink", 4)) continue;
        struct upipe *ghost = NULL;
        for (int i = 0; i < lab_nev && !ghost; i++)
            if (lab_log[i].kind == EV_PROBE && lab_log[i].a == p && lab_log[i].b == UPROBE_READY) ghost = (struct upipe *)lab_log[i].p;
        snprintf(key, sizeof(key), "c01:%s:alive-after-release", lab_probes[p].name);
        vh_violation_noabort(key, "the pipe never died although every application handle was released, the loop has run and every request was answered");
        VH_COUNT("lc.pipes_that_stay_alive");
        lab_probes[p].forced = true;
        for (int n = 0; ghost && n < 8 && !lab_probes[p].dead; n++) upipe_release(ghost);
        mockloop_run(E.upump_mgr, R, 1000, 8);
    }
    for (int k = 0; k < 4; k++) upipe_release(sinks[k]);
    mockloop_run(E.upump_mgr, R, 1000, 8);
    check_c04(&S);
    int probes_left = lab_probes_release();
    if (probes_left) { snprintf(key, sizeof(key), "c01:%s:probe-still-referenced", name); vh_violation(key, "%d probes still referenced after every pipe was released", probes_left); }
    long live = pooltrack_live();
    if (pooltrack_violations) vh_violation("c01:pool-discipline", "%s (pipe %s)", pooltrack_msg, name);
    if (live) { if (getenv("LAB_TRACE_POOL")) pooltrack_dump_live(); snprintf(key, sizeof(key), "c01:%s:objects-still-held", name); vh_violation(key, "%ld pooled objects still held after the pipe, its sub-pipes and all handles were released", live); }
    struct umem_mgr *umem_keep = umem_mgr_use(E.umem);
    struct cumem_stats *cst = cumem_stats(umem_keep);
    const char *bad_mgr = lab_env_fini();
    if (bad_mgr && strcmp(bad_mgr, "umem_mgr")) { snprintf(key, sizeof(key), "c01:%s:manager-still-referenced", name); vh_violation(key, "%s is not back to a single reference", bad_mgr); }
    if (cst->live) { snprintf(key, sizeof(key), "c01:%s:memory-still-allocated", name); vh_violation(key, "%ld umem blocks still allocated", (long)cst->live); }
    umem_mgr_release(umem_keep);
    VH_COUNT("c01.accounted_cases");
    VH_COUNT("lifecycle.cases");
}
