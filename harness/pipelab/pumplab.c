/* C13 — a pump fires only while started and not blocked.
 * Reference automaton (started, #blockers, status) stepped next to the real
 * upump_common code; back-end 1 = mock loop (records real_start/stop),
 * back-end 2 = the real upump_ev with callbacks wrapped by a monitor. */
#include "vh.h"
#include "mockloop.h"

#include "upipe/ubase.h"
#include "upipe/upump.h"
#include "upipe/upump_blocker.h"
#include "upump-ev/upump_ev.h"

#include <ev.h>
#include <stdlib.h>
#include <string.h>
#include <unistd.h>
#include <sys/eventfd.h>

static struct vh_rng *R;
static bool use_ev;
static struct upump_mgr *mgr;
static struct ev_loop *evloop;
static int ready_fd = -1;
static uint64_t case_hash;
static char opbuf[128];
static const char *opname = "";
#define OP(...) do { snprintf(opbuf, sizeof(opbuf), __VA_ARGS__); opname = opbuf; vh_tr("%s", opbuf); case_hash = vh_hash_bytes(case_hash, opbuf, strlen(opbuf)); } while (0)

#define MAXB 3

struct pm {                  /* one pump + its model */
    struct upump *pump;
    int kind;                /* 0 idler, 1 fd_read (always readable), 2 repeating timer, 3 one-shot timer */
    bool alive;
    bool started;
    int nblockers;
    bool status;
    bool expired;            /* one-shot timer fired since last (re)arming */
    struct upump_blocker *bl[MAXB];
    int fired;               /* callback invocations during the current dispatch */
    int bl_cb_runs, bl_outstanding_at_free;
    uint32_t gen;
    int reentrant;           /* action to perform inside the next callback */
};

static struct pm P;
static int viol_in_cb;
static char viol_msg[200];

static bool model_active(struct pm *p)
{
    return p->alive && p->started && p->nblockers == 0 && !(p->kind == 3 && p->expired);
}

static void blocker_cb(struct upump_blocker *b)
{
    struct pm *p = b->opaque;
    p->bl_cb_runs++;
    for (int i = 0; i < MAXB; i++) if (p->bl[i] == b) p->bl[i] = NULL;
    upump_blocker_free(b);      /* documented idiom: the blocker frees itself */
}

static void pump_cb(struct upump *pump)
{
    struct pm *p = pump->opaque;
    if (!p->alive || p->pump != pump) {
        viol_in_cb++; snprintf(viol_msg, sizeof(viol_msg), "callback invoked on a freed pump");
        return;
    }
    if (!p->started || p->nblockers) {
        viol_in_cb++; snprintf(viol_msg, sizeof(viol_msg), "callback invoked while %s (blockers %d)", p->started ? "blocked" : "stopped", p->nblockers);
    }
    p->fired++;
    if (p->kind == 3) p->expired = true;
    VH_COUNT("cb.invocations");
    /* re-entrant control from inside the callback */
    int a = p->reentrant;
    p->reentrant = 0;
    switch (a) {
        case 1: vh_tr("  [in cb] stop"); upump_stop(pump); p->started = false; VH_COUNT("cb.reentrant_stop"); break;
        case 2:
            vh_tr("  [in cb] free");
            p->bl_outstanding_at_free = p->nblockers; p->bl_cb_runs = 0;
            p->alive = false; p->started = false;
            upump_free(pump);
            p->nblockers = 0;
            VH_COUNT("cb.reentrant_free");
            break;
        case 3:
            if (p->nblockers < MAXB) {
                vh_tr("  [in cb] alloc_blocker");
                for (int i = 0; i < MAXB; i++) if (!p->bl[i]) { p->bl[i] = upump_blocker_alloc(pump, blocker_cb, p); break; }
                p->nblockers++;
                VH_COUNT("cb.reentrant_block");
            }
            break;
        case 4: vh_tr("  [in cb] restart"); upump_restart(pump); p->started = true; if (p->kind >= 2) p->expired = false; break;
        default: break;
    }
}

static void check_backend(void)
{
    if (viol_in_cb) { viol_in_cb = 0; vh_violation("c13:callback-while-inactive", "after %s: %s", opname, viol_msg); }
    if (!use_ev) {
        struct mockloop_stats *st = mockloop_stats(mgr);
        if (st->start_while_active) { st->start_while_active = 0; vh_violation("c13:backend-started-twice", "after %s: back-end start while already active", opname); }
        if (st->stop_while_inactive) { st->stop_while_inactive = 0; vh_violation("c13:backend-stopped-twice", "after %s: back-end stop while inactive", opname); }
        if (P.alive) {
            bool act = mockloop_pump_active(P.pump);
            if (act != model_active(&P))
                vh_violation(act ? "c13:active-while-should-not" : "c13:inactive-while-should-be",
                             "after %s: back-end %s, model started=%d blockers=%d expired=%d", opname, act ? "active" : "inactive", P.started, P.nblockers, P.expired);
        } else if (mockloop_nb_active(mgr))
            vh_violation("c13:active-after-free", "after %s: a freed pump is still active in the back-end", opname);
        VH_COUNT("check.state_compared");
    }
}

static void do_dispatch(void)
{
    OP("dispatch");
    P.fired = 0;
    bool expect = model_active(&P);
    if (P.alive && vh_chance(R, 1, 4)) P.reentrant = 1 + vh_below(R, P.kind >= 2 ? 4 : 3);
    if (use_ev) {
        ev_run(evloop, EVRUN_NOWAIT);
    } else {
        if (P.kind >= 2 && P.alive) mockloop_advance(mgr, 1000);
        mockloop_step(mgr, R);
    }
    P.reentrant = 0;
    if (expect && !P.fired)
        vh_violation("c13:inactive-while-should-be", "dispatch: pump started and unblocked (kind %d) did not fire", P.kind);
    if (!expect && P.fired)
        vh_violation("c13:callback-while-inactive", "dispatch: pump fired although model says inactive (started=%d blockers=%d)", P.started, P.nblockers);
    if (expect) VH_COUNT("dispatch.fired"); else VH_COUNT("dispatch.silent");
    if (!P.alive && P.bl_cb_runs != P.bl_outstanding_at_free)
        vh_violation("c13:blocker-notification", "pump freed with %d outstanding blockers, %d notified", P.bl_outstanding_at_free, P.bl_cb_runs);
}

static void alloc_pump(void)
{
    memset(&P, 0, sizeof(P));
    P.kind = vh_below(R, 4);
    OP("alloc(kind %d)", P.kind);
    switch (P.kind) {
        case 0: P.pump = upump_alloc_idler(mgr, pump_cb, &P, NULL); break;
        case 1: P.pump = upump_alloc_fd_read(mgr, pump_cb, &P, NULL, ready_fd); break;
        case 2: P.pump = upump_alloc_timer(mgr, pump_cb, &P, NULL, use_ev ? 0 : 10, use_ev ? 1 : 10); break;
        default: P.pump = upump_alloc_timer(mgr, pump_cb, &P, NULL, use_ev ? 0 : 10, 0); break;
    }
    if (!P.pump) vh_violation("c13:alloc", "pump allocation failed");
    P.alive = true; P.status = true;
}

static void run_case(struct vh_rng *r)
{
    R = r;
    case_hash = 0;
    viol_in_cb = 0;
    alloc_pump();
    check_backend();
    int nops = 25;
    int blocked_ops = 0;
    for (int i = 0; i < nops && P.alive; i++) {
        int c = vh_below(R, 100);
        if (c < 16) { OP("start"); upump_start(P.pump); if (!P.started && P.kind >= 2) P.expired = false; P.started = true; }
        else if (c < 28) { OP("stop"); upump_stop(P.pump); P.started = false; }
        else if (c < 34) {
            if (P.kind < 2) continue;      /* upump_restart is documented for timer pumps only */
            OP("restart"); upump_restart(P.pump);
            /* restart (re)arms timers only while unblocked */
            if (P.kind >= 2 && P.nblockers == 0) P.expired = false;
            else if (P.kind >= 2 && !P.started) P.expired = false;
            P.started = true;
        }
        else if (c < 42) {
            bool s = vh_chance(R, 1, 2);
            OP("set_status(%d)", s);
            /* documented as stop + start: re-arms an expired one-shot timer */
            upump_set_status(P.pump, s); P.status = s;
            if (P.started && P.nblockers == 0 && P.kind >= 2) P.expired = false;
        }
        else if (c < 46) {
            OP("get_status"); bool s = !P.status; upump_get_status(P.pump, &s);
            if (s != P.status) vh_violation("c13:status", "get_status returns %d, expected %d", s, P.status);
        }
        else if (c < 62) {
            if (P.nblockers < MAXB) {
                OP("alloc_blocker");
                for (int k = 0; k < MAXB; k++) if (!P.bl[k]) { P.bl[k] = upump_blocker_alloc(P.pump, blocker_cb, &P); if (!P.bl[k]) vh_violation("c13:alloc", "blocker alloc failed"); break; }
                P.nblockers++;
            }
        }
        else if (c < 76) {
            if (P.nblockers) {
                int k; do k = vh_below(R, MAXB); while (!P.bl[k]);
                OP("free_blocker");
                upump_blocker_free(P.bl[k]); P.bl[k] = NULL; P.nblockers--;
                /* releasing the last blocker re-arms the back-end */
                if (P.nblockers == 0 && P.started && P.kind >= 2) P.expired = false;
            }
        }
        else if (c < 96) do_dispatch();
        else {
            OP("free");
            P.bl_outstanding_at_free = P.nblockers; P.bl_cb_runs = 0;
            P.alive = false; P.started = false;
            upump_free(P.pump);
            if (P.bl_cb_runs != P.bl_outstanding_at_free)
                vh_violation("c13:blocker-notification", "pump freed with %d outstanding blockers, %d notified", P.bl_outstanding_at_free, P.bl_cb_runs);
            P.nblockers = 0;
            VH_COUNT("op.free");
            if (P.bl_outstanding_at_free) VH_COUNT("op.free_with_blockers");
        }
        if (P.nblockers) blocked_ops++;
        check_backend();
        /* after a free nothing may fire any more */
        if (!P.alive) { do_dispatch(); check_backend(); }
    }
    if (P.alive) {
        P.bl_outstanding_at_free = P.nblockers; P.bl_cb_runs = 0;
        P.alive = false;
        OP("final free");
        upump_free(P.pump);
        if (P.bl_cb_runs != P.bl_outstanding_at_free)
            vh_violation("c13:blocker-notification", "pump freed with %d outstanding blockers, %d notified", P.bl_outstanding_at_free, P.bl_cb_runs);
        P.fired = 0;
        do_dispatch();
        check_backend();
    }
    if (blocked_ops) vh_nontrivial(case_hash);
    if (vh_want_sample()) vh_sample("%s", vh_trace);
}

static void init(void)
{
    use_ev = !strcmp(vh_opts.mode, "ev");
    ready_fd = eventfd(1, EFD_NONBLOCK);
    if (use_ev) {
        evloop = ev_loop_new(0);
        mgr = upump_ev_mgr_alloc(evloop, 2, 2);
    } else
        mgr = mockloop_mgr_alloc(2, 2);
}

static void fini(void)
{
    upump_mgr_release(mgr);
    if (evloop) ev_loop_destroy(evloop);
    close(ready_fd);
}

static const struct vh_lab lab = { "pumplab", init, run_case, fini };
int main(int argc, char **argv) { return vh_main(argc, argv, &lab); }
