/* E3 — pipe laboratory driver.  One execution feeds several oracles:
 *   C04 event-order automaton, C05 exactly-once/in-order/transform ledger,
 *   C01 ownership accounting (pools, umem, refcounts), C20 option shadow +
 *   differential twin run, C12 request registration model.
 * The driver behaves like a well-behaved upstream (see DESIGN.md 2.4). */
#include "lab.h"

#include "upipe/umem.h"
#include "upipe/udict.h"
#include "upipe/uref_std.h"
#include "upipe/uref_block.h"
#include "upipe/uref_block_flow.h"
#include "upipe/uref_flow.h"
#include "upipe/uref_clock.h"
#include "upipe/uref_attr.h"
#include "upipe/uref_dump.h"
#include "upipe/ubuf_block.h"
#include "upipe/upump.h"

#include "upipe-modules/upipe_idem.h"
#include "upipe-modules/upipe_null.h"
#include "upipe-modules/upipe_skip.h"
#include "upipe-modules/upipe_htons.h"
#include "upipe-modules/upipe_delay.h"
#include "upipe-modules/upipe_setattr.h"
#include "upipe-modules/upipe_setflowdef.h"
#include "upipe-modules/upipe_setrap.h"
#include "upipe-modules/upipe_match_attr.h"
#include "upipe-modules/upipe_probe_uref.h"
#include "upipe-modules/upipe_nodemux.h"
#include "upipe-modules/upipe_noclock.h"
#include "upipe-modules/upipe_dup.h"
#include "upipe-modules/upipe_aggregate.h"
#include "upipe-modules/upipe_chunk_stream.h"
#include "upipe-modules/upipe_genaux.h"
#include "upipe-modules/upipe_time_limit.h"
#include "upipe-modules/upipe_buffer.h"
#include "upipe-modules/upipe_rate_limit.h"
#include "upipe-modules/upipe_queue_sink.h"
#include "upipe-modules/upipe_queue_source.h"
#include "upipe-modules/upipe_dump.h"
#include "upipe-modules/upipe_multicat_probe.h"
#include "upipe-modules/upipe_discard_blocking.h"
#include "upipe-modules/upipe_burst.h"
#include "upipe-modules/upipe_m3u_reader.h"
#include "upipe-modules/upipe_rtp_pcm_unpack.h"
#include "upipe-modules/upipe_rtp_pcm_pack.h"
#include "upipe/uref_sound_flow.h"
#include "upipe-ts/upipe_ts_check.h"
#include "upipe-ts/upipe_ts_sync.h"
#include "upipe-ts/upipe_ts_align.h"
#include "upipe-modules/upipe_dejitter.h"
#include "upipe-ts/upipe_ts_decaps.h"
#include "upipe-ts/upipe_ts_pes_decaps.h"
#include "upipe-ts/upipe_ts_psi_merge.h"
#include "upipe-ts/upipe_ts_pid_filter.h"
#include "upipe-ts/upipe_ts_psi_split.h"
#include "upipe-ts/upipe_ts_psi_join.h"
#include "upipe-ts/uref_ts_flow.h"
#include "upipe/upipe_helper_upipe.h"
#include "upipe-framers/upipe_h264_framer.h"
#include "upipe-framers/upipe_h265_framer.h"

#include <stdlib.h>
#include <string.h>
#include <inttypes.h>
#include <sys/eventfd.h>

static struct vh_rng *R;
static uint64_t case_hash;
static char opbuf[200];
static const char *opname = "";
#define OP(...) do { snprintf(opbuf, sizeof(opbuf), __VA_ARGS__); opname = opbuf; vh_tr("%s", opbuf); case_hash = vh_hash_bytes(case_hash, opbuf, strlen(opbuf)); } while (0)

enum { MODE_C01, MODE_C04, MODE_C05, MODE_C20, MODE_C12, MODE_C14 };
static int mode;

/* ------------------------------------------------------------------ */
/* catalogue                                                          */
/* ------------------------------------------------------------------ */
enum klass {
    K_IDENTITY,     /* one output per input, payload identical */
    K_TRANSFORM,    /* one output per input, payload = xform(input) */
    K_FILTER,       /* each input forwarded unchanged or freed */
    K_SINK,         /* no output */
    K_DUP,          /* main + sub outputs each get every input */
    K_REGROUP,      /* byte-stream regrouping (C14) */
    K_HOLD,         /* may hold input: asynchronous delivery, in order */
    K_OTHER,        /* generic oracles only */
};

struct st;      /* per-case pipe state */
struct desc {
    const char *name;
    struct upipe_mgr *(*mgr_alloc)(void);
    enum klass klass;
    const char *def;            /* accepted flow definition (block.<suffix>) */
    const char *bad_def;        /* a definition the pipe must reject, or NULL when it accepts anything */
    void (*setup)(struct st *);         /* after allocation */
    void (*rand_ctl)(struct st *);      /* a pipe-specific control call (options) */
    /* expected payload: returns false when the output must be absent (filtered) */
    bool (*expect)(struct st *, const uint8_t *in, size_t n, uint64_t seq, uint8_t *out, size_t *outn);
    bool attrs_change;          /* dictionary legitimately differs from the input's */
    bool needs_loop;            /* uses pumps: run the mock loop */
    const struct nopt *opts;    /* numeric options with getter and setter (C20) */
    int nopts;
    bool flowdef_passthrough;   /* get_flow_def returns the definition that was set */
    /* payload generator for pipes that parse their input (generic oracles only) */
    size_t (*gen_payload)(struct st *, uint8_t *buf, size_t max, struct uref *u_attrs);
    /* allocator for pipes that are not allocated with upipe_void_alloc */
    struct upipe *(*alloc)(struct st *, struct upipe_mgr *, struct uprobe *);
    /* attributes the flow definition needs besides its name */
    void (*amend_def)(struct uref *fd);
    /* the pipe maps its whole input with one uref_block_read (reads past the
     * first segment otherwise: a defect outside the listed properties, see DESIGN.md) */
    bool linear_input_only;
};

/* numeric option with a getter and a setter */
struct nopt {
    const char *name;
    int (*set)(struct upipe *, uint64_t v);
    int (*get)(struct upipe *, uint64_t *v);
    uint64_t (*gen)(struct vh_rng *);
    int (*valid)(uint64_t v);           /* 1 must be accepted, 0 must be rejected; NULL = always accepted */
};
#define MAXOPT 4

#define MAXSUB 3
struct st {
    const struct desc *d;
    struct upipe *pipe;
    int pipe_id;                /* probe identity */
    struct upipe *sinks[4];
    int sink_ids[4];
    int cur_out;                /* index into sinks, -1 none */
    bool sink_accept[4];
    bool flow_ok;               /* the pipe has accepted a flow definition */
    uint64_t cur_def_seed;
    /* sub-pipes (dup) */
    struct upipe *subs[MAXSUB];
    int sub_ids[MAXSUB];
    int sub_out[MAXSUB];        /* sink index or -1 */
    int nsubs;
    /* options shadow */
    uint64_t skip_offset;
    int64_t delay;
    uint64_t rap;
    uint64_t match_min, match_max; bool match_set;
    bool probe_drop;
    int plug_idx;               /* >= 0: the probe answers the next need_output by plugging this sink */
    bool plugged;
    uint64_t setattr_seed; bool setattr_set;
    struct uref *setattr_dict;
    uint64_t optv[MAXOPT];       /* shadow of numeric options (baseline read right after allocation) */
    uint64_t flowdef_hash;       /* hash of the last accepted input flow definition */
    uint64_t setflowdef_hash; bool setflowdef_set;
    int (*genaux_fn)(struct uref *, uint64_t *);
    bool released;
    uint64_t next_seq;
    uint64_t inputs, outputs_expected;
    uint64_t agg_input_size;    /* aggregate: unit size announced by the accepted flow definition (0 = none) */
    unsigned gen_cc;            /* payload generators: continuity counter / position */
    bool gen_start;             /* the generated payload begins a unit (block start attribute) */
};
static struct st S;

/* --- reference transforms --- */
static bool x_identity(struct st *s, const uint8_t *in, size_t n, uint64_t seq, uint8_t *out, size_t *outn)
{ (void)s; (void)seq; memcpy(out, in, n); *outn = n; return true; }

static bool x_skip(struct st *s, const uint8_t *in, size_t n, uint64_t seq, uint8_t *out, size_t *outn)
{
    (void)seq;
    size_t off = s->skip_offset <= n ? s->skip_offset : 0;   /* cannot skip more than there is: forwarded as is */
    memcpy(out, in + off, n - off); *outn = n - off;
    return true;
}

static bool x_htons(struct st *s, const uint8_t *in, size_t n, uint64_t seq, uint8_t *out, size_t *outn)
{
    (void)s; (void)seq;
    memcpy(out, in, n);
    for (size_t i = 0; i + 1 < n; i += 2) { out[i] = in[i + 1]; out[i + 1] = in[i]; }
    *outn = n;
    return true;
}

static bool x_match(struct st *s, const uint8_t *in, size_t n, uint64_t seq, uint8_t *out, size_t *outn)
{
    memcpy(out, in, n); *outn = n;
    if (!s->match_set) return true;
    return seq >= s->match_min && seq <= s->match_max;
}

static bool x_probe(struct st *s, const uint8_t *in, size_t n, uint64_t seq, uint8_t *out, size_t *outn)
{ (void)seq; memcpy(out, in, n); *outn = n; return !s->probe_drop; }

/* --- setups / controls --- */
static int match_seq(struct uref *uref, uint64_t min, uint64_t max)
{
    uint64_t v;
    if (!ubase_check(uref_attr_get_unsigned(uref, &v, UDICT_TYPE_UNSIGNED, "x.seq"))) return UBASE_ERR_INVALID;
    return (v >= min && v <= max) ? UBASE_ERR_NONE : UBASE_ERR_INVALID;
}

static void ctl_match(struct st *s)
{
    uint64_t a = vh_below(R, 30), b = a + vh_below(R, 30);
    OP("match_attr(%" PRIu64 ",%" PRIu64 ")", a, b);
    upipe_match_attr_set_uint64_t(s->pipe, match_seq);
    upipe_match_attr_set_boundaries(s->pipe, a, b);
    s->match_min = a; s->match_max = b; s->match_set = true;
}
static void ctl_probe(struct st *s)
{
    s->probe_drop = vh_chance(R, 1, 3);
    OP("probe_uref drop=%d", s->probe_drop);
}
static struct uref *make_dict(uint64_t seed)
{
    struct uref *d = uref_alloc_control(E.uref_mgr);
    struct vh_rng r; vh_rng_seed(&r, seed);
    int n = 1 + vh_below(&r, 3);
    for (int i = 0; i < n; i++) {
        char name[16]; snprintf(name, sizeof(name), "y.a%u", vh_below(&r, 4));
        if (vh_chance(&r, 1, 2)) uref_attr_set_unsigned(d, vh_below(&r, 1000), UDICT_TYPE_UNSIGNED, name);
        else { char v[12]; snprintf(v, sizeof(v), "v%u", vh_below(&r, 100)); uref_attr_set_string(d, v, UDICT_TYPE_STRING, name); }
    }
    return d;
}
static void ctl_setattr(struct st *s)
{
    uint64_t seed = vh_rand(R);
    if (vh_chance(R, 1, 4)) {
        /* no dictionary any more */
        OP("setattr_set_dict(NULL)");
        if (ubase_check(upipe_setattr_set_dict(s->pipe, NULL))) {
            uref_free(s->setattr_dict);
            s->setattr_dict = NULL;
            s->setattr_set = false;
            VH_COUNT("c20.setattr_cleared");
        }
        return;
    }
    struct uref *d = make_dict(seed);
    OP("setattr_set_dict(%" PRIx64 ")", seed & 0xffff);
    if (ubase_check(upipe_setattr_set_dict(s->pipe, d))) {
        uref_free(s->setattr_dict);
        s->setattr_dict = d;
        s->setattr_set = true;
    } else uref_free(d);
}
static void ctl_setflowdef(struct st *s)
{
    uint64_t seed = vh_rand(R);
    struct uref *d = make_dict(seed);
    OP("setflowdef_set_dict(%" PRIx64 ")", seed & 0xffff);
    if (ubase_check(upipe_setflowdef_set_dict(s->pipe, d))) { s->setflowdef_hash = lab_dict_hash(d); s->setflowdef_set = true; }
    uref_free(d);
}
static void ctl_genaux(struct st *s)
{
    int (*fn)(struct uref *, uint64_t *) = vh_chance(R, 1, 2) ? uref_clock_get_cr_sys : uref_clock_get_pts_sys;
    OP("genaux_set_getattr(%s)", fn == uref_clock_get_cr_sys ? "cr_sys" : "pts_sys");
    if (ubase_check(upipe_genaux_set_getattr(s->pipe, fn))) s->genaux_fn = fn;
}


/* --- numeric options (C20) --- */
#define SENTINEL UINT64_C(0xA5A5A5A55A5A5A5A)
static int o_skip_set(struct upipe *u, uint64_t v) { return upipe_skip_set_offset(u, (size_t)v); }
static int o_skip_get(struct upipe *u, uint64_t *v) { size_t o = (size_t)SENTINEL; int e = upipe_skip_get_offset(u, &o); *v = o; return e; }
static uint64_t g_small(struct vh_rng *r) { return vh_below(r, 12); }
static int o_delay_set(struct upipe *u, uint64_t v) { return upipe_delay_set_delay(u, (int64_t)v); }
static int o_delay_get(struct upipe *u, uint64_t *v) { int64_t d = (int64_t)SENTINEL; int e = upipe_delay_get_delay(u, &d); *v = (uint64_t)d; return e; }
static uint64_t g_delay(struct vh_rng *r) { return vh_chance(r, 1, 4) ? 0 : (uint64_t)vh_range(r, -1000, 100000); }
static int o_rap_set(struct upipe *u, uint64_t v) { return upipe_setrap_set_rap(u, v); }
static int o_rap_get(struct upipe *u, uint64_t *v) { *v = SENTINEL; return upipe_setrap_get_rap(u, v); }
static uint64_t g_rap(struct vh_rng *r) { return vh_chance(r, 1, 4) ? UINT64_MAX : vh_below(r, 1000); }
static int o_agg_set(struct upipe *u, uint64_t v) { return upipe_set_output_size(u, (unsigned)v); }
static int o_agg_get(struct upipe *u, uint64_t *v) { unsigned o = (unsigned)SENTINEL; int e = upipe_get_output_size(u, &o); *v = o; return e; }
static uint64_t g_mtu(struct vh_rng *r) { return 1 + vh_below(r, 64); }
static int o_chunk_set(struct upipe *u, uint64_t v) { return upipe_chunk_stream_set_mtu(u, (unsigned)(v >> 32), (unsigned)v); }
static int o_chunk_get(struct upipe *u, uint64_t *v) { unsigned m = (unsigned)SENTINEL, a = (unsigned)SENTINEL; int e = upipe_chunk_stream_get_mtu(u, &m, &a); *v = ((uint64_t)m << 32) | a; return e; }
static uint64_t g_chunk(struct vh_rng *r) { uint64_t m = vh_below(r, 66), a = vh_chance(r, 1, 6) ? vh_below(r, 70) : (m ? vh_below(r, (uint32_t)m) + (vh_chance(r, 1, 8) ? 1 : 0) : 0); return (m << 32) | a; }
static int v_chunk(uint64_t v) { uint64_t m = v >> 32, a = v & 0xffffffff; return !(m == 0 || a == 0 || a >= m); }
static int o_tl_set(struct upipe *u, uint64_t v) { return upipe_time_limit_set_limit(u, v); }
static int o_tl_get(struct upipe *u, uint64_t *v) { *v = SENTINEL; return upipe_time_limit_get_limit(u, v); }
static uint64_t g_time(struct vh_rng *r) { return vh_below(r, 100000); }
static int o_bmax_set(struct upipe *u, uint64_t v) { return upipe_buffer_set_max_size(u, v); }
static int o_bmax_get(struct upipe *u, uint64_t *v) { *v = SENTINEL; return upipe_buffer_get_max_size(u, v); }
static int o_blow_set(struct upipe *u, uint64_t v) { return upipe_buffer_set_low_limit(u, v); }
static int o_blow_get(struct upipe *u, uint64_t *v) { *v = SENTINEL; return upipe_buffer_get_low_limit(u, v); }
static int o_bhigh_set(struct upipe *u, uint64_t v) { return upipe_buffer_set_high_limit(u, v); }
static int o_bhigh_get(struct upipe *u, uint64_t *v) { *v = SENTINEL; return upipe_buffer_get_high_limit(u, v); }
static uint64_t g_bsize(struct vh_rng *r) { return 1 + vh_below(r, 4000); }
static int o_rl_set(struct upipe *u, uint64_t v) { return upipe_rate_limit_set_limit(u, v); }
static int o_rl_get(struct upipe *u, uint64_t *v) { *v = SENTINEL; return upipe_rate_limit_get_limit(u, v); }
static uint64_t g_rl(struct vh_rng *r) { return 1 + vh_below(r, 100000); }
static int o_rd_set(struct upipe *u, uint64_t v) { return upipe_rate_limit_set_duration(u, v); }
static int o_rd_get(struct upipe *u, uint64_t *v) { *v = SENTINEL; return upipe_rate_limit_get_duration(u, v); }
static uint64_t g_rd(struct vh_rng *r) { return 1 + vh_below(r, 1000000); }

static const struct nopt opts_skip[] = { { "offset", o_skip_set, o_skip_get, g_small, NULL } };
static const struct nopt opts_delay[] = { { "delay", o_delay_set, o_delay_get, g_delay, NULL } };
static const struct nopt opts_setrap[] = { { "rap", o_rap_set, o_rap_get, g_rap, NULL } };
static const struct nopt opts_agg[] = { { "output_size", o_agg_set, o_agg_get, g_mtu, NULL } };
static const struct nopt opts_chunk[] = { { "mtu_align", o_chunk_set, o_chunk_get, g_chunk, v_chunk } };
static const struct nopt opts_tl[] = { { "limit", o_tl_set, o_tl_get, g_time, NULL } };
static const struct nopt opts_buffer[] = { { "max_size", o_bmax_set, o_bmax_get, g_bsize, NULL }, { "low", o_blow_set, o_blow_get, g_bsize, NULL }, { "high", o_bhigh_set, o_bhigh_get, g_bsize, NULL } };
static const struct nopt opts_rl[] = { { "limit", o_rl_set, o_rl_get, g_rl, NULL }, { "duration", o_rd_set, o_rd_get, g_rd, NULL } };


/* --- more numeric options --- */
static int o_rot_set(struct upipe *u, uint64_t v) { return upipe_multicat_probe_set_rotate(u, v >> 32, v & 0xffffffff); }
static int o_rot_get(struct upipe *u, uint64_t *v) { uint64_t r = SENTINEL, o = SENTINEL; int e = upipe_multicat_probe_get_rotate(u, &r, &o); *v = (r << 32) | (o & 0xffffffff); return e; }
static uint64_t g_rot(struct vh_rng *r) { uint64_t i = vh_chance(r, 1, 6) ? 0 : 1 + vh_below(r, 100000), o = vh_below(r, 5000); return (i << 32) | o; }
static int v_rot(uint64_t v) { return (v >> 32) >= 1; }
static int o_maxlen_set(struct upipe *u, uint64_t v) { return upipe_set_max_length(u, (unsigned)v); }
static int o_maxlen_get(struct upipe *u, uint64_t *v) { unsigned m = (unsigned)SENTINEL; int e = upipe_get_max_length(u, &m); *v = m; return e; }
static uint64_t g_maxlen(struct vh_rng *r) { return vh_below(r, 6); }
static int o_sync_set(struct upipe *u, uint64_t v) { return upipe_ts_sync_set_sync(u, (int)(int64_t)v); }
static int o_sync_get(struct upipe *u, uint64_t *v) { int n = (int)SENTINEL; int e = upipe_ts_sync_get_sync(u, &n); *v = (uint64_t)(int64_t)n; return e; }
static uint64_t g_sync(struct vh_rng *r) { return vh_chance(r, 1, 4) ? (uint64_t)(int64_t)vh_range(r, -2, 1) : 2 + vh_below(r, 5); }
static int v_sync(uint64_t v) { return (int64_t)v >= 2; }
static uint64_t g_tssize(struct vh_rng *r) { static const unsigned z[] = { 188, 192, 204, 188 }; return z[vh_below(r, 4)]; }
static const struct nopt opts_ts_sync[] = { { "sync", o_sync_set, o_sync_get, g_sync, v_sync }, { "output_size", o_agg_set, o_agg_get, g_tssize, NULL } };
static const struct nopt opts_ts_size[] = { { "output_size", o_agg_set, o_agg_get, g_tssize, NULL } };
static const struct nopt opts_rotate[] = { { "rotate", o_rot_set, o_rot_get, g_rot, v_rot } };
static const struct nopt opts_maxlen[] = { { "max_length", o_maxlen_set, o_maxlen_get, g_maxlen, NULL } };

/* --- payload generators for pipes that parse their input (generic oracles only) --- */
static size_t gen_ts_packet(struct st *s, uint8_t *b, size_t max, struct uref *u)
{
    (void)max; (void)u;
    size_t n = vh_chance(R, 1, 25) ? vh_below(R, 260) : 188;
    for (size_t i = 0; i < n; i++) b[i] = (uint8_t)vh_rand(R);
    if (n < 4) return n;
    b[0] = vh_chance(R, 1, 30) ? (uint8_t)vh_rand(R) : 0x47;
    int afc = vh_below(R, 100); afc = afc < 60 ? 1 : afc < 85 ? 3 : afc < 95 ? 2 : 0;
    if (afc & 1) { if (vh_chance(R, 1, 15)) s->gen_cc += 1 + vh_below(R, 14); else if (!vh_chance(R, 1, 15)) s->gen_cc++; }
    b[1] = (uint8_t)((vh_chance(R, 1, 8) ? 0x40 : 0) | (vh_chance(R, 1, 40) ? 0x80 : 0) | 0x01);
    b[2] = 0x00;
    b[3] = (uint8_t)((afc << 4) | (s->gen_cc & 0xf));
    if ((afc & 2) && n > 5) {
        int len = afc == 2 ? (vh_chance(R, 1, 10) ? (int)vh_below(R, 256) : 183) : (vh_chance(R, 1, 20) ? 184 + (int)vh_below(R, 72) : (int)vh_below(R, 183));
        b[4] = (uint8_t)len;
        if (len >= 1) b[5] = (uint8_t)(vh_rand(R) & (len >= 7 ? 0xff : 0xef));
    }
    return n;
}
/* arbitrary pieces of a TS stream (packets of 188 octets, occasional garbage) */
static size_t gen_ts_stream(struct st *s, uint8_t *b, size_t max, struct uref *u)
{
    (void)u;
    size_t n = vh_chance(R, 1, 10) ? vh_below(R, 3) : vh_chance(R, 1, 2) ? 188 * (1 + vh_below(R, 7)) : 1 + vh_below(R, 700);
    if (n > max) n = max;
    for (size_t i = 0; i < n; i++) {
        if (vh_chance(R, 1, 3000)) s->gen_cc += 1 + vh_below(R, 187);     /* lost octets: resynchronisation */
        b[i] = s->gen_cc % 188 == 0 ? 0x47 : (uint8_t)vh_rand(R);
        s->gen_cc++;
    }
    return n;
}
static size_t gen_pes_payload(struct st *s, uint8_t *b, size_t max, struct uref *u)
{
    (void)max; (void)u;
    size_t n = 1 + vh_below(R, 184);
    for (size_t i = 0; i < n; i++) b[i] = (uint8_t)vh_rand(R);
    if (vh_chance(R, 1, 3)) {
        s->gen_start = true;
        if (n >= 9 && !vh_chance(R, 1, 12)) {
            b[0] = 0; b[1] = 0; b[2] = 1; b[3] = vh_chance(R, 1, 6) ? 0xbf : 0xe0;
            size_t plen = vh_chance(R, 1, 4) ? 0 : vh_below(R, 600);
            b[4] = (uint8_t)(plen >> 8); b[5] = (uint8_t)plen;
            b[6] = 0x80; int pd = vh_below(R, 4); b[7] = (uint8_t)(pd << 6);
            b[8] = vh_chance(R, 1, 10) ? (uint8_t)vh_rand(R) : (uint8_t)(pd == 2 ? 5 : pd == 3 ? 10 : vh_below(R, 4));
            if (n >= 14 && pd >= 2) { b[9] = (uint8_t)((pd << 4) | 1 | (vh_rand(R) & 0x0e)); b[11] |= 1; b[13] |= 1; }
        }
    }
    return n;
}
static size_t gen_psi_payload(struct st *s, uint8_t *b, size_t max, struct uref *u)
{
    (void)max; (void)u;
    size_t n = 1 + vh_below(R, 184);
    for (size_t i = 0; i < n; i++) b[i] = (uint8_t)vh_rand(R);
    if (vh_chance(R, 1, 2)) {
        s->gen_start = true;
        size_t pos = 0;
        b[pos++] = vh_chance(R, 1, 3) ? (uint8_t)vh_below(R, (uint32_t)n) : 0;     /* pointer_field */
        pos += b[0];
        while (pos + 3 <= n && vh_chance(R, 3, 4)) {
            size_t len = vh_chance(R, 1, 5) ? vh_below(R, 1022) : vh_below(R, 40);
            b[pos] = (uint8_t)vh_below(R, 255);
            b[pos + 1] = (uint8_t)(0x30 | (vh_chance(R, 1, 2) ? 0x80 : 0) | (len >> 8));
            b[pos + 2] = (uint8_t)len;
            pos += 3 + len;
        }
        for (; pos < n; pos++) b[pos] = 0xff;
    }
    return n;
}
static size_t gen_m3u_text(struct st *s, uint8_t *b, size_t max, struct uref *u)
{
    (void)s; (void)u;
    static const char *lines[] = { "#EXTM3U", "#EXT-X-VERSION:3", "#EXT-X-TARGETDURATION:10", "#EXTINF:9.5,title", "#EXTINF:10,",
        "http://host/seg1.ts", "seg2.ts", "#EXT-X-STREAM-INF:PROGRAM-ID=1,BANDWIDTH=1280000,CODECS=\"avc1.42e00a,mp4a.40.2\",RESOLUTION=640x360",
        "#EXT-X-MEDIA-SEQUENCE:7", "#EXT-X-ENDLIST", "#EXT-X-BYTERANGE:1000@2000", "#EXT-X-BYTERANGE:10",
        "#EXT-X-KEY:METHOD=AES-128,URI=\"https://k/key\",IV=0x000102030405060708090a0b0c0d0e0f", "#EXT-X-KEY:METHOD=NONE",
        "#EXT-X-MEDIA:TYPE=AUDIO,GROUP-ID=\"aac\",NAME=\"en\",DEFAULT=YES,AUTOSELECT=YES,LANGUAGE=\"en\",URI=\"a.m3u8\"",
        "#EXT-X-PLAYLIST-TYPE:VOD", "#EXT-X-UNKNOWN:1", "", "# comment", "#EXTINF:", "#EXT-X-STREAM-INF:", "#EXT-X-KEY:", "#EXT-X-BYTERANGE:@" };
    size_t n = 0;
    int nl = vh_below(R, 5);
    for (int i = 0; i < nl; i++) {
        const char *l = lines[vh_below(R, sizeof(lines) / sizeof(lines[0]))];
        size_t ln = strlen(l);
        if (vh_chance(R, 1, 8)) ln = vh_below(R, (uint32_t)ln + 1);           /* line cut between buffers */
        if (n + ln + 2 > max) break;
        memcpy(b + n, l, ln); n += ln;
        if (!vh_chance(R, 1, 8)) { if (vh_chance(R, 1, 4)) b[n++] = '\r'; b[n++] = '\n'; }
    }
    if (vh_chance(R, 1, 12) && n < max) b[n++] = (uint8_t)vh_rand(R);
    return n;
}
static size_t gen_annexb(struct st *s, uint8_t *b, size_t max, struct uref *u)
{
    (void)max; (void)u;
    bool h265 = !strcmp(s->d->name, "h265_framer");
    size_t n = 0;
    int nn = vh_below(R, 4);
    for (int k = 0; k < nn; k++) {
        if (vh_chance(R, 1, 2)) b[n++] = 0;
        b[n++] = 0; b[n++] = 0; b[n++] = 1;
        static const uint8_t t264[] = { 0x67, 0x68, 0x65, 0x41, 0x09, 0x06, 0x01, 0x0c };
        static const uint8_t t265[] = { 0x40, 0x42, 0x44, 0x26, 0x02, 0x46, 0x4e, 0x00 };
        b[n++] = h265 ? t265[vh_below(R, 8)] : t264[vh_below(R, 8)];
        if (h265) b[n++] = 1;
        size_t len = vh_below(R, 40);
        for (size_t i = 0; i < len; i++) b[n++] = vh_chance(R, 1, 5) ? 0 : (uint8_t)vh_rand(R);
    }
    if (vh_chance(R, 1, 3)) { size_t len = vh_below(R, 30); for (size_t i = 0; i < len; i++) b[n++] = (uint8_t)vh_rand(R); }
    return n;
}

/* generic numeric option setter: keeps the shadow, judges acceptance */
static bool skip_rejected;
static void ctl_nopt(struct st *s)
{
    const struct desc *d = s->d;
    if (!d->nopts) return;
    int k = vh_below(R, d->nopts);
    const struct nopt *o = &d->opts[k];
    uint64_t v = o->gen(R);
    int must = o->valid ? o->valid(v) : 1;
    if (skip_rejected && must == 0) { VH_COUNT("c20.rejected_call_skipped"); return; }
    OP("%s.set_%s(%" PRIu64 ")", d->name, o->name, v);
    int err = o->set(s->pipe, v);
    char key[96];
    if (must == 1 && !ubase_check(err)) { snprintf(key, sizeof(key), "c20:%s:%s:valid-value-rejected", d->name, o->name); vh_violation(key, "%s returned %d", opname, err); }
    if (must == 0 && ubase_check(err)) { snprintf(key, sizeof(key), "c20:%s:%s:invalid-value-accepted", d->name, o->name); vh_violation(key, "%s accepted", opname); }
    if (ubase_check(err)) {
        s->optv[k] = v;
        if (d->opts == opts_skip) s->skip_offset = v;
        if (d->opts == opts_delay) s->delay = (int64_t)v;
        if (d->opts == opts_setrap) s->rap = v;
        VH_COUNT("c20.setter_accepted");
    } else VH_COUNT("c20.setter_rejected");
}

/* queue sink + queue source in one thread: the data path under test is
 * qsink -> uqueue -> qsrc -> sink 3; the generic set_output() calls only move the
 * pseudo-output pointer of the queue sink */
static struct upipe *alloc_qsink(struct st *s, struct upipe_mgr *mgr, struct uprobe *probe)
{
    struct upipe_mgr *qm = upipe_qsrc_mgr_alloc();
    unsigned len = 1 + vh_below(R, 4);
    s->subs[0] = upipe_qsrc_alloc(qm, lab_probe_new("qsrc", &s->sub_ids[0]), len);
    upipe_mgr_release(qm);
    if (!s->subs[0]) return NULL;
    s->nsubs = 1;
    s->sub_out[0] = 3;
    lab_ev(EV_DRIVER, 8 /* D_SUB_SET_OUTPUT */, s->sink_ids[3], s->sub_ids[0], 0, NULL, "");
    upipe_set_output(s->subs[0], s->sinks[3]);
    vh_tr("qsrc length %u", len);
    return upipe_qsink_alloc(mgr, probe, s->subs[0]);
}

static void amend_pcm(struct uref *fd)
{
    uref_sound_flow_set_rate(fd, 48000);
    uref_sound_flow_set_channels(fd, 2);
}
static void amend_s32(struct uref *fd)
{
    uref_sound_flow_set_rate(fd, 48000);
    uref_sound_flow_set_channels(fd, 2);
    uref_sound_flow_set_planes(fd, 0);
    uref_sound_flow_add_plane(fd, "all");
    uref_sound_flow_set_sample_size(fd, 8);
}
/* 24-bit big-endian stereo samples: mostly whole frames of 6 octets */
static size_t gen_pcm24(struct st *s, uint8_t *b, size_t max, struct uref *u)
{
    (void)s; (void)max; (void)u;
    size_t n = 6 * vh_below(R, 40);
    if (vh_chance(R, 1, 10)) n += vh_below(R, 6);
    for (size_t i = 0; i < n; i++) b[i] = (uint8_t)vh_rand(R);
    return n;
}

/* aggregate takes the size of its input units from the flow definition when it is there */
static void amend_agg(struct uref *fd)
{
    uint64_t seed = 0;
    uref_attr_get_unsigned(fd, &seed, UDICT_TYPE_UNSIGNED, "x.defseed");
    if (seed == 2) uref_block_flow_set_size(fd, 24);
    if (seed == 3) uref_block_flow_set_size(fd, 188);
}

static const struct desc catalogue[] = {
    { "idem", upipe_idem_mgr_alloc, K_IDENTITY, "block.", NULL, NULL, NULL, x_identity, false, false, NULL, 0, true },
    { "null", upipe_null_mgr_alloc, K_SINK, "block.", NULL, NULL, NULL, NULL, false, false, NULL, 0, false },
    { "skip", upipe_skip_mgr_alloc, K_TRANSFORM, "block.", "pic.", NULL, ctl_nopt, x_skip, false, false, opts_skip, 1, true },
    { "htons", upipe_htons_mgr_alloc, K_TRANSFORM, "block.", "pic.", NULL, NULL, x_htons, false, false, NULL, 0, true },
    { "delay", upipe_delay_mgr_alloc, K_IDENTITY, "block.", NULL, NULL, ctl_nopt, x_identity, false, false, opts_delay, 1, true },
    { "setattr", upipe_setattr_mgr_alloc, K_IDENTITY, "block.", NULL, NULL, ctl_setattr, x_identity, true, false, NULL, 0, true },
    { "setflowdef", upipe_setflowdef_mgr_alloc, K_IDENTITY, "block.", NULL, NULL, ctl_setflowdef, x_identity, false, false, NULL, 0, false },
    { "setrap", upipe_setrap_mgr_alloc, K_IDENTITY, "block.", NULL, NULL, ctl_nopt, x_identity, false, false, opts_setrap, 1, true },
    { "match_attr", upipe_match_attr_mgr_alloc, K_FILTER, "block.", NULL, NULL, ctl_match, x_match, false, false, NULL, 0, true },
    { "probe_uref", upipe_probe_uref_mgr_alloc, K_FILTER, "block.", NULL, NULL, ctl_probe, x_probe, false, false, NULL, 0, true },
    { "nodemux", upipe_nodemux_mgr_alloc, K_IDENTITY, "block.", NULL, NULL, NULL, x_identity, false, false, NULL, 0, true },
    { "noclock", upipe_noclock_mgr_alloc, K_IDENTITY, "block.", NULL, NULL, NULL, x_identity, false, false, NULL, 0, true },
    { "dup", upipe_dup_mgr_alloc, K_DUP, "block.", NULL, NULL, NULL, x_identity, false, false, NULL, 0, true },
    { "aggregate", upipe_agg_mgr_alloc, K_REGROUP, "block.", "pic.", NULL, ctl_nopt, NULL, false, false, opts_agg, 1, false, NULL, NULL, amend_agg },
    { "chunk_stream", upipe_chunk_stream_mgr_alloc, K_REGROUP, "block.", "pic.", NULL, ctl_nopt, NULL, false, false, opts_chunk, 1, true },
    { "genaux", upipe_genaux_mgr_alloc, K_OTHER, "block.", NULL, NULL, ctl_genaux, NULL, true, false, NULL, 0, false },
    { "time_limit", upipe_time_limit_mgr_alloc, K_HOLD, "block.", NULL, NULL, ctl_nopt, x_identity, false, true, opts_tl, 1, true },
    { "buffer", upipe_buffer_mgr_alloc, K_HOLD, "block.", "pic.", NULL, ctl_nopt, x_identity, false, true, opts_buffer, 3, true },
    { "rate_limit", upipe_rate_limit_mgr_alloc, K_HOLD, "block.", NULL, NULL, ctl_nopt, x_identity, false, true, opts_rl, 2, true },
    { "dump", upipe_dump_mgr_alloc, K_IDENTITY, "block.", "pic.", NULL, NULL, x_identity, false, false, NULL, 0, true },
    { "multicat_probe", upipe_multicat_probe_mgr_alloc, K_IDENTITY, "block.", NULL, NULL, ctl_nopt, x_identity, false, false, opts_rotate, 1, true },
    { "discard_blocking", upipe_disblo_mgr_alloc, K_HOLD, "block.", NULL, NULL, ctl_nopt, x_identity, false, true, opts_maxlen, 1, true },
    { "burst", upipe_burst_mgr_alloc, K_HOLD, "block.", "pic.", NULL, NULL, x_identity, false, true, NULL, 0, true },
    /* pipes that parse their input: generic oracles (C01 ownership, C04 life cycle and negotiation) */
    { "m3u_reader", upipe_m3u_reader_mgr_alloc, K_OTHER, "block.", "pic.", NULL, NULL, NULL, true, false, NULL, 0, false, gen_m3u_text },
    { "ts_check", upipe_ts_check_mgr_alloc, K_OTHER, "block.", "pic.", NULL, ctl_nopt, NULL, true, false, opts_ts_size, 1, false, gen_ts_stream },
    { "ts_sync", upipe_ts_sync_mgr_alloc, K_OTHER, "block.", "pic.", NULL, ctl_nopt, NULL, true, false, opts_ts_sync, 2, false, gen_ts_stream },
    { "ts_align", upipe_ts_align_mgr_alloc, K_OTHER, "block.", "pic.", NULL, NULL, NULL, true, false, NULL, 0, false, gen_ts_stream },
    { "ts_decaps", upipe_ts_decaps_mgr_alloc, K_OTHER, "block.mpegts.", "block.", NULL, NULL, NULL, true, false, NULL, 0, false, gen_ts_packet },
    { "ts_pid_filter", upipe_ts_pidf_mgr_alloc, K_OTHER, "block.mpegts.", "block.", NULL, NULL, NULL, true, false, NULL, 0, false, gen_ts_packet },
    { "ts_pes_decaps", upipe_ts_pesd_mgr_alloc, K_OTHER, "block.mpegtspes.", "block.", NULL, NULL, NULL, true, false, NULL, 0, false, gen_pes_payload },
    { "ts_psi_merge", upipe_ts_psim_mgr_alloc, K_OTHER, "block.mpegtspsi.", "block.", NULL, NULL, NULL, true, false, NULL, 0, false, gen_psi_payload },
    { "h264_framer", upipe_h264f_mgr_alloc, K_OTHER, "block.h264.pic.", "pic.", NULL, NULL, NULL, true, false, NULL, 0, false, gen_annexb },
    { "rtp_pcm_unpack", upipe_rtp_pcm_unpack_mgr_alloc, K_OTHER, "block.s24be.sound.", "pic.", NULL, NULL, NULL, true, false, NULL, 0, false, gen_pcm24, NULL, amend_pcm, true },
    { "qsink", upipe_qsink_mgr_alloc, K_HOLD, "block.", NULL, NULL, ctl_nopt, x_identity, false, true, opts_maxlen, 1, false, NULL, alloc_qsink },
    { "h265_framer", upipe_h265f_mgr_alloc, K_OTHER, "block.hevc.pic.", "pic.", NULL, NULL, NULL, true, false, NULL, 0, false, gen_annexb },
};
#define NCAT (int)(sizeof(catalogue) / sizeof(catalogue[0]))

/* ------------------------------------------------------------------ */
/* probe hook: probe_uref events                                       */
/* ------------------------------------------------------------------ */
enum { D_SET_OUTPUT_BY_PROBE = 3 };      /* same code as D_SET_OUTPUT (declared below) */
static bool probe_hook(struct rprobe *rp, struct upipe *upipe, int event, va_list args, int *ret_p)
{
    /* an application probe may answer need_output (no output, or the output
     * rejected the flow definition) by plugging another output */
    if (event == UPROBE_NEED_OUTPUT && rp->id == S.pipe_id && S.plug_idx >= 0 && upipe == S.pipe) {
        int idx = S.plug_idx;
        S.plug_idx = -1;
        vh_tr("(probe plugs sink %d on need_output)", idx);
        lab_ev(EV_DRIVER, D_SET_OUTPUT_BY_PROBE, S.sink_ids[idx], S.pipe_id, 0, NULL, "");
        upipe_set_output(upipe, S.sinks[idx]);
        S.cur_out = idx;
        S.plugged = true;
        VH_COUNT("op.output_plugged_by_probe_on_need_output");
        *ret_p = UBASE_ERR_NONE;
        return true;
    }
    if (event == UPROBE_PROBE_UREF && rp->id == S.pipe_id) {
        unsigned sig = va_arg(args, unsigned);
        if (sig != UPIPE_PROBE_UREF_SIGNATURE) return false;
        (void)va_arg(args, struct uref *);
        (void)va_arg(args, struct upump **);
        bool *drop = va_arg(args, bool *);
        *drop = S.probe_drop;
        *ret_p = UBASE_ERR_NONE;
        return true;
    }
    return false;
}

/* ------------------------------------------------------------------ */
/* input bookkeeping                                                   */
/* ------------------------------------------------------------------ */
struct in_rec {
    uint64_t seq;
    uint8_t *bytes; size_t n;
    uint64_t attr_hash;
    uint64_t dates[3];
    bool connected;         /* an accepting sink was connected when it was sent */
    int sink;               /* sink id it should go to, -1 */
};
#define MAXIN 256
static struct in_rec IN[MAXIN];
static int nin;

static void in_reset(void)
{
    for (int i = 0; i < nin; i++) free(IN[i].bytes);
    nin = 0;
}

static unsigned flow_def_extra;      /* attributes added to the current definition (it only gains attributes) */
static struct uref *make_flow_def(const char *def, uint64_t seed)
{
    struct uref *fd = uref_alloc_control(E.uref_mgr);
    uref_flow_set_def(fd, def);
    for (unsigned k = 0; k < flow_def_extra; k++) { char nm[24]; snprintf(nm, sizeof(nm), "x.extra%u", k); uref_attr_set_unsigned(fd, 7, UDICT_TYPE_UNSIGNED, nm); }

    if (seed) uref_attr_set_unsigned(fd, seed, UDICT_TYPE_UNSIGNED, "x.defseed");
    if (S.d && S.d->amend_def && !strcmp(def, S.d->def)) S.d->amend_def(fd);
    return fd;
}

static struct uref *make_input(struct in_rec *rec, uint64_t seq)
{
    static uint8_t gbuf[8192];
    bool gen = S.d && S.d->gen_payload;
    size_t n;
    if (gen) { S.gen_start = false; n = S.d->gen_payload(&S, gbuf, 4096, NULL); }
    else {
        int szc = vh_below(R, 20);
        n = szc == 0 ? 8 : szc == 1 ? 9 : szc < 4 ? 8 + vh_below(R, 8) : szc == 19 ? 1500 + vh_below(R, 600) : 8 + vh_below(R, 200);
    }
    struct uref *u = uref_block_alloc(E.uref_mgr, E.block_mgr, (int)n);
    if (!u) abort();
    if (n) {
        uint8_t *w; int ws = -1;
        uref_block_write(u, 0, &ws, &w);
        if (gen) memcpy(w, gbuf, n);
        else {
            for (size_t i = 0; i < n; i++) w[i] = (uint8_t)vh_rand(R);
            for (int i = 0; i < 8; i++) w[i] = (uint8_t)(seq >> (56 - 8 * i));
        }
        uref_block_unmap(u, 0);
    }
    if (gen && S.gen_start) uref_block_set_start(u);
    /* segmented payloads: independent buffers appended to each other (every
     * segment writable on its own, odd sizes likely) ... */
    if (S.d && S.d->linear_input_only) { /* one segment */ }
    else if (n > 12 && vh_chance(R, 1, 4)) {
        uint8_t *all = malloc(n);
        uref_block_extract(u, 0, -1, all);
        int nseg = 2 + vh_below(R, 2);
        size_t cut[4] = { 0, 0, 0, n };
        cut[1] = 1 + vh_below(R, (uint32_t)n - 2);
        cut[2] = nseg == 3 ? cut[1] + vh_below(R, (uint32_t)(n - cut[1])) : n;
        struct ubuf *first = NULL;
        for (int k = 0; k < 3; k++) {
            size_t len = cut[k + 1] - cut[k];
            if (k == 2 && nseg == 2) break;
            struct ubuf *seg = ubuf_block_alloc(E.block_mgr, (int)len);
            if (len) { uint8_t *w2; int ws2 = -1; ubuf_block_write(seg, 0, &ws2, &w2); memcpy(w2, all + cut[k], len); ubuf_block_unmap(seg, 0); }
            if (!first) first = seg; else ubuf_block_append(first, seg);
        }
        uref_attach_ubuf(u, first);
        free(all);
        VH_COUNT("input.independent_segments");
    }
    /* ... or one buffer split in two segments sharing its memory */
    else if (n > 12 && vh_chance(R, 1, 3)) {
        struct ubuf *tail = ubuf_block_split(u->ubuf, 4 + vh_below(R, (uint32_t)n - 8));
        if (tail) {
            if (vh_chance(R, 1, 2)) { struct ubuf *t2 = ubuf_dup(tail); ubuf_free(tail); tail = t2; }
            ubuf_block_append(u->ubuf, tail);
        }
    }
    uref_attr_set_unsigned(u, seq, UDICT_TYPE_UNSIGNED, "x.seq");
    if (vh_chance(R, 1, 2)) uref_attr_set_string(u, "soup", UDICT_TYPE_STRING, "x.s");
    if (vh_chance(R, 1, 3)) uref_flow_set_discontinuity(u);
    uint64_t base = 27000000ULL * 10 + seq * 1000;
    if (vh_chance(R, 3, 4)) { uref_clock_set_cr_sys(u, base); uref_clock_set_cr_prog(u, base + 5); }
    if (vh_chance(R, 1, 2)) uref_clock_set_cr_dts_delay(u, 100);
    if (vh_chance(R, 1, 2)) uref_clock_set_dts_pts_delay(u, 50);
    rec->seq = seq;
    rec->n = n;
    rec->bytes = malloc(n);
    uref_block_extract(u, 0, -1, rec->bytes);
    rec->attr_hash = lab_dict_hash(u);
    rec->dates[0] = rec->dates[1] = rec->dates[2] = UINT64_MAX;
    uref_clock_get_cr_sys(u, &rec->dates[0]);
    uref_clock_get_dts_sys(u, &rec->dates[1]);
    uref_clock_get_pts_sys(u, &rec->dates[2]);
    return u;
}

/* ------------------------------------------------------------------ */
/* synchronous C05 oracle for one input                                */
/* ------------------------------------------------------------------ */
static void check_sync_output(struct st *s, struct in_rec *rec, int first_new, const char *where)
{
    const struct desc *d = s->d;
    int got = lab_ninputs - first_new;
    /* expected deliveries */
    uint8_t *exp = malloc(rec->n + 16);
    size_t expn = 0;
    bool forwarded = d->expect ? d->expect(s, rec->bytes, rec->n, rec->seq, exp, &expn) : false;
    int targets[1 + MAXSUB], nt = 0;
    if (d->klass != K_SINK && forwarded) {
        if (s->cur_out >= 0 && s->sink_accept[s->cur_out]) targets[nt++] = s->sink_ids[s->cur_out];
        if (d->klass == K_DUP)
            for (int k = 0; k < s->nsubs; k++)
                if (s->subs[k] && s->sub_out[k] >= 0 && s->sink_accept[s->sub_out[k]]) targets[nt++] = s->sink_ids[s->sub_out[k]];
    }
    char key[96];
    if (got != nt) {
        free(exp);
        snprintf(key, sizeof(key), "c05:%s:%s", d->name, got < nt ? "buffer-lost" : "buffer-duplicated-or-invented");
        vh_violation(key, "%s: input seq %" PRIu64 " (%zu octets) produced %d deliveries, expected %d", where, rec->seq, rec->n, got, nt);
    }
    for (int k = 0; k < nt; k++) {
        /* one delivery per target sink */
        struct sink_input *o = NULL;
        int cnt = 0;
        for (int i = first_new; i < lab_ninputs; i++) if (lab_inputs[i].sink == targets[k]) { o = &lab_inputs[i]; cnt++; }
        if (cnt != 1) { free(exp);
            snprintf(key, sizeof(key), "c05:%s:%s", d->name, cnt ? "buffer-duplicated-or-invented" : "buffer-lost");
            vh_violation(key, "%s: input seq %" PRIu64 " delivered %d times to sink %d", where, rec->seq, cnt, targets[k]); }
        if (o->seq != rec->seq) { free(exp);
            snprintf(key, sizeof(key), "c05:%s:wrong-buffer", d->name);
            vh_violation(key, "%s: sink %d received seq %" PRIu64 " instead of %" PRIu64, where, targets[k], o->seq, rec->seq); }
        if (o->size != expn || (o->copy && memcmp(o->copy, exp, expn))) { free(exp);
            snprintf(key, sizeof(key), "c05:%s:payload", d->name);
            vh_violation(key, "%s: seq %" PRIu64 ": payload of %zu octets differs from the documented transform of the %zu-octet input (expected %zu)", where, rec->seq, o->size, rec->n, expn); }
        if (!d->attrs_change && o->attr_hash != rec->attr_hash) { free(exp);
            snprintf(key, sizeof(key), "c05:%s:attributes", d->name);
            vh_violation(key, "%s: seq %" PRIu64 ": attributes changed although the pipe documents none", where, rec->seq); }
        if (!strcmp(d->name, "delay")) {
            for (int q = 0; q < 3; q++)
                if (rec->dates[q] != UINT64_MAX && o->dates[q] != rec->dates[q] + (uint64_t)s->delay) { free(exp);
                    vh_violation("c05:delay:dates", "seq %" PRIu64 ": date %d is %" PRIu64 ", expected %" PRIu64 " + %" PRId64, rec->seq, q, o->dates[q], rec->dates[q], s->delay); }
        } else if (strcmp(d->name, "noclock") && strcmp(d->name, "nodemux") && strcmp(d->name, "setrap")) {
            for (int q = 0; q < 3; q++)
                if (o->dates[q] != rec->dates[q]) { free(exp);
                    snprintf(key, sizeof(key), "c05:%s:dates", d->name);
                    vh_violation(key, "seq %" PRIu64 ": date %d changed from %" PRIu64 " to %" PRIu64, rec->seq, q, rec->dates[q], o->dates[q]); }
        }
        VH_COUNT("c05.deliveries_checked");
    }
    free(exp);
}

/* ------------------------------------------------------------------ */
/* driver operations                                                   */
/* ------------------------------------------------------------------ */
enum { D_SET_FLOW_DEF = 1, D_INPUT, D_SET_OUTPUT, D_FLUSH, D_RELEASE, D_SUB_ALLOC, D_SUB_RELEASE, D_SUB_SET_OUTPUT, D_CTL, D_LOOP, D_FLOW_DEF_ACCEPTED };

static void op_set_flow_def(struct st *s)
{
    const struct desc *d = s->d;
    int c = vh_below(R, 10);
    bool bad = d->bad_def && c == 0;
    bool same = s->flow_ok && c == 1;
    /* the same definition plus one more attribute (e.g. a latency that becomes known) */
    bool grow = s->flow_ok && c == 2 && flow_def_extra < 6;
    if (grow) { flow_def_extra++; VH_COUNT("op.set_flow_def_gaining_an_attribute"); }
    else if (!same && !bad) flow_def_extra = 0;
    uint64_t seed = same || grow ? s->cur_def_seed : 1 + vh_below(R, 3);
    /* a foreign definition may carry attributes of its own (same random draws in every twin) */
    bool bad_sized = bad && vh_chance(R, 1, 2);
    uint32_t bad_size = bad ? 1 + vh_below(R, 300) : 0;
    if (bad && skip_rejected) { VH_COUNT("c20.rejected_call_skipped"); return; }
    struct uref *fd = make_flow_def(bad ? d->bad_def : d->def, seed);
    if (bad_sized) uref_block_flow_set_size(fd, bad_size);
    OP("set_flow_def(%s,%" PRIu64 ")", bad ? d->bad_def : d->def, seed);
    lab_ev(EV_DRIVER, D_SET_FLOW_DEF, bad, seed, 0, NULL, "");
    int err = upipe_set_flow_def(s->pipe, fd);
    uref_free(fd);
    if (bad) {
        if (ubase_check(err)) { char key[96]; snprintf(key, sizeof(key), "c04:%s:accepted-foreign-flow-def", d->name);
            vh_violation(key, "flow definition %s accepted by a pipe that documents %s", d->bad_def, d->def); }
        VH_COUNT("op.set_flow_def_bad");
        return;
    }
    if (!ubase_check(err)) { char key[96]; snprintf(key, sizeof(key), "c04:%s:rejected-own-flow-def", d->name);
        vh_violation(key, "flow definition %s rejected (%d)", d->def, err); }
    s->flow_ok = true;
    s->cur_def_seed = seed;
    s->agg_input_size = seed == 2 ? 24 : seed == 3 ? 188 : 0;
    { struct uref *fd2 = make_flow_def(d->def, seed); s->flowdef_hash = lab_dict_hash(fd2); uref_free(fd2); }
    lab_ev(EV_DRIVER, D_FLOW_DEF_ACCEPTED, 0, s->flowdef_hash, 0, NULL, "");
    VH_COUNT("op.set_flow_def");
}

static void run_loop_some(struct st *s, unsigned max)
{
    (void)s;
    unsigned n = mockloop_run(E.upump_mgr, R, max, 8);
    if (n) VH_ADD("loop.dispatches", n);
}

/* pump of the (simulated) upstream source, handed over with every buffer to the
 * pipes that may hold their input: they block it with upump blockers while
 * they hold too much.  A watcher on a descriptor that never becomes readable:
 * active unless blocked, never dispatched. */
static struct upump *src_pump;
static int src_fd = -1;
static void src_pump_cb(struct upump *upump) { (void)upump; }
static void src_pump_open(void)
{
    if (src_fd < 0) src_fd = eventfd(0, EFD_NONBLOCK);
    src_pump = upump_alloc_fd_read(E.upump_mgr, src_pump_cb, NULL, NULL, src_fd);
    if (src_pump) upump_start(src_pump);
}

static void ref_input(struct st *s, const uint8_t *b, size_t n);
static void op_input(struct st *s)
{
    if (!s->flow_ok || nin >= MAXIN) return;
    struct in_rec *rec = &IN[nin++];
    struct uref *u = make_input(rec, s->next_seq++);
    OP("input(seq %" PRIu64 ",%zu)", rec->seq, rec->n);
    lab_ev(EV_DRIVER, D_INPUT, (int)rec->seq, 0, 0, NULL, "");
    int first_new = lab_ninputs;
    rec->connected = s->cur_out >= 0 && s->sink_accept[s->cur_out];
    rec->sink = s->cur_out >= 0 ? s->sink_ids[s->cur_out] : -1;
    /* one input in four: should the pipe throw need_output during this input,
     * the probe plugs another sink (one-to-one pipes without sub-pipes) */
    s->plug_idx = -1; s->plugged = false;
    if ((s->d->klass == K_IDENTITY || s->d->klass == K_TRANSFORM || s->d->klass == K_FILTER) && vh_chance(R, 1, 4)) {
        int idx = vh_below(R, 4);
        bool used = idx == s->cur_out;
        for (int i = 0; i < s->nsubs; i++) if (s->subs[i] && s->sub_out[i] == idx) used = true;
        if (!used) s->plug_idx = idx;
    }
    if (mode == MODE_C14 && s->d->klass == K_REGROUP) ref_input(s, rec->bytes, rec->n);
    if (src_pump && mockloop_pump_active(src_pump)) VH_COUNT("src_pump.input_while_unblocked");
    else if (src_pump) VH_COUNT("src_pump.input_while_blocked");
    upipe_input(s->pipe, u, src_pump ? &src_pump : NULL);
    if (src_pump && !mockloop_pump_active(src_pump)) VH_COUNT("src_pump.blocked_after_input");
    if (s->plugged) { rec->connected = s->sink_accept[s->cur_out]; rec->sink = s->sink_ids[s->cur_out]; }
    s->plug_idx = -1;
    s->inputs++;
    VH_COUNT("op.input");
    switch (s->d->klass) {
        case K_IDENTITY: case K_TRANSFORM: case K_FILTER: case K_SINK: case K_DUP:
            check_sync_output(s, rec, first_new, "input");
            break;
        default: break;
    }
}

static void ref_flush(struct st *s, bool release);
/* the last handle on the pipe is released by its output, from inside the input
 * function of the pipe (legal: whoever holds a reference may release it anywhere) */
static void op_input_released_by_output(struct st *s)
{
    const struct desc *d = s->d;
    if (!s->flow_ok || nin >= MAXIN || s->cur_out < 0 || !s->sink_accept[s->cur_out]) return;
    if (d->klass != K_IDENTITY && d->klass != K_TRANSFORM && d->klass != K_REGROUP) return;
    if (d->klass == K_DUP) return;
    for (int k = 0; k < s->nsubs; k++) if (s->subs[k]) return;
    lab_sink_arm_release(s->sinks[s->cur_out], s->pipe);
    struct upipe *sink = s->sinks[s->cur_out];
    op_input(s);
    if (lab_sink_armed(sink)) lab_sink_arm_release(sink, NULL);      /* nothing was delivered: the driver keeps its handle */
    else {
        OP("(the output released the pipe during that input)");
        if (mode == MODE_C14 && d->klass == K_REGROUP) ref_flush(s, true);
        s->released = true;
        s->pipe = NULL;
        VH_COUNT("op.released_by_output_during_input");
    }
}

static void op_set_output(struct st *s)
{
    if (s->d->klass == K_SINK) return;
    int c = vh_below(R, 8);
    int idx = c == 0 ? -1 : c == 1 ? s->cur_out : (int)vh_below(R, 4);
    /* a sink has a single upstream in this lab */
    if (idx >= 0) for (int i = 0; i < s->nsubs; i++) if (s->subs[i] && s->sub_out[i] == idx) return;
    OP("set_output(%d)", idx);
    lab_ev(EV_DRIVER, D_SET_OUTPUT, idx >= 0 ? s->sink_ids[idx] : -1, s->pipe_id, 0, NULL, "");
    int err = upipe_set_output(s->pipe, idx >= 0 ? s->sinks[idx] : NULL);
    if (!ubase_check(err)) vh_violation("c04:set_output-failed", "set_output failed on %s (%d)", s->d->name, err);
    s->cur_out = idx;
    VH_COUNT("op.set_output");
}

static void op_sink_script(struct st *s)
{
    /* how sinks treat the requests lodged on them: 0 hand over to their probe
     * (providers answer at once), 1 answer at once, 2 keep silent; a silent
     * sink may answer later (pipes needing a manager hold their input
     * meanwhile) */
    if (vh_chance(R, 1, 2)) {
        int k2 = vh_below(R, 4);
        if (vh_chance(R, 1, 3)) { OP("sink%d.provide_all", k2); lab_sink_provide_all(s->sinks[k2]); VH_COUNT("op.sink_provide_all"); }
        else { int m = vh_below(R, 3); OP("sink%d.request_mode=%d", k2, m); lab_sink_set_request_mode(s->sinks[k2], m); VH_COUNT("op.sink_request_mode"); }
        return;
    }
    int k = vh_below(R, 4);
    bool acc = !vh_chance(R, 1, 3);
    OP("sink%d accept=%d", k, acc);
    /* takes effect at the next negotiation: only toggle a sink nobody is connected to */
    if (s->cur_out == k) return;
    for (int i = 0; i < s->nsubs; i++) if (s->subs[i] && s->sub_out[i] == k) return;
    lab_sink_set_accept(s->sinks[k], acc);
    s->sink_accept[k] = acc;
}

static bool op_flush(struct st *s)
{
    OP("flush");
    lab_ev(EV_DRIVER, D_FLUSH, 0, 0, 0, NULL, "");
    lab_sink_burst = 0; lab_sink_burst_limit = 64 + 4 * 70000; lab_burst_pipe = s->d->name; lab_steps = 0; lab_step_limit = 4000000;
    int err = upipe_flush(s->pipe);
    lab_sink_burst_limit = 0; lab_step_limit = 0;
    VH_COUNT("op.flush");
    return ubase_check(err);
}

static void op_sub(struct st *s)
{
    if (s->d->klass != K_DUP) return;
    int c = vh_below(R, 3);
    if (c == 0 && s->nsubs < MAXSUB) {
        int k = s->nsubs;
        OP("sub%d=alloc_sub", k);
        lab_ev(EV_DRIVER, D_SUB_ALLOC, k, 0, 0, NULL, "");
        s->subs[k] = upipe_void_alloc_sub(s->pipe, lab_probe_new("dupsub", &s->sub_ids[k]));
        if (!s->subs[k]) vh_violation("c04:sub-alloc-failed", "sub-pipe allocation failed");
        s->sub_out[k] = -1;
        s->nsubs++;
        VH_COUNT("op.sub_alloc");
    } else if (c == 1 && s->nsubs) {
        int k = vh_below(R, s->nsubs);
        if (!s->subs[k]) return;
        int idx = vh_chance(R, 1, 6) ? -1 : (int)vh_below(R, 4);
        /* a sink has a single upstream in this lab */
        if (idx >= 0) { if (idx == s->cur_out) return; for (int i = 0; i < s->nsubs; i++) if (i != k && s->subs[i] && s->sub_out[i] == idx) return; }
        OP("sub%d.set_output(%d)", k, idx);
        lab_ev(EV_DRIVER, D_SUB_SET_OUTPUT, idx >= 0 ? s->sink_ids[idx] : -1, s->sub_ids[k], 0, NULL, "");
        upipe_set_output(s->subs[k], idx >= 0 ? s->sinks[idx] : NULL);
        s->sub_out[k] = idx;
    } else if (c == 2 && s->nsubs) {
        int k = vh_below(R, s->nsubs);
        if (!s->subs[k]) return;
        OP("sub%d.release", k);
        lab_ev(EV_DRIVER, D_SUB_RELEASE, k, 0, 0, NULL, "");
        upipe_release(s->subs[k]);
        s->subs[k] = NULL; s->sub_out[k] = -1;
        VH_COUNT("op.sub_release");
    }
}

static void release_pipe(struct st *s)
{
    if (s->released) return;
    OP("release");
    lab_ev(EV_DRIVER, D_RELEASE, s->pipe_id, 0, 0, NULL, "");
    lab_sink_burst = 0; lab_sink_burst_limit = 64 + 4 * 70000; lab_burst_pipe = s->d->name; lab_steps = 0; lab_step_limit = 4000000;
    /* a private handle of the laboratory, to see whether the pipe keeps itself
     * alive once the application's handle is gone */
    bool subs_alive = false;
    for (int k = 0; k < s->nsubs; k++) if (s->subs[k] && s->d->klass == K_DUP) subs_alive = true;
    struct upipe *obs = subs_alive ? NULL : upipe_use(s->pipe);
    upipe_release(s->pipe);
    /* pipes draining through their own pumps (queue sink...) finish by themselves */
    if (obs && !urefcount_single(obs->refcount) && s->d->needs_loop) mockloop_run(E.upump_mgr, R, 10000, 64);
    if (obs && !urefcount_single(obs->refcount)) {
        /* Pipes that buffer their input while a manager request is pending keep
         * a reference on themselves "to avoid disappearing before all packets
         * have been sent": with an output that never answers (or no output)
         * they, and all they hold, outlive every handle.  Reported once, under a
         * key of its own; then an answering output is connected so that the rest
         * of the accounting is not about this. */
        char key[96];
        snprintf(key, sizeof(key), "c01:%s:alive-after-release:request-pending", s->d->name);
        vh_violation_noabort(key, "the pipe outlives its last handle: it holds a reference on itself until a manager request is answered, which may never happen");
        for (int k = 0; k < 4; k++) if (s->sinks[k]) { lab_sink_set_request_mode(s->sinks[k], 1); lab_sink_provide_all(s->sinks[k]); }
        if (!urefcount_single(obs->refcount)) {
            int free_sink = -1;
            for (int k = 0; k < 4; k++) { bool used = false; for (int i = 0; i < s->nsubs; i++) if (s->subs[i] && s->sub_out[i] == k) used = true; if (!used) free_sink = k; }
            if (free_sink >= 0) {
                lab_sink_set_accept(s->sinks[free_sink], true);
                lab_ev(EV_DRIVER, D_SET_OUTPUT, s->sink_ids[free_sink], s->pipe_id, 0, NULL, "");
                upipe_set_output(obs, s->sinks[free_sink]);
            }
        }
        mockloop_run(E.upump_mgr, R, 10000, 64);
        VH_COUNT("c01.released_with_request_pending");
    }
    if (obs) upipe_release(obs);
    lab_sink_burst_limit = 0; lab_step_limit = 0;
    s->released = true;
    s->pipe = NULL;
}

/* ------------------------------------------------------------------ */
/* C04 automaton over the log                                          */
/* ------------------------------------------------------------------ */
static void check_c04(struct st *s)
{
    bool ready[LAB_MAX_PIPES] = { false }, dead[LAB_MAX_PIPES] = { false };
    /* flow side: per sink */
    int upstream[8]; bool need_def[8], last_rejected[8], any_def[8]; uint64_t cur_def[LAB_MAX_PIPES];
    for (int i = 0; i < 8; i++) { upstream[i] = -1; need_def[i] = false; last_rejected[i] = false; any_def[i] = false; }
    memset(cur_def, 0, sizeof(cur_def));
    char key[128];
    /* pipes that hand the input flow definition over unchanged: every buffer
     * must reach a sink that last accepted the definition its buffer was input
     * under (the pipe's own new_flow_def events are not taken as the truth) */
    static const char *const passthrough[] = { "idem", "dup", "setattr", "setrap", "match_attr", "probe_uref", "nodemux", "noclock",
        "time_limit", "dump", "multicat_probe", "qsink", "skip", "htons", "delay", NULL };
    /* not judged: buffer, burst, discard_blocking, rate_limit hold buffers and apply a new
     * flow definition at once (not in band), so buffers input before the change come out
     * after it by design */
    bool pass = false;
    if (s->d) for (int k = 0; passthrough[k]; k++) if (!strcmp(passthrough[k], s->d->name)) pass = true;
    uint64_t in_def = 0, sink_def[8] = { 0 };
    static uint64_t def_of_seq[MAXIN];
    if (pass) memset(def_of_seq, 0, sizeof(def_of_seq));
    for (int i = 0; i < lab_nev; i++) {
        struct ev *e = &lab_log[i];
        if (pass && e->kind == EV_DRIVER && e->a == D_FLOW_DEF_ACCEPTED) in_def = e->c;
        if (pass && e->kind == EV_DRIVER && e->a == D_INPUT && e->b >= 0 && e->b < MAXIN) def_of_seq[e->b] = in_def;
        if (pass && e->kind == EV_SINK_FLOWDEF && e->a >= 0 && e->a < 8 && e->b) sink_def[e->a] = e->c;
        if (pass && e->kind == EV_SINK_INPUT && e->a >= 0 && e->a < 8 && e->b >= 0 && e->b < MAXIN && def_of_seq[e->b] &&
            upstream[e->a] >= 0 && sink_def[e->a] != def_of_seq[e->b]) {
            snprintf(key, sizeof(key), "c04:%s:input-under-another-flow-def", s->d->name);
            vh_violation_noabort(key, "buffer seq %d was input under one flow definition and delivered to sink %d whose last accepted definition is another one (%s)", e->b, e->a, sink_def[e->a] ? "stale or altered" : "none");
            VH_COUNT("c04.passthrough_mismatch");
        }
        if (pass && e->kind == EV_SINK_INPUT) VH_COUNT("c04.passthrough_inputs_checked");
        switch (e->kind) {
            case EV_PROBE: {
                int p = e->a;
                const char *pname = lab_probes[p].name;
                if (dead[p] && lab_probes[p].forced && e->b == UPROBE_LOG) {
                    /* freed by the laboratory with its input still held: the log lines
                     * of that teardown are the laboratory's doing */
                } else if (dead[p]) {
                    if (e->b == UPROBE_DEAD) { snprintf(key, sizeof(key), "c04:%s:dead-twice", pname); vh_violation_noabort(key, "pipe %s threw dead twice", pname); }
                    snprintf(key, sizeof(key), "c04:%s:event-after-dead:%s%s%s", pname, uprobe_event_str(e->b) ? uprobe_event_str(e->b) : "LOCAL", e->msg[0] ? ":" : "", e->msg);
                    vh_violation_noabort(key, "pipe %s threw %s after its dead event (%s)", pname, uprobe_event_str(e->b) ? uprobe_event_str(e->b) : "a local event", e->msg);
                }
                if (!ready[p] && e->b != UPROBE_READY && e->b != UPROBE_LOG) {
                    /* requests for managers thrown while initialising are part of the allocation of many pipes */
                    snprintf(key, sizeof(key), "c04:%s:event-before-ready:%s", pname, uprobe_event_str(e->b) ? uprobe_event_str(e->b) : "LOCAL");
                    vh_violation_noabort(key, "pipe %s threw %s before ready", pname, uprobe_event_str(e->b) ? uprobe_event_str(e->b) : "a local event");
                }
                if (e->b == UPROBE_READY) ready[p] = true;
                if (e->b == UPROBE_DEAD) dead[p] = true;
                if (e->b == UPROBE_NEW_FLOW_DEF) {
                    cur_def[p] = e->c;
                    for (int k = 0; k < 8; k++) if (upstream[k] == p) need_def[k] = true;
                }
                VH_COUNT("c04.probe_events");
                break;
            }
            case EV_DRIVER:
                if (e->a == D_SET_OUTPUT || e->a == D_SUB_SET_OUTPUT) {
                    int sink = e->b; int pipe = (int)e->c;
                    for (int k = 0; k < 8; k++) if (upstream[k] == pipe) upstream[k] = -1;
                    if (sink >= 0 && sink < 8) { upstream[sink] = pipe; need_def[sink] = true; last_rejected[sink] = false; any_def[sink] = false; }
                }
                break;
            case EV_SINK_FLOWDEF: {
                int k = e->a;
                if (k < 0 || k >= 8) break;
                any_def[k] = true;
                last_rejected[k] = !e->b;
                if (e->b && upstream[k] >= 0 && e->c == cur_def[upstream[k]]) need_def[k] = false;
                if (upstream[k] >= 0 && dead[upstream[k]]) {
                    snprintf(key, sizeof(key), "c04:%s:touches-output-after-dead:set_flow_def", lab_probes[upstream[k]].name);
                    vh_violation_noabort(key, "set_flow_def reached sink %d after its upstream threw dead", k);
                }
                VH_COUNT("c04.negotiations");
                break;
            }
            case EV_SINK_INPUT: {
                int k = e->a;
                if (k < 0 || k >= 8 || upstream[k] < 0) break;
                const char *pname = lab_probes[upstream[k]].name;
                if (dead[upstream[k]]) { snprintf(key, sizeof(key), "c04:%s:touches-output-after-dead:input", pname); vh_violation_noabort(key, "a buffer reached sink %d after its upstream threw dead", k); }
                if (last_rejected[k]) { snprintf(key, sizeof(key), "c04:%s:input-while-rejected", pname); vh_violation_noabort(key, "a buffer was delivered to sink %d although it rejected the flow definition", k); }
                if (need_def[k]) { snprintf(key, sizeof(key), "c04:%s:input-before-flow-def", pname); vh_violation_noabort(key, "a buffer was delivered to sink %d before it accepted the current flow definition (%s)", k, any_def[k] ? "stale definition" : "no definition since connection"); }
                VH_COUNT("c04.inputs_checked");
                break;
            }
            case EV_SINK_REGISTER:
                if (e->a >= 0 && e->a < 8 && upstream[e->a] >= 0 && dead[upstream[e->a]]) {
                    snprintf(key, sizeof(key), "c04:%s:touches-output-after-dead:register_request", lab_probes[upstream[e->a]].name);
                    vh_violation_noabort(key, "a request was registered on sink %d after its upstream threw dead", e->a);
                }
                break;
            default: break;
        }
    }
    /* every pipe allocated in the case announced itself and died exactly once */
    for (int p = 0; p < lab_nprobes; p++) {
        if (lab_probes[p].no_pipe) continue;
        if (!ready[p]) { snprintf(key, sizeof(key), "c04:%s:never-ready", lab_probes[p].name); vh_violation_noabort(key, "pipe %s never threw ready", lab_probes[p].name); }
        if (!dead[p]) { snprintf(key, sizeof(key), "c04:%s:never-dead", lab_probes[p].name); vh_violation_noabort(key, "pipe %s was released but never threw dead", lab_probes[p].name); }
    }
    (void)s;
}

/* asynchronous delivery: exactly once, in order (holding pipes) */
static void check_c05_async(struct st *s)
{
    char key[96];
    uint64_t last[8]; bool seen_any[8];
    for (int k = 0; k < 8; k++) { last[k] = 0; seen_any[k] = false; }
    bool delivered[MAXIN] = { false };
    for (int i = 0; i < lab_ninputs; i++) {
        struct sink_input *o = &lab_inputs[i];
        if (o->seq == UINT64_MAX || o->sink < 0 || o->sink >= 8) continue;
        if (o->seq >= (uint64_t)nin) { snprintf(key, sizeof(key), "c05:%s:buffer-duplicated-or-invented", s->d->name); vh_violation_noabort(key, "sink received seq %" PRIu64 " which was never sent", o->seq); continue; }
        if (delivered[o->seq]) { snprintf(key, sizeof(key), "c05:%s:buffer-duplicated-or-invented", s->d->name); vh_violation_noabort(key, "seq %" PRIu64 " delivered twice", o->seq); }
        delivered[o->seq] = true;
        if (seen_any[o->sink] && o->seq <= last[o->sink]) { snprintf(key, sizeof(key), "c05:%s:reordered", s->d->name); vh_violation_noabort(key, "seq %" PRIu64 " delivered after %" PRIu64, o->seq, last[o->sink]); }
        last[o->sink] = o->seq; seen_any[o->sink] = true;
        struct in_rec *rec = &IN[o->seq];
        if (s->d->expect == x_identity && (o->size != rec->n || (o->copy && memcmp(o->copy, rec->bytes, rec->n)))) { snprintf(key, sizeof(key), "c05:%s:payload", s->d->name); vh_violation_noabort(key, "seq %" PRIu64 ": payload changed", o->seq); }
        VH_COUNT("c05.async_deliveries_checked");
    }
}

/* ------------------------------------------------------------------ */
/* case                                                                */
/* ------------------------------------------------------------------ */
static int only_pipe = -1;
static bool with_getters;
/* skip_rejected (declared above): third twin of C20, calls that must be rejected are not made at all */
static struct vh_rng G;             /* getter sprinkling: independent of the history */

/* --- C20: every getter of the descriptor, checked against the shadow --- */
static void do_getters(struct st *s)
{
    const struct desc *d = s->d;
    char key[96];
    VH_COUNT("c20.getter_rounds");
    for (int k = 0; k < d->nopts; k++) {
        uint64_t v = SENTINEL;
        int err = d->opts[k].get(s->pipe, &v);
        if (!ubase_check(err)) { snprintf(key, sizeof(key), "c20:%s:%s:getter-failed", d->name, d->opts[k].name); vh_violation(key, "after %s: getter returned %d", opname, err); }
        if (v != s->optv[k]) { snprintf(key, sizeof(key), "c20:%s:%s:getter-value", d->name, d->opts[k].name);
            vh_violation(key, "after %s: getter returns %" PRIu64 " (0x%" PRIx64 "), last accepted value %" PRIu64, opname, v, v, s->optv[k]); }
        VH_COUNT("c20.getter_checked");
    }
    /* generic pairs */
    if (d->klass != K_SINK) {
        struct upipe *out = (struct upipe *)(uintptr_t)SENTINEL;
        int err = upipe_get_output(s->pipe, &out);
        struct upipe *want = s->cur_out >= 0 ? s->sinks[s->cur_out] : NULL;
        if (ubase_check(err) && out != want) { snprintf(key, sizeof(key), "c20:%s:output:getter-value", d->name); vh_violation(key, "after %s: get_output returns %p, last set %p", opname, (void *)out, (void *)want); }
        if (ubase_check(err)) VH_COUNT("c20.getter_checked");
        struct uref *fd = NULL;
        err = upipe_get_flow_def(s->pipe, &fd);
        if (ubase_check(err) && d->flowdef_passthrough && s->flow_ok) {
            if (!fd || lab_dict_hash(fd) != s->flowdef_hash) { snprintf(key, sizeof(key), "c20:%s:flow_def:getter-value", d->name); vh_violation(key, "after %s: get_flow_def does not return the definition that was set", opname); }
            VH_COUNT("c20.getter_checked");
        }
    }
    if (!strcmp(d->name, "setattr")) {
        struct uref *dict = (struct uref *)(uintptr_t)SENTINEL;
        int err = upipe_setattr_get_dict(s->pipe, &dict);
        if (!ubase_check(err)) vh_violation("c20:setattr:dict:getter-failed", "getter returned %d", err);
        if (s->setattr_set && (!dict || lab_dict_hash(dict) != lab_dict_hash(s->setattr_dict)))
            vh_violation("c20:setattr:dict:getter-value", "after %s: get_dict does not return the dictionary that was set", opname);
        if (!s->setattr_set && dict != NULL) vh_violation("c20:setattr:dict:getter-value", "get_dict returns a dictionary although none was set");
        VH_COUNT("c20.getter_checked");
    }
    if (!strcmp(d->name, "setflowdef")) {
        struct uref *dict = (struct uref *)(uintptr_t)SENTINEL;
        int err = upipe_setflowdef_get_dict(s->pipe, &dict);
        if (!ubase_check(err)) vh_violation("c20:setflowdef:dict:getter-failed", "getter returned %d", err);
        if (s->setflowdef_set && (!dict || lab_dict_hash(dict) != s->setflowdef_hash))
            vh_violation("c20:setflowdef:dict:getter-value", "after %s: get_dict does not return the dictionary that was set", opname);
        VH_COUNT("c20.getter_checked");
    }
    if (!strcmp(d->name, "genaux") && s->genaux_fn) {
        int (*fn)(struct uref *, uint64_t *) = NULL;
        int err = upipe_genaux_get_getattr(s->pipe, &fn);
        if (!ubase_check(err) || fn != s->genaux_fn) vh_violation("c20:genaux:getattr:getter-value", "get_getattr does not return the function that was set");
        VH_COUNT("c20.getter_checked");
    }
}

/* --- C14: reference models of aggregation and fixed-size chunking --- */
static uint8_t *stream_in; static size_t stream_in_n, stream_in_cap;       /* accepted octets, in order */
static size_t *ref_units; static int ref_nunits, ref_units_cap;            /* expected output unit sizes */
static size_t ref_pending;                                                   /* octets not yet emitted by the model */
static uint64_t ref_mtu_window;

static void ref_reset(void) { stream_in_n = 0; ref_nunits = 0; ref_pending = 0; ref_mtu_window = 0; }
static void ref_emit(size_t n)
{
    if (!n) return;
    if (ref_nunits == ref_units_cap) { ref_units_cap = ref_units_cap ? ref_units_cap * 2 : 256; ref_units = realloc(ref_units, sizeof(size_t) * ref_units_cap); }
    ref_units[ref_nunits++] = n;
    ref_pending -= n;
}
static void ref_accept(const uint8_t *b, size_t n)
{
    if (stream_in_n + n > stream_in_cap) { stream_in_cap = (stream_in_n + n) * 2; stream_in = realloc(stream_in, stream_in_cap); }
    memcpy(stream_in + stream_in_n, b, n);
    stream_in_n += n;
    ref_pending += n;
}
static void ref_input(struct st *s, const uint8_t *b, size_t n)
{
    if (!strcmp(s->d->name, "aggregate")) {
        size_t mtu = (size_t)s->optv[0];
        if (n == 0 || n > mtu) return;                       /* documented: dropped with a warning */
        if (ref_pending + n > mtu) ref_emit(ref_pending);
        ref_accept(b, n);
        /* anticipates the next unit: of the size announced by the flow definition, else of the same size */
        size_t next = s->agg_input_size ? (size_t)s->agg_input_size : n;
        if (ref_pending + next > mtu) ref_emit(ref_pending);
    } else {
        size_t mtu = (size_t)(s->optv[0] >> 32), align = (size_t)(s->optv[0] & 0xffffffff);
        size_t size = mtu / align * align;
        ref_accept(b, n);
        while (ref_pending >= size) ref_emit(size);
    }
}
static void ref_flush(struct st *s, bool release)
{
    if (!strcmp(s->d->name, "aggregate")) { if (release) ref_emit(ref_pending); return; }
    size_t mtu = (size_t)(s->optv[0] >> 32), align = (size_t)(s->optv[0] & 0xffffffff);
    size_t size = mtu / align * align;
    while (ref_pending > 0) {
        size_t n = ref_pending >= size ? size : ref_pending / align * align;
        if (!n) break;
        ref_emit(n);
    }
    /* the unaligned tail is dropped (documented) */
    stream_in_n -= ref_pending;
    ref_pending = 0;
}

static void check_c14(struct st *s)
{
    char key[96];
    /* outputs at the (single, always accepting) sink */
    { char b[400]; int o = 0; o += snprintf(b + o, sizeof(b) - o, "outputs:"); for (int i = 0; i < lab_ninputs && o < 380; i++) o += snprintf(b + o, sizeof(b) - o, " %zu", lab_inputs[i].size);
      o += snprintf(b + o, sizeof(b) - o, " model:"); for (int i = 0; i < ref_nunits && o < 380; i++) o += snprintf(b + o, sizeof(b) - o, " %zu", ref_units[i]); vh_tr("%s", b); }
    size_t pos = 0;
    int u = 0;
    for (int i = 0; i < lab_ninputs; i++) {
        struct sink_input *o = &lab_inputs[i];
        if (pos + o->size > stream_in_n || (o->copy && memcmp(o->copy, stream_in + pos, o->size))) {
            snprintf(key, sizeof(key), "c14:%s:octets-not-from-input-in-order", s->d->name);
            vh_violation_noabort(key, "output unit %d (%zu octets at stream position %zu of %zu accepted) is not the next octets of the input stream", i, o->size, pos, stream_in_n); return; }
        if (u >= ref_nunits || ref_units[u] != o->size) {
            snprintf(key, sizeof(key), "c14:%s:unit-size", s->d->name);
            vh_violation_noabort(key, "output unit %d has %zu octets, the documented regrouping gives %zu (unit %d of %d)", i, o->size, u < ref_nunits ? ref_units[u] : (size_t)0, u, ref_nunits); return; }
        pos += o->size; u++;
        VH_COUNT("c14.units_checked");
    }
    if (u != ref_nunits || pos != stream_in_n) {
        snprintf(key, sizeof(key), "c14:%s:octets-lost", s->d->name);
        vh_violation_noabort(key, "%zu of %zu accepted octets were output in %d units, the documented regrouping gives %d units", pos, stream_in_n, u, ref_nunits); }
}

struct hist_out { int n; struct { int sink; uint64_t seq, hash; size_t size; } *o; int ndefs; uint64_t *defs; };

static void teardown_and_account(struct st *s)
{
    bool c14 = mode == MODE_C14 && s->d->klass == K_REGROUP;
    if (c14 && !s->released) ref_flush(s, true);
    release_pipe(s);
    for (int k = 0; k < s->nsubs; k++) if (s->subs[k]) { OP("sub%d.release(final)", k); upipe_release(s->subs[k]); s->subs[k] = NULL; }
    for (int k = 0; k < 4; k++) if (s->sinks[k]) { upipe_release(s->sinks[k]); s->sinks[k] = NULL; }
    /* let pending pumps (deferred frees, idlers) run */
    mockloop_run(E.upump_mgr, R, 10000, 64);
    if (src_pump) {
        /* the pipe is gone: every blocker it put on the source pump must be gone too */
        bool blocked = !mockloop_pump_active(src_pump);
        upump_free(src_pump);
        src_pump = NULL;
        if (blocked) { char key[96]; snprintf(key, sizeof(key), "c01:%s:blocker-outlives-pipe", s->d->name);
            vh_violation_noabort(key, "the source pump is still blocked after the pipe that blocked it was released: a upump blocker was neither freed nor notified"); }
        VH_COUNT("src_pump.checked_at_teardown");
    }
    uref_free(s->setattr_dict); s->setattr_dict = NULL;
}

/* executes one seeded history on a fresh environment */
static void exec_history(uint64_t seed, bool getters, struct hist_out *out)
{
    struct vh_rng hr;
    vh_rng_seed(&hr, seed);
    R = &hr;
    vh_rng_seed(&G, seed ^ 0x1234567);
    with_getters = getters;
    memset(&S, 0, sizeof(S));
    lab_nev = 0;
    lab_log_overflow = false;
    lab_inputs_reset();
    in_reset();
    ref_reset();
    pooltrack_reset();
    lab_nprobes = 0;
    lab_probe_hook = probe_hook;
    int depth = vh_chance(R, 1, 2) ? 0 : 1 + vh_below(R, 4);
    lab_env_init(depth);
    struct cumem_stats *cst = cumem_stats(E.umem);

    struct st *s = &S;
    int pick = only_pipe >= 0 ? only_pipe : (int)vh_below(R, NCAT);
    if (mode == MODE_C14 && only_pipe < 0) { do pick = vh_below(R, NCAT); while (catalogue[pick].klass != K_REGROUP); }
    if (mode == MODE_C20 && only_pipe < 0 && vh_chance(R, 3, 4)) { do pick = vh_below(R, NCAT); while (!catalogue[pick].nopts && strcmp(catalogue[pick].name, "setattr") && strcmp(catalogue[pick].name, "setflowdef") && strcmp(catalogue[pick].name, "genaux")); }
    s->d = &catalogue[pick];
    s->cur_out = -1;
    s->rap = UINT64_MAX;
    vh_tr("pipe=%s pool_depth=%d getters=%d", s->d->name, depth, getters);
    if (!getters || mode != MODE_C20) vh_count_dyn("pipe.%s", s->d->name);

    for (int k = 0; k < 4; k++) { char nm[16]; snprintf(nm, sizeof(nm), "sink%d", k); s->sinks[k] = lab_sink_new(nm, &s->sink_ids[k]); s->sink_accept[k] = true; }
    struct upipe_mgr *mgr = s->d->mgr_alloc();
    struct uprobe *pr = lab_probe_new(s->d->name, &s->pipe_id);
    s->pipe = s->d->alloc ? s->d->alloc(s, mgr, pr) : upipe_void_alloc(mgr, pr);
    upipe_mgr_release(mgr);
    if (!s->pipe) vh_violation("c04:alloc-failed", "allocation of %s failed", s->d->name);
    src_pump = NULL;
    flow_def_extra = 0;
    if (s->d->needs_loop) src_pump_open();
    if (s->d->setup) s->d->setup(s);
    /* baseline of the numeric options: the documented defaults as reported right after allocation */
    for (int k = 0; k < s->d->nopts; k++) { uint64_t v = SENTINEL; s->d->opts[k].get(s->pipe, &v); s->optv[k] = v; }
    if (s->d->opts == opts_skip) s->skip_offset = s->optv[0];
    if (s->d->opts == opts_delay) s->delay = (int64_t)s->optv[0];

    bool c14 = mode == MODE_C14 && s->d->klass == K_REGROUP;
    if (c14) {
        /* a single accepting sink for the whole history: the unit sequence is compared with the model */
        op_set_flow_def(s);
        while (!s->flow_ok) op_set_flow_def(s);
        lab_ev(EV_DRIVER, D_SET_OUTPUT, s->sink_ids[0], s->pipe_id, 0, NULL, "");
        upipe_set_output(s->pipe, s->sinks[0]);
        s->cur_out = 0;
    }
    int nops = 10 + vh_below(R, 30);
    for (int i = 0; i < nops && !s->released; i++) {
        int c = vh_below(R, 100);
        if (c14) {
            if (c < 70) op_input(s);
            else if (c < 82) { if (s->d->rand_ctl) s->d->rand_ctl(s); }
            else if (c < 85) op_set_flow_def(s);
            else if (c < 92) { if (op_flush(s)) ref_flush(s, false); }   /* only pipes that handle the flush command */
            else if (c < 94) { ref_flush(s, true); release_pipe(s); }
        } else if (c < 12) op_set_flow_def(s);
        else if (c < 55) op_input(s);
        else if (c < 67) op_set_output(s);
        else if (c < 72) op_sink_script(s);
        else if (c < 76) op_flush(s);
        else if (c < 86) { if (s->d->rand_ctl) s->d->rand_ctl(s); }
        else if (c < 93) op_sub(s);
        else if (c < 97) { if (s->d->needs_loop) { OP("loop"); mockloop_advance(E.upump_mgr, vh_below(R, 200000)); run_loop_some(s, 50); } }
        else if (c < 98) op_input_released_by_output(s);
        else release_pipe(s);
        if (s->d->needs_loop && vh_chance(R, 1, 3)) run_loop_some(s, 20);
        if (with_getters && !s->released && vh_chance(&G, 1, 2)) do_getters(s);
    }
    if (mode == MODE_C20 && !s->released) do_getters(s);       /* final values, in both twins */
    teardown_and_account(s);

    if (lab_log_overflow) { VH_COUNT("case.log_overflow"); lab_probes_release(); lab_env_fini(); vh_skip_case(); }
    /* ---- oracles over the whole execution ---- */
    if (s->d->klass == K_HOLD) check_c05_async(s);
    check_c04(s);
    if (c14) check_c14(s);
    if (out) {
        out->n = lab_ninputs;
        out->o = malloc(sizeof(*out->o) * (lab_ninputs + 1));
        for (int i = 0; i < lab_ninputs; i++) { out->o[i].sink = lab_inputs[i].sink; out->o[i].seq = lab_inputs[i].seq; out->o[i].hash = lab_inputs[i].payload_hash; out->o[i].size = lab_inputs[i].size; }
        out->ndefs = 0;
        out->defs = malloc(sizeof(uint64_t) * (lab_nev + 1));
        for (int i = 0; i < lab_nev; i++) if (lab_log[i].kind == EV_SINK_FLOWDEF) out->defs[out->ndefs++] = lab_log[i].c * 4 + lab_log[i].a * 2 + lab_log[i].b;
    }

    /* ---- C01 accounting ---- */
    int probes_left = lab_probes_release();
    if (probes_left) { char pk[96]; snprintf(pk, sizeof(pk), "c01:%s:probe-still-referenced", s->d->name);
        vh_violation(pk, "%d probes given to pipes at allocation are still referenced after every pipe was released", probes_left); }
    if (pooltrack_violations) vh_violation("c01:pool-discipline", "%s (pipe %s)", pooltrack_msg, s->d->name);
    long live = pooltrack_live();
    char key[96];
    if (live != 0) { pooltrack_dump_live(); snprintf(key, sizeof(key), "c01:%s:objects-still-held", s->d->name);
        vh_violation(key, "%ld pooled objects (urefs / buffers / dictionaries / pumps) are still held after the pipeline and all handles were released", live); }
    struct umem_mgr *umem_keep = umem_mgr_use(E.umem);
    cst = cumem_stats(umem_keep);
    const char *bad_mgr = lab_env_fini();
    if (bad_mgr && strcmp(bad_mgr, "umem_mgr")) { snprintf(key, sizeof(key), "c01:%s:manager-still-referenced", s->d->name);
        vh_violation(key, "%s is not back to the single reference held by its creator after the pipeline and all handles were released", bad_mgr); }
    if (cst->bad_free || cst->canary_hits) { snprintf(key, sizeof(key), "c01:%s:umem-misuse", s->d->name); vh_violation(key, "umem block freed twice or guard zone overwritten"); }
    if (cst->live != 0) { snprintf(key, sizeof(key), "c01:%s:memory-still-allocated", s->d->name);
        vh_violation(key, "%ld umem blocks (%ld octets) still allocated after everything was released", (long)cst->live, (long)cst->live_bytes); }
    umem_mgr_release(umem_keep);
    VH_COUNT("c01.accounted_cases");
}


/* ------------------------------------------------------------------ */
/* C12: requests travel downstream, answers travel back                */
/* ------------------------------------------------------------------ */
#define C12_MAXP 3
#define C12_MAXR 4
struct c12_req {
    struct urequest req;
    int type;
    bool registered;            /* model */
    int provided;               /* callbacks received while registered */
    int late;                   /* callbacks received while NOT registered */
    bool bad_value;
    bool probe_lodged;          /* thrown to the probe of the end-of-chain pipe since the last re-plumbing */
    bool burst;                 /* went through a burst that overflowed the out-of-band queue: only "no callback after unregister" is judged */
};
static struct c12_req C12R[C12_MAXR];
static struct upipe *c12_pipes[C12_MAXP + 1];
static int c12_pipe_ids[C12_MAXP + 1];
static int c12_out[C12_MAXP + 1];      /* -2 next pipe, -1 none, >= 0 sink index */
static int c12_n;
static struct upipe *c12_sinks[3];
/* optional queue at the end of the chain: the last element of c12_pipes is a
 * queue sink, whose requests and answers cross to / from the queue source
 * through out-of-band messages handled by pumps of the mock loop */
static struct upipe *c12_qsrc;
static int c12_qsrc_id;
static bool c12_has_q;
static int c12_cb_depth;

/* Requests are recognised by a tag carried in their uref (every proxy and
 * every request crossing a queue duplicates the uref of its upstream), never
 * by following pointers: a request that crosses the queue keeps a pointer to
 * an upstream proxy that may already be gone. */
static struct c12_req *c12_origin(struct urequest *r)
{
    for (int i = 0; i < C12_MAXR; i++) if (r == &C12R[i].req) return &C12R[i];
    uint64_t tag = 0;
    if (!r || !r->uref || !ubase_check(uref_attr_get_unsigned(r->uref, &tag, UDICT_TYPE_UNSIGNED, "x.c12req"))) return NULL;
    return tag >= 1 && tag <= C12_MAXR ? &C12R[tag - 1] : NULL;
}

static struct uref *c12_tagged_uref(int slot, int type)
{
    struct uref *u = (type == UREQUEST_UBUF_MGR || type == UREQUEST_FLOW_FORMAT) ? make_flow_def("block.", 1) : uref_alloc_control(E.uref_mgr);
    uref_attr_set_unsigned(u, (uint64_t)slot + 1, UDICT_TYPE_UNSIGNED, "x.c12req");
    return u;
}

static int c12_provide(struct urequest *req, va_list args)
{
    struct c12_req *r = c12_origin(req);
    if (!r) return UBASE_ERR_INVALID;
    bool ok = true;
    switch (r->type) {
        case UREQUEST_UREF_MGR: { struct uref_mgr *m = va_arg(args, struct uref_mgr *); ok = m == E.uref_mgr; uref_mgr_release(m); break; }
        case UREQUEST_UCLOCK: { struct uclock *c = va_arg(args, struct uclock *); ok = c == E.uclock; uclock_release(c); break; }
        case UREQUEST_UBUF_MGR: { struct ubuf_mgr *m = va_arg(args, struct ubuf_mgr *); struct uref *ff = va_arg(args, struct uref *); ok = m != NULL; ubuf_mgr_release(m); uref_free(ff); break; }
        case UREQUEST_FLOW_FORMAT: { struct uref *ff = va_arg(args, struct uref *); ok = ff != NULL; uref_free(ff); break; }
        case UREQUEST_SINK_LATENCY: { uint64_t l = va_arg(args, uint64_t);
            /* pipes on the way may add their own latency, none takes any away;
             * a request that reached a probe instead of a sink is answered
             * with 0 by uprobe_ubuf_mem (plus what the pipes add: well under
             * 2^30 ticks here), so that only values in between are judged */
            ok = l >= lab_sink_latency || l < (UINT64_C(1) << 30); VH_COUNT("c12.sink_latency_answers"); if (lab_sink_latency >> 32) VH_COUNT("c12.sink_latency_answers_beyond_32_bits"); break; }
    }
    if (!r->registered) r->late++;
    else { r->provided++; if (!ok) r->bad_value = true; }
    /* like the require_* helpers of the library, a requester may renew its
     * request from inside the callback (unregister + register) */
    if (r->registered && c12_cb_depth == 0 && c12_pipes[0] && vh_chance(R, 1, 4)) {
        c12_cb_depth++;
        upipe_unregister_request(c12_pipes[0], &r->req);
        upipe_register_request(c12_pipes[0], &r->req);
        c12_cb_depth--;
        VH_COUNT("c12.renewed_in_callback");
    }
    return UBASE_ERR_NONE;
}

static bool c12_probe_hook(struct rprobe *rp, struct upipe *upipe, int event, va_list args, int *ret_p)
{
    (void)upipe; (void)ret_p;
    if (event == UPROBE_PROVIDE_REQUEST) {
        struct urequest *req = va_arg(args, struct urequest *);
        struct c12_req *r = c12_origin(req);
        if (r) for (int k = 0; k < c12_n; k++) if (c12_pipe_ids[k] == rp->id || (c12_has_q && rp->id == c12_qsrc_id)) r->probe_lodged = true;
    }
    return false;   /* let the real providers answer */
}

static int c12_end_of_chain(void)
{
    int k = 0;
    while (k < c12_n - 1 && c12_out[k] == -2) k++;
    return k;
}

static bool c12_match(struct urequest *req, void *arg) { return c12_origin(req) == (struct c12_req *)arg; }
int lab_sink_count_match(struct upipe *sink, bool (*match)(struct urequest *, void *), void *arg);

static void c12_quiescent_check(const char *after)
{
    if (c12_has_q) mockloop_run(E.upump_mgr, R, 10000, 16);
    int end = c12_end_of_chain();
    char key[96];
    for (int i = 0; i < C12_MAXR; i++) {
        struct c12_req *r = &C12R[i];
        if (r->late) { vh_violation("c12:callback-after-unregister", "after %s: the callback of request %d (%s) was invoked although it is not registered", after, i, urequest_type_str(r->type)); }
        if (r->bad_value) { vh_violation("c12:wrong-answer", "after %s: request %d (%s) received a value that is not the one provided", after, i, urequest_type_str(r->type)); }
        for (int sidx = 0; sidx < 3 && !r->burst; sidx++) {
            int n = lab_sink_count_match(c12_sinks[sidx], c12_match, r);
            int want = r->registered && c12_out[end] == sidx ? 1 : 0;
            if (n != want) {
                snprintf(key, sizeof(key), "c12:%s", n > want ? (want ? "registered-twice" : (r->registered ? "not-withdrawn-from-old-output" : "still-lodged-after-unregister")) : "not-forwarded-to-output");
                vh_violation(key, "after %s: request %d (%s, %s) is lodged %d times on sink %d, expected %d (chain of %d pipes ends at pipe %d whose output is %d)", after, i, urequest_type_str(r->type), r->registered ? "registered" : "not registered", n, sidx, want, c12_n, end, c12_out[end]);
            }
        }
        VH_COUNT("c12.lodging_checks");
    }
}

#include "labbin.inc.c"
static const char *c12_forwarders[] = { "idem", "skip", "delay", "setattr", "setrap", "nodemux", "noclock", "probe_uref", "match_attr", "htons", "dup", "setflowdef", "ts_align", "labbin" };
/* ts_align is a bin (helper_bin_input / helper_bin_output): every flow
 * definition it is given replaces its inner pipe (ts_sync, ts_check or idem),
 * the requests lodged on the bin must follow */
static const char *c12_bin_defs[] = { "block.", "block.mpegts.", "block.mpegtsaligned." };
static bool c12_is_bin[C12_MAXP + 1];

static void c12_case(struct vh_rng *r)
{
    R = r;
    memset(&S, 0, sizeof(S));
    lab_nev = 0; lab_log_overflow = false; lab_inputs_reset(); pooltrack_reset(); lab_nprobes = 0;
    lab_probe_hook = c12_probe_hook;
    lab_env_init(vh_below(R, 3));
    memset(C12R, 0, sizeof(C12R));
    {   /* latency announced by the sinks of this case */
        static const uint64_t lat[] = { 12345, 27000000, UINT64_C(0x1c0000309), UINT64_C(5400000000),
                                        UINT64_C(0x100c0000005), UINT64_C(0xffffffff), UINT64_C(0x7fffffff80000001) };
        lab_sink_latency = lat[vh_below(R, sizeof(lat) / sizeof(lat[0]))];
    }
    c12_n = 1 + vh_below(R, C12_MAXP);
    char names[128] = "";
    for (int k = 0; k < c12_n; k++) {
        const char *nm = c12_forwarders[vh_below(R, sizeof(c12_forwarders) / sizeof(c12_forwarders[0]))];
        const struct desc *d = NULL;
        for (int i = 0; i < NCAT; i++) if (!strcmp(catalogue[i].name, nm)) d = &catalogue[i];
        struct upipe_mgr *mgr = d ? d->mgr_alloc() : labbin_mgr_alloc();
        c12_pipes[k] = upipe_void_alloc(mgr, lab_probe_new(nm, &c12_pipe_ids[k]));
        upipe_mgr_release(mgr);
        c12_is_bin[k] = !strcmp(nm, "ts_align") || !strcmp(nm, "labbin");
        if (!strcmp(nm, "labbin")) VH_COUNT("c12.bins_replacing_their_inner_in_two_steps");
        if (c12_is_bin[k]) {
            struct uref *bfd = make_flow_def(c12_bin_defs[vh_below(R, 3)], 1);
            if (!ubase_check(upipe_set_flow_def(c12_pipes[k], bfd))) vh_violation("c04:ts_align:rejected-own-flow-def", "rejected");
            uref_free(bfd);
        }
        strcat(names, nm); strcat(names, ">");
        vh_count_dyn("c12.pipe.%s", nm);
    }
    c12_is_bin[c12_n] = false;
    c12_qsrc = NULL; c12_has_q = false; c12_cb_depth = 0;
    int burst_mode = (int)vh_arg_int("burst", 1);   /* 0 never, 1 sometimes, 2 every case ends with a queue and bursts often */
    if (c12_n < C12_MAXP + 1 && (burst_mode == 2 || vh_chance(R, 1, 3))) {
        struct upipe_mgr *qm = upipe_qsrc_mgr_alloc();
        c12_qsrc = upipe_qsrc_alloc(qm, lab_probe_new("qsrc", &c12_qsrc_id), 1 + vh_below(R, 4));
        upipe_mgr_release(qm);
        struct upipe_mgr *sm = upipe_qsink_mgr_alloc();
        c12_pipes[c12_n] = upipe_qsink_alloc(sm, lab_probe_new("qsink", &c12_pipe_ids[c12_n]), c12_qsrc);
        upipe_mgr_release(sm);
        if (!c12_qsrc || !c12_pipes[c12_n]) vh_violation("c04:alloc-failed", "queue allocation failed");
        upipe_attach_upump_mgr(c12_qsrc);      /* the queue source creates its watchers on its first control command */
        c12_n++;
        c12_has_q = true;
        strcat(names, "qsink|qsrc>");
        VH_COUNT("c12.chains_with_queue");
        mockloop_run(E.upump_mgr, R, 1000, 4);
    }
    for (int k = 0; k < c12_n - 1; k++) { upipe_set_output(c12_pipes[k], c12_pipes[k + 1]); c12_out[k] = -2; }
    c12_out[c12_n - 1] = -1;
    for (int k = 0; k < 3; k++) { c12_sinks[k] = lab_sink_new("sink", NULL); lab_sink_set_request_mode(c12_sinks[k], vh_below(R, 3)); }
    vh_tr("c12 chain=%s", names);
    int nops = 8 + vh_below(R, 24);
    for (int i = 0; i < nops; i++) {
        int c = vh_below(R, 100);
        if (c < 30) {
            int k = vh_below(R, C12_MAXR);
            struct c12_req *q = &C12R[k];
            if (q->registered || q->burst) continue;
            static const int types[] = { UREQUEST_UREF_MGR, UREQUEST_UBUF_MGR, UREQUEST_UCLOCK, UREQUEST_FLOW_FORMAT, UREQUEST_SINK_LATENCY };
            q->type = types[vh_below(R, 5)];
            struct uref *fd = c12_tagged_uref(k, q->type);
            urequest_init(&q->req, q->type, fd, c12_provide, NULL);
            q->provided = 0; q->late = 0; q->bad_value = false; q->probe_lodged = false;
            q->registered = true;       /* the callback may run during registration */
            OP("register(r%d,%s)", k, urequest_type_str(q->type));
            upipe_register_request(c12_pipes[0], &q->req);
            VH_COUNT("c12.register");
            /* with real providers behind the probes, managers and clocks are answered at once */
            int end = c12_end_of_chain();
            bool via_q = c12_has_q && end == c12_n - 1;
            if (via_q) mockloop_run(E.upump_mgr, R, 10000, 16);
            bool answered_now = (c12_out[end] == -1 && (q->type == UREQUEST_UREF_MGR || q->type == UREQUEST_UCLOCK || q->type == UREQUEST_UBUF_MGR)) ||
                                (c12_out[end] >= 0 && c12_out[end] < 3 && lab_sink_id(c12_sinks[c12_out[end]]) >= 0 && 0);
            if (c12_out[end] == -1 && !q->probe_lodged)
                vh_violation("c12:not-thrown-to-probe", "request r%d (%s) registered on a chain without output was not thrown to the probe of its last pipe", k, urequest_type_str(q->type));
            if (answered_now && !q->provided)
                vh_violation("c12:answer-not-delivered", "request r%d (%s) reached the probe of the last pipe, which provides it, but the requester's callback was not invoked", k, urequest_type_str(q->type));
            if (q->provided) VH_COUNT("c12.answered");
        } else if (c < 45) {
            int k = vh_below(R, C12_MAXR);
            struct c12_req *q = &C12R[k];
            if (!q->registered) continue;
            OP("unregister(r%d)", k);
            q->registered = false;
            upipe_unregister_request(c12_pipes[0], &q->req);
            urequest_clean(&q->req); q->req.uref = NULL;
            VH_COUNT("c12.unregister");
        } else if (c < 70) {
            int k = vh_below(R, c12_n);
            int o = vh_below(R, 6) - 2;          /* -2 next, -1 none, 0..2 sink, 3 an output that only the pipeline references */
            if (o == -2 && k == c12_n - 1) o = -1;
            if (o == 3 && (lab_nprobes > LAB_MAX_PIPES - 4 || (c12_has_q && k == c12_n - 2))) o = -1;
            /* a sink has a single upstream */
            if (o >= 0 && o < 3) { bool used = false; for (int j = 0; j < c12_n; j++) if (j != k && c12_out[j] == o) used = true; if (used) continue; }
            OP("set_output(p%d,%d)", k, o);
            for (int q = 0; q < C12_MAXR; q++) C12R[q].probe_lodged = false;
            struct upipe *target = c12_has_q && k == c12_n - 1 ? c12_qsrc : c12_pipes[k];
            if (o == 3) {
                /* the harness drops its handle at once: the output dies when it is replaced or when the pipe dies */
                struct upipe *tmp = lab_sink_new("tmpsink", NULL);
                lab_sink_set_request_mode(tmp, vh_below(R, 3));
                upipe_set_output(target, tmp);
                upipe_release(tmp);
                VH_COUNT("c12.output_owned_by_the_pipeline");
            } else
                upipe_set_output(target, o == -2 ? c12_pipes[k + 1] : o == -1 ? NULL : c12_sinks[o]);
            c12_out[k] = o;
            VH_COUNT("c12.replumb");
        } else if (c < (burst_mode == 2 ? 80 : 72) && c12_has_q && burst_mode) {
            /* a burst of registrations and withdrawals while the loops do not run:
             * more out-of-band messages than the queue can hold (255) */
            int k = vh_below(R, C12_MAXR);
            struct c12_req *q = &C12R[k];
            if (q->registered || q->burst) continue;
            q->type = vh_chance(R, 1, 2) ? UREQUEST_SINK_LATENCY : UREQUEST_UCLOCK;
            urequest_init(&q->req, q->type, c12_tagged_uref(k, q->type), c12_provide, NULL);
            q->provided = 0; q->late = 0; q->bad_value = false; q->probe_lodged = false;
            int cycles = 120 + vh_below(R, 60), refused = 0;
            OP("burst(r%d,%d cycles)", k, cycles);
            for (int b = 0; b < cycles; b++) {
                q->registered = true;
                if (!ubase_check(upipe_register_request(c12_pipes[0], &q->req))) refused++;
                q->registered = false;
                if (!ubase_check(upipe_unregister_request(c12_pipes[0], &q->req))) refused++;
            }
            urequest_clean(&q->req); q->req.uref = NULL;
            q->burst = true;
            VH_COUNT("c12.bursts");
            if (refused) VH_COUNT("c12.bursts_overflowing_the_oob_queue");
        } else if (c < 85) {
            int sidx = vh_below(R, 3);
            OP("sink%d.provide_all", sidx);
            int before[C12_MAXR];
            for (int q = 0; q < C12_MAXR; q++) before[q] = C12R[q].provided;
            lab_sink_provide_all(c12_sinks[sidx]);
            int end = c12_end_of_chain();
            if (c12_has_q) mockloop_run(E.upump_mgr, R, 10000, 16);
            for (int q = 0; q < C12_MAXR; q++)
                if (C12R[q].registered && c12_out[end] == sidx && C12R[q].provided == before[q])
                    vh_violation("c12:answer-not-delivered", "sink %d provided request r%d (%s) but the original requester's callback was not invoked", sidx, q, urequest_type_str(C12R[q].type));
                else if (C12R[q].registered && c12_out[end] == sidx) VH_COUNT("c12.answered");
        } else if (c < 90) {
            int sidx = vh_below(R, 3), m = vh_below(R, 3);
            OP("sink%d.request_mode=%d", sidx, m);
            lab_sink_set_request_mode(c12_sinks[sidx], m);
        } else if (c < 96) {
            /* the inner pipe of a bin is replaced: withdrawn from the old one, re-issued to the new one */
            int k = vh_below(R, c12_n);
            if (!c12_is_bin[k]) continue;
            int v = vh_below(R, 3);
            OP("bin_set_flow_def(p%d,%s)", k, c12_bin_defs[v]);
            for (int q = 0; q < C12_MAXR; q++) C12R[q].probe_lodged = false;
            struct uref *bfd = make_flow_def(c12_bin_defs[v], 1);
            if (!ubase_check(upipe_set_flow_def(c12_pipes[k], bfd))) vh_violation("c04:ts_align:rejected-own-flow-def", "rejected");
            uref_free(bfd);
            VH_COUNT("c12.bin_inner_replaced");
        } else {
            /* answers arriving after unregistration must not reach the requester */
            for (int sidx = 0; sidx < 3; sidx++) lab_sink_provide_all(c12_sinks[sidx]);
        }
        c12_quiescent_check(opname);
    }
    /* teardown: some requests are withdrawn first, the others stay pending */
    for (int q = 0; q < C12_MAXR; q++)
        if (C12R[q].registered && vh_chance(R, 1, 2)) { C12R[q].registered = false; upipe_unregister_request(c12_pipes[0], &C12R[q].req); urequest_clean(&C12R[q].req); C12R[q].req.uref = NULL; }
    int order[C12_MAXP + 1] = { 0, 1, 2, 3 };
    for (int k = c12_n - 1; k > 0; k--) { int j = vh_below(R, k + 1); int t = order[k]; order[k] = order[j]; order[j] = t; }
    for (int k = 0; k < c12_n; k++) { upipe_release(c12_pipes[order[k]]); c12_pipes[order[k]] = NULL; }
    if (c12_has_q) { mockloop_run(E.upump_mgr, R, 10000, 16); upipe_release(c12_qsrc); mockloop_run(E.upump_mgr, R, 10000, 16); }
    /* the pipes are gone: nothing of theirs may remain lodged on the sinks */
    for (int q = 0; q < C12_MAXR; q++) {
        C12R[q].registered = false;      /* pending requests die with the pipe they were registered on */
        for (int sidx = 0; sidx < 3; sidx++)
            if (!C12R[q].burst && lab_sink_count_match(c12_sinks[sidx], c12_match, &C12R[q]))
                vh_violation("c12:still-lodged-after-release", "request r%d is still registered on sink %d after the whole chain was released", q, sidx);
        if (C12R[q].req.uref) { uref_free(C12R[q].req.uref); C12R[q].req.uref = NULL; }
    }
    for (int sidx = 0; sidx < 3; sidx++) if (lab_sink_nb_requests(c12_sinks[sidx]))
        vh_violation("c12:proxy-left-on-output", "sink %d still holds %d registrations after the whole chain was released", sidx, lab_sink_nb_requests(c12_sinks[sidx]));
    for (int k = 0; k < 3; k++) upipe_release(c12_sinks[k]);
    check_c04(&S);
    lab_probes_release();
    long live = pooltrack_live();
    if (live) vh_violation("c01:c12:objects-still-held", "%ld pooled objects still held after a request history", live);
    struct umem_mgr *umem_keep = umem_mgr_use(E.umem);
    struct cumem_stats *cst = cumem_stats(umem_keep);
    const char *bad = lab_env_fini();
    if (bad && strcmp(bad, "umem_mgr")) vh_violation("c01:c12:manager-still-referenced", "%s still referenced after a request history (a proxy or an answer was leaked)", bad);
    if (cst->live) vh_violation("c01:c12:memory-still-allocated", "%ld umem blocks still allocated after a request history", (long)cst->live);
    umem_mgr_release(umem_keep);
    vh_nontrivial(case_hash);
}

/* C14 metamorphic check: the unit sequence of a stream re-chunker depends only
 * on the byte stream, not on how it is cut into buffers */
static void c14_cutting_case(struct vh_rng *r)
{
    R = r;
    uint64_t opt = 0;
    do opt = g_chunk(R); while (!v_chunk(opt));
    size_t n = vh_chance(R, 1, 10) ? 0 : vh_below(R, 3000);
    uint8_t *stream = malloc(n + 1);
    for (size_t i = 0; i < n; i++) stream[i] = (uint8_t)vh_rand(R);
    int ncut = 2 + vh_below(R, 3);
    struct { int n; size_t *sz; uint64_t *h; } res[4];
    vh_tr("cutting: chunk_stream mtu=%u align=%u stream=%zu cuttings=%d", (unsigned)(opt >> 32), (unsigned)opt, n, ncut);
    for (int c = 0; c < ncut; c++) {
        memset(&S, 0, sizeof(S));
        lab_nev = 0; lab_log_overflow = false; lab_inputs_reset(); pooltrack_reset(); lab_nprobes = 0; lab_probe_hook = NULL;
        lab_env_init(vh_below(R, 3));
        struct upipe_mgr *mgr = upipe_chunk_stream_mgr_alloc();
        int pid;
        struct upipe *pipe = upipe_void_alloc(mgr, lab_probe_new("chunk_stream", &pid));
        struct upipe *sink = lab_sink_new("sink0", NULL);
        struct uref *fd = make_flow_def("block.", 1);
        upipe_set_flow_def(pipe, fd); uref_free(fd);
        upipe_set_output(pipe, sink);
        if (!ubase_check(o_chunk_set(pipe, opt))) vh_violation("c20:chunk_stream:mtu_align:valid-value-rejected", "set_mtu rejected");
        size_t pos = 0;
        int style = vh_below(R, 4);
        while (pos < n) {
            size_t k = style == 0 ? 1 : style == 1 ? 1 + vh_below(R, 4) : style == 2 ? 1 + vh_below(R, 200) : 1 + vh_below(R, 1500);
            if (vh_chance(R, 1, 12)) k = 0;
            if (k > n - pos) k = n - pos;
            struct uref *u = uref_block_alloc(E.uref_mgr, E.block_mgr, (int)k);
            if (k) { uint8_t *w; int ws = -1; uref_block_write(u, 0, &ws, &w); memcpy(w, stream + pos, k); uref_block_unmap(u, 0); }
            if (k > 3 && vh_chance(R, 1, 3)) { struct ubuf *t = ubuf_block_split(u->ubuf, 1 + vh_below(R, (uint32_t)k - 1)); if (t) ubuf_block_append(u->ubuf, t); }
            upipe_input(pipe, u, NULL);
            pos += k;
            VH_COUNT("c14.cut_buffers");
        }
        lab_sink_burst = 0; lab_sink_burst_limit = 64 + 4 * 70000; lab_burst_pipe = "chunk_stream"; lab_steps = 0; lab_step_limit = 4000000;
        upipe_release(pipe);
        lab_sink_burst_limit = 0; lab_step_limit = 0;
        upipe_release(sink);
        res[c].n = lab_ninputs;
        res[c].sz = malloc(sizeof(size_t) * (lab_ninputs + 1));
        res[c].h = malloc(sizeof(uint64_t) * (lab_ninputs + 1));
        size_t total = 0;
        for (int i = 0; i < lab_ninputs; i++) {
            res[c].sz[i] = lab_inputs[i].size; res[c].h[i] = lab_inputs[i].payload_hash;
            if (total + lab_inputs[i].size > n || (lab_inputs[i].copy && memcmp(lab_inputs[i].copy, stream + total, lab_inputs[i].size)))
                vh_violation("c14:chunk_stream:octets-not-from-input-in-order", "cutting %d: unit %d is not the next octets of the stream", c, i);
            total += lab_inputs[i].size;
        }
        lab_probes_release();
        lab_env_fini();
        if (c > 0) {
            bool same = res[c].n == res[0].n;
            for (int i = 0; same && i < res[c].n; i++) same = res[c].sz[i] == res[0].sz[i] && res[c].h[i] == res[0].h[i];
            if (!same) vh_violation("c14:chunk_stream:depends-on-cutting", "the same %zu-octet stream gives %d units under one cutting and %d under another (or different contents)", n, res[0].n, res[c].n);
            VH_COUNT("c14.cuttings_compared");
        }
    }
    for (int c = 0; c < ncut; c++) { free(res[c].sz); free(res[c].h); }
    free(stream);
    vh_nontrivial(vh_hash_mix(opt, n));
}

/* ------------------------------------------------------------------ */
/* sub-pipe topologies of the TS section splitter and joiner (C04 life cycle */
/* of super- and sub-pipes, C01 ownership, routing / exactly-once)          */
/* ------------------------------------------------------------------ */
#define SP_MAXSUB 4
static void subpipe_case(struct vh_rng *r)
{
    R = r;
    memset(&S, 0, sizeof(S));
    lab_nev = 0; lab_log_overflow = false; lab_inputs_reset(); in_reset(); pooltrack_reset(); lab_nprobes = 0; lab_probe_hook = NULL;
    src_pump = NULL;
    lab_env_init(vh_chance(R, 1, 2) ? 0 : 1 + vh_below(R, 3));
    /* 0 section splitter, 1 section joiner, 2 dejitter: a one-to-one super-pipe
     * whose sub-pipes are one-to-one pipes of their own */
    int kind = vh_below(R, 3);
    bool join = kind == 1, dej = kind == 2;
    const char *name = dej ? "dejitter" : join ? "ts_psi_join" : "ts_psi_split";
    vh_count_dyn("pipe.%s", name);
    struct upipe *sinks[4]; int sink_ids[4]; bool sink_accept[4]; int sink_user[4];   /* -1 free, 100 super, k sub */
    for (int k = 0; k < 4; k++) { char nm[16]; snprintf(nm, sizeof(nm), "sink%d", k); sinks[k] = lab_sink_new(nm, &sink_ids[k]); sink_accept[k] = true; sink_user[k] = -1; }
    struct upipe_mgr *mgr = dej ? upipe_dejitter_mgr_alloc() : join ? upipe_ts_psi_join_mgr_alloc() : upipe_ts_psi_split_mgr_alloc();
    int super_id;
    struct upipe *super;
    struct uref *fd = make_flow_def("block.mpegtspsi.", 1);
    if (join) super = upipe_flow_alloc(mgr, lab_probe_new(name, &super_id), fd);
    else super = upipe_void_alloc(mgr, lab_probe_new(name, &super_id));
    upipe_mgr_release(mgr);
    if (!super) vh_violation("c04:alloc-failed", "allocation of %s failed", name);
    bool super_flow = join;
    if (!join && vh_chance(R, 4, 5)) { OP("super.set_flow_def"); if (!ubase_check(upipe_set_flow_def(super, fd))) { char k2[96]; snprintf(k2, sizeof(k2), "c04:%s:rejected-own-flow-def", name); vh_violation(k2, "rejected"); } super_flow = true; }
    uref_free(fd);
    struct upipe *subs[SP_MAXSUB] = { NULL }; int sub_ids[SP_MAXSUB]; bool sub_flow[SP_MAXSUB] = { false };
    uint8_t filt[SP_MAXSUB][4], mask[SP_MAXSUB][4]; int fsize[SP_MAXSUB] = { 0 }; int sub_out[SP_MAXSUB];
    for (int k = 0; k < SP_MAXSUB; k++) sub_out[k] = -1;
    int super_out = -1;
    uint64_t seq = 0, expected[8] = { 0 };   /* per sink: deliveries owed */
    int nops = 10 + vh_below(R, 30);
    for (int i = 0; i < nops; i++) {
        int c = vh_below(R, 100);
        if (c < 18) {                                           /* allocate a sub-pipe */
            int k = vh_below(R, SP_MAXSUB);
            if (subs[k] || !super) continue;
            if (join || dej) {
                OP("sub%d=void_alloc_sub", k);
                subs[k] = upipe_void_alloc_sub(super, lab_probe_new(dej ? "dejitter_sub" : "psi_join_sub", &sub_ids[k]));
            } else {
                struct uref *sfd = make_flow_def("block.mpegtspsi.", 2 + k);
                fsize[k] = 1 + vh_below(R, 4);
                for (int b = 0; b < fsize[k]; b++) { mask[k][b] = vh_chance(R, 1, 3) ? 0xff : (uint8_t)vh_rand(R); filt[k][b] = (uint8_t)(vh_below(R, 4) & mask[k][b]); }
                uref_ts_flow_set_psi_filter(sfd, filt[k], mask[k], (size_t)fsize[k]);
                OP("sub%d=flow_alloc_sub(filter %d octets)", k, fsize[k]);
                subs[k] = upipe_flow_alloc_sub(super, lab_probe_new("psi_split_sub", &sub_ids[k]), sfd);
                uref_free(sfd);
                sub_flow[k] = true;
            }
            if (!subs[k]) vh_violation("c04:sub-alloc-failed", "sub-pipe allocation failed");
            lab_ev(EV_DRIVER, D_SUB_ALLOC, k, 0, 0, NULL, "");
            VH_COUNT("op.sub_alloc");
        } else if (c < 30) {                                    /* plumbing */
            int idx = vh_chance(R, 1, 6) ? -1 : (int)vh_below(R, 4);
            if (join || (dej && vh_chance(R, 1, 3))) {
                if (!super) continue;
                if (idx >= 0 && sink_user[idx] != -1 && sink_user[idx] != 100) continue;
                OP("super.set_output(%d)", idx);
                lab_ev(EV_DRIVER, D_SET_OUTPUT, idx >= 0 ? sink_ids[idx] : -1, super_id, 0, NULL, "");
                upipe_set_output(super, idx >= 0 ? sinks[idx] : NULL);
                if (super_out >= 0) sink_user[super_out] = -1;
                super_out = idx; if (idx >= 0) sink_user[idx] = 100;
            } else {
                int k = vh_below(R, SP_MAXSUB);
                if (!subs[k]) continue;
                if (idx >= 0 && sink_user[idx] != -1 && sink_user[idx] != k) continue;
                OP("sub%d.set_output(%d)", k, idx);
                lab_ev(EV_DRIVER, D_SUB_SET_OUTPUT, idx >= 0 ? sink_ids[idx] : -1, sub_ids[k], 0, NULL, "");
                upipe_set_output(subs[k], idx >= 0 ? sinks[idx] : NULL);
                if (sub_out[k] >= 0) sink_user[sub_out[k]] = -1;
                sub_out[k] = idx; if (idx >= 0) sink_user[idx] = k;
            }
            VH_COUNT("op.set_output");
        } else if (c < 38 && (join || dej)) {                   /* flow definition of an input of the joiner / of a dejitter sub-pipe */
            int k = vh_below(R, SP_MAXSUB);
            if (!subs[k]) continue;
            bool bad = !dej && vh_chance(R, 1, 6);
            struct uref *sfd = make_flow_def(bad ? "pic." : "block.mpegtspsi.", 1 + vh_below(R, 3));
            OP("sub%d.set_flow_def(%s)", k, bad ? "pic." : "psi");
            int err = upipe_set_flow_def(subs[k], sfd);
            uref_free(sfd);
            if (bad && ubase_check(err)) vh_violation("c04:ts_psi_join:accepted-foreign-flow-def", "an input of the joiner accepted pic.");
            if (!bad && !ubase_check(err)) vh_violation("c04:ts_psi_join:rejected-own-flow-def", "an input of the joiner rejected its flow definition (%d)", err);
            if (!bad) sub_flow[k] = true;
            VH_COUNT("op.set_flow_def");
        } else if (c < 75) {                                    /* a section */
            size_t n = 3 + vh_below(R, 60);
            struct uref *u = uref_block_alloc(E.uref_mgr, E.block_mgr, (int)n);
            uint8_t *w; int ws = -1;
            uref_block_write(u, 0, &ws, &w);
            for (size_t b = 0; b < n; b++) w[b] = (uint8_t)vh_below(R, 4);
            w[1] = (uint8_t)(0xb0 | ((n - 3) >> 8)); w[2] = (uint8_t)(n - 3);
            uint8_t head[4] = { w[0], n > 1 ? w[1] : 0, n > 2 ? w[2] : 0, n > 3 ? w[3] : 0 };
            uref_block_unmap(u, 0);
            uref_attr_set_unsigned(u, seq, UDICT_TYPE_UNSIGNED, "x.seq");
            struct upipe *target = NULL;
            int tk = -1;      /* dejitter: which one-to-one path is taken (SP_MAXSUB = the super-pipe itself) */
            if (join) { int k = vh_below(R, SP_MAXSUB); if (subs[k] && sub_flow[k]) target = subs[k]; }
            else if (dej) {
                tk = vh_below(R, SP_MAXSUB + 1);
                if (tk == SP_MAXSUB) { if (super && super_flow) target = super; }
                else if (subs[tk] && sub_flow[tk]) target = subs[tk];
                if (vh_chance(R, 1, 2)) uref_clock_set_dts_prog(u, 27000000 + seq * 1080000);
            }
            else if (super && super_flow) target = super;
            if (!target) { uref_free(u); continue; }
            OP("input(seq %" PRIu64 ",%zu)", seq, n);
            lab_ev(EV_DRIVER, D_INPUT, (int)seq, 0, 0, NULL, "");
            int first_new = lab_ninputs;
            upipe_input(target, u, NULL);
            /* routing / exactly-once oracle */
            int want[8] = { 0 };
            if (join) { if (super_out >= 0 && sink_accept[super_out]) want[sink_ids[super_out] & 7] = 1; }
            else if (dej) { int o = tk == SP_MAXSUB ? super_out : sub_out[tk]; if (o >= 0 && sink_accept[o]) want[sink_ids[o] & 7] = 1; }
            else for (int k = 0; k < SP_MAXSUB; k++) {
                if (!subs[k] || sub_out[k] < 0 || !sink_accept[sub_out[k]]) continue;
                bool m = (size_t)fsize[k] <= n;
                for (int b = 0; m && b < fsize[k]; b++) if ((head[b] & mask[k][b]) != filt[k][b]) m = false;
                if (m) want[sink_ids[sub_out[k]] & 7] = 1;
            }
            int got[8] = { 0 };
            for (int q = first_new; q < lab_ninputs; q++) if (lab_inputs[q].sink >= 0 && lab_inputs[q].sink < 8) { got[lab_inputs[q].sink]++; if (lab_inputs[q].seq != seq) vh_violation_noabort(dej ? "c05:dejitter:wrong-buffer" : join ? "c05:ts_psi_join:wrong-buffer" : "c05:ts_psi_split:wrong-buffer", "a sink received seq %" PRIu64 " while %" PRIu64 " was sent", lab_inputs[q].seq, seq); }
            for (int q = 0; q < 8; q++) if (got[q] != want[q]) { char key[96]; snprintf(key, sizeof(key), "c05:%s:%s", name, got[q] < want[q] ? "buffer-lost" : "buffer-duplicated-or-misrouted");
                vh_violation_noabort(key, "section seq %" PRIu64 " (%zu octets, table 0x%02x) delivered %d times to sink %d, expected %d", seq, n, head[0], got[q], q, want[q]); }
            (void)expected;
            seq++;
            S.inputs++;
            VH_COUNT("op.input"); VH_COUNT("c05.deliveries_checked");
        } else if (c < 82) {                                    /* sink scripting (takes effect at the next negotiation) */
            int k = vh_below(R, 4);
            if (sink_user[k] != -1) continue;
            sink_accept[k] = !vh_chance(R, 1, 3);
            OP("sink%d accept=%d", k, sink_accept[k]);
            lab_sink_set_accept(sinks[k], sink_accept[k]);
        } else if (c < 92) {                                    /* release a sub-pipe */
            int k = vh_below(R, SP_MAXSUB);
            if (!subs[k]) continue;
            OP("sub%d.release", k);
            lab_ev(EV_DRIVER, D_SUB_RELEASE, k, 0, 0, NULL, "");
            upipe_release(subs[k]); subs[k] = NULL; sub_flow[k] = false;
            if (sub_out[k] >= 0) { sink_user[sub_out[k]] = -1; sub_out[k] = -1; }
            VH_COUNT("op.sub_release");
        } else if (c < 95 && super) {                           /* the super-pipe goes first: its sub-pipes keep it alive */
            OP("super.release");
            lab_ev(EV_DRIVER, D_RELEASE, super_id, 0, 0, NULL, "");
            upipe_release(super); super = NULL;
            VH_COUNT("op.super_released_before_subs");
        }
    }
    /* teardown in random order */
    if (super && vh_chance(R, 1, 2)) { OP("super.release"); lab_ev(EV_DRIVER, D_RELEASE, super_id, 0, 0, NULL, ""); upipe_release(super); super = NULL; }
    for (int k = 0; k < SP_MAXSUB; k++) if (subs[k]) { OP("sub%d.release(final)", k); upipe_release(subs[k]); subs[k] = NULL; }
    if (super) { OP("super.release(final)"); lab_ev(EV_DRIVER, D_RELEASE, super_id, 0, 0, NULL, ""); upipe_release(super); super = NULL; }
    for (int k = 0; k < 4; k++) upipe_release(sinks[k]);
    mockloop_run(E.upump_mgr, R, 1000, 8);
    check_c04(&S);
    char key[96];
    int probes_left = lab_probes_release();
    if (probes_left) { snprintf(key, sizeof(key), "c01:%s:probe-still-referenced", name); vh_violation(key, "%d probes still referenced after every pipe was released", probes_left); }
    long live = pooltrack_live();
    if (pooltrack_violations) vh_violation("c01:pool-discipline", "%s (pipe %s)", pooltrack_msg, name);
    if (live) { snprintf(key, sizeof(key), "c01:%s:objects-still-held", name); vh_violation(key, "%ld pooled objects still held after the super-pipe, its sub-pipes and all handles were released", live); }
    struct umem_mgr *umem_keep = umem_mgr_use(E.umem);
    struct cumem_stats *cst = cumem_stats(umem_keep);
    const char *bad_mgr = lab_env_fini();
    if (bad_mgr && strcmp(bad_mgr, "umem_mgr")) { snprintf(key, sizeof(key), "c01:%s:manager-still-referenced", name); vh_violation(key, "%s is not back to a single reference", bad_mgr); }
    if (cst->live) { snprintf(key, sizeof(key), "c01:%s:memory-still-allocated", name); vh_violation(key, "%ld umem blocks still allocated", (long)cst->live); }
    umem_mgr_release(umem_keep);
    VH_COUNT("c01.accounted_cases");
    VH_COUNT("subpipe.cases");
}

#include "lifecycle.inc.c"
#include "fsrc.inc.c"
#include "blit.inc.c"

static void run_case(struct vh_rng *r)
{
    case_hash = 0;
    if ((mode == MODE_C01 || mode == MODE_C04) && (lc_only >= 0 || (only_pipe < 0 && vh_chance(r, 1, 8)))) {
        lifecycle_case(r);
        if (S.inputs >= 1) vh_nontrivial(case_hash);
        if (vh_want_sample()) vh_sample("%s", vh_trace);
        return;
    }
    if ((mode == MODE_C01 || mode == MODE_C04 || mode == MODE_C05) && only_pipe < 0 && vh_chance(r, 1, 12)) {
        subpipe_case(r);
        if (S.inputs >= 3) vh_nontrivial(case_hash);
        if (vh_want_sample()) vh_sample("%s", vh_trace);
        return;
    }
    if (mode == MODE_C20 && only_pipe < 0 && vh_chance(r, 1, 10)) { c20_blit_case(r); if (vh_want_sample()) vh_sample("%s", vh_trace); return; }
    if (mode == MODE_C20 && only_pipe < 0 && vh_chance(r, 1, 10)) { c20_fsrc_case(r); if (vh_want_sample()) vh_sample("%s", vh_trace); return; }
    if (mode == MODE_C12) { c12_case(r); if (vh_want_sample()) vh_sample("%s", vh_trace); return; }
    if (mode == MODE_C14 && only_pipe < 0 && vh_chance(r, 1, 3)) { c14_cutting_case(r); if (vh_want_sample()) vh_sample("%s", vh_trace); return; }
    uint64_t seed = vh_rand(r);
    if (mode != MODE_C20) {
        exec_history(seed, false, NULL);
    } else {
        /* differential twin run: same history with and without getters */
        struct hist_out a = { 0 }, b = { 0 }, c = { 0 };
        exec_history(seed, false, &a);
        uint64_t h1 = case_hash;
        case_hash = 0;
        exec_history(seed, true, &b);
        /* third twin: the calls that must be rejected are not made at all */
        skip_rejected = true;
        case_hash = 0;
        exec_history(seed, false, &c);
        skip_rejected = false;
        case_hash = h1;
        const char *name = S.d->name;
        char key[96];
        bool same = a.n == b.n && a.ndefs == b.ndefs;
        for (int i = 0; same && i < a.n; i++) same = a.o[i].sink == b.o[i].sink && a.o[i].seq == b.o[i].seq && a.o[i].hash == b.o[i].hash && a.o[i].size == b.o[i].size;
        for (int i = 0; same && i < a.ndefs; i++) same = a.defs[i] == b.defs[i];
        bool same_c = a.n == c.n && a.ndefs == c.ndefs;
        for (int i = 0; same_c && i < a.n; i++) same_c = a.o[i].sink == c.o[i].sink && a.o[i].seq == c.o[i].seq && a.o[i].hash == c.o[i].hash && a.o[i].size == c.o[i].size;
        for (int i = 0; same_c && i < a.ndefs; i++) same_c = a.defs[i] == c.defs[i];
        int na = a.n, nb = b.n, nc = c.n;
        free(a.o); free(b.o); free(c.o); free(a.defs); free(b.defs); free(c.defs);
        if (!same) { snprintf(key, sizeof(key), "c20:%s:getter-changes-behaviour", name);
            vh_violation(key, "the same history delivers %d buffers without getters and %d with getters interleaved (or different contents / negotiations)", na, nb); }
        if (!same_c) { snprintf(key, sizeof(key), "c20:%s:rejected-setter-changes-behaviour", name);
            vh_violation(key, "the same history delivers %d buffers, but %d (or different contents / negotiations) when the calls that were rejected (foreign flow definition, invalid option value) are not made at all", na, nc); }
        VH_COUNT("c20.twin_runs_compared");
    }
    if (S.inputs >= 3) vh_nontrivial(case_hash);
    if (vh_want_sample()) vh_sample("%s", vh_trace);
}

static void init(void)
{
    pooltrack_install();
    const char *m = vh_opts.mode;
    mode = !strcmp(m, "c04") ? MODE_C04 : !strcmp(m, "c05") ? MODE_C05 : !strcmp(m, "c20") ? MODE_C20 : !strcmp(m, "c12") ? MODE_C12 : !strcmp(m, "c14") ? MODE_C14 : MODE_C01;
    const char *p = vh_arg("pipe", NULL);
    if (p) for (int i = 0; i < NCAT; i++) if (!strcmp(catalogue[i].name, p)) only_pipe = i;
    const char *lp = vh_arg("lc-pipe", NULL);
    if (lp) for (int i = 0; i < LC_NCAT; i++) if (!strcmp(lc_cat[i].name, lp)) lc_only = i;
}

static const struct vh_lab lab = { "pipelab", init, run_case, NULL };
int main(int argc, char **argv) { return vh_main(argc, argv, &lab); }
