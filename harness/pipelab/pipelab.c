/* E3 — pipe laboratory driver.  One execution feeds several oracles:
 *   C04 event-order automaton, C05 exactly-once/in-order/transform ledger,
 *   C01 ownership accounting (pools, umem, refcounts), C20 option shadow +
 *   differential twin run, C12 request registration model.
 * The driver behaves like a well-behaved upstream (see DESIGN.md 2.4). */
#include "lab.h"

#include "upipe/umem.h"
#include "upipe/udict.h"
#include "upipe/uref_std.h"
#include "upipe/uref_block.h"
#include "upipe/uref_block_flow.h"
#include "upipe/uref_flow.h"
#include "upipe/uref_clock.h"
#include "upipe/uref_attr.h"
#include "upipe/uref_dump.h"
#include "upipe/ubuf_block.h"
#include "upipe/upump.h"

#include "upipe-modules/upipe_idem.h"
#include "upipe-modules/upipe_null.h"
#include "upipe-modules/upipe_skip.h"
#include "upipe-modules/upipe_htons.h"
#include "upipe-modules/upipe_delay.h"
#include "upipe-modules/upipe_setattr.h"
#include "upipe-modules/upipe_setflowdef.h"
#include "upipe-modules/upipe_setrap.h"
#include "upipe-modules/upipe_match_attr.h"
#include "upipe-modules/upipe_probe_uref.h"
#include "upipe-modules/upipe_nodemux.h"
#include "upipe-modules/upipe_noclock.h"
#include "upipe-modules/upipe_dup.h"
#include "upipe-modules/upipe_aggregate.h"
#include "upipe-modules/upipe_chunk_stream.h"
#include "upipe-modules/upipe_genaux.h"
#include "upipe-modules/upipe_time_limit.h"
#include "upipe-modules/upipe_buffer.h"
#include "upipe-modules/upipe_rate_limit.h"
#include "upipe-modules/upipe_queue_sink.h"
#include "upipe-modules/upipe_queue_source.h"

#include <stdlib.h>
#include <string.h>
#include <inttypes.h>

static struct vh_rng *R;
static uint64_t case_hash;
static char opbuf[200];
static const char *opname = "";
#define OP(...) do { snprintf(opbuf, sizeof(opbuf), __VA_ARGS__); opname = opbuf; vh_tr("%s", opbuf); case_hash = vh_hash_bytes(case_hash, opbuf, strlen(opbuf)); } while (0)

enum { MODE_C01, MODE_C04, MODE_C05, MODE_C20, MODE_C12, MODE_C14 };
static int mode;

/* ------------------------------------------------------------------ */
/* catalogue                                                          */
/* ------------------------------------------------------------------ */
enum klass {
    K_IDENTITY,     /* one output per input, payload identical */
    K_TRANSFORM,    /* one output per input, payload = xform(input) */
    K_FILTER,       /* each input forwarded unchanged or freed */
    K_SINK,         /* no output */
    K_DUP,          /* main + sub outputs each get every input */
    K_REGROUP,      /* byte-stream regrouping (C14) */
    K_HOLD,         /* may hold input: asynchronous delivery, in order */
    K_OTHER,        /* generic oracles only */
};

struct st;      /* per-case pipe state */
struct desc {
    const char *name;
    struct upipe_mgr *(*mgr_alloc)(void);
    enum klass klass;
    const char *def;            /* accepted flow definition (block.<suffix>) */
    const char *bad_def;        /* a definition the pipe must reject, or NULL when it accepts anything */
    void (*setup)(struct st *);         /* after allocation */
    void (*rand_ctl)(struct st *);      /* a pipe-specific control call (options) */
    /* expected payload: returns false when the output must be absent (filtered) */
    bool (*expect)(struct st *, const uint8_t *in, size_t n, uint64_t seq, uint8_t *out, size_t *outn);
    bool attrs_change;          /* dictionary legitimately differs from the input's */
    bool needs_loop;            /* uses pumps: run the mock loop */
};

#define MAXSUB 3
struct st {
    const struct desc *d;
    struct upipe *pipe;
    int pipe_id;                /* probe identity */
    struct upipe *sinks[4];
    int sink_ids[4];
    int cur_out;                /* index into sinks, -1 none */
    bool sink_accept[4];
    bool flow_ok;               /* the pipe has accepted a flow definition */
    uint64_t cur_def_seed;
    /* sub-pipes (dup) */
    struct upipe *subs[MAXSUB];
    int sub_ids[MAXSUB];
    int sub_out[MAXSUB];        /* sink index or -1 */
    int nsubs;
    /* options shadow */
    uint64_t skip_offset;
    int64_t delay;
    uint64_t rap;
    uint64_t match_min, match_max; bool match_set;
    bool probe_drop;
    uint64_t setattr_seed; bool setattr_set;
    struct uref *setattr_dict;
    bool released;
    uint64_t next_seq;
    uint64_t inputs, outputs_expected;
};
static struct st S;

/* --- reference transforms --- */
static bool x_identity(struct st *s, const uint8_t *in, size_t n, uint64_t seq, uint8_t *out, size_t *outn)
{ (void)s; (void)seq; memcpy(out, in, n); *outn = n; return true; }

static bool x_skip(struct st *s, const uint8_t *in, size_t n, uint64_t seq, uint8_t *out, size_t *outn)
{
    (void)seq;
    size_t off = s->skip_offset <= n ? s->skip_offset : 0;   /* cannot skip more than there is: forwarded as is */
    memcpy(out, in + off, n - off); *outn = n - off;
    return true;
}

static bool x_htons(struct st *s, const uint8_t *in, size_t n, uint64_t seq, uint8_t *out, size_t *outn)
{
    (void)s; (void)seq;
    memcpy(out, in, n);
    for (size_t i = 0; i + 1 < n; i += 2) { out[i] = in[i + 1]; out[i + 1] = in[i]; }
    *outn = n;
    return true;
}

static bool x_match(struct st *s, const uint8_t *in, size_t n, uint64_t seq, uint8_t *out, size_t *outn)
{
    memcpy(out, in, n); *outn = n;
    if (!s->match_set) return true;
    return seq >= s->match_min && seq <= s->match_max;
}

static bool x_probe(struct st *s, const uint8_t *in, size_t n, uint64_t seq, uint8_t *out, size_t *outn)
{ (void)seq; memcpy(out, in, n); *outn = n; return !s->probe_drop; }

/* --- setups / controls --- */
static int match_seq(struct uref *uref, uint64_t min, uint64_t max)
{
    uint64_t v;
    if (!ubase_check(uref_attr_get_unsigned(uref, &v, UDICT_TYPE_UNSIGNED, "x.seq"))) return UBASE_ERR_INVALID;
    return (v >= min && v <= max) ? UBASE_ERR_NONE : UBASE_ERR_INVALID;
}

static void ctl_skip(struct st *s)
{
    uint64_t off = vh_below(R, 12);
    OP("skip_set_offset(%" PRIu64 ")", off);
    if (ubase_check(upipe_skip_set_offset(s->pipe, off))) s->skip_offset = off;
}
static void ctl_delay(struct st *s)
{
    int64_t d = vh_chance(R, 1, 4) ? 0 : vh_range(R, -1000, 100000);
    OP("delay_set_delay(%" PRId64 ")", d);
    if (ubase_check(upipe_delay_set_delay(s->pipe, d))) s->delay = d;
}
static void ctl_setrap(struct st *s)
{
    uint64_t rap = vh_chance(R, 1, 4) ? UINT64_MAX : vh_below(R, 1000);
    OP("setrap_set_rap(%" PRIu64 ")", rap);
    if (ubase_check(upipe_setrap_set_rap(s->pipe, rap))) s->rap = rap;
}
static void ctl_match(struct st *s)
{
    uint64_t a = vh_below(R, 30), b = a + vh_below(R, 30);
    OP("match_attr(%" PRIu64 ",%" PRIu64 ")", a, b);
    upipe_match_attr_set_uint64_t(s->pipe, match_seq);
    upipe_match_attr_set_boundaries(s->pipe, a, b);
    s->match_min = a; s->match_max = b; s->match_set = true;
}
static void ctl_probe(struct st *s)
{
    s->probe_drop = vh_chance(R, 1, 3);
    OP("probe_uref drop=%d", s->probe_drop);
}
static struct uref *make_dict(uint64_t seed)
{
    struct uref *d = uref_alloc_control(E.uref_mgr);
    struct vh_rng r; vh_rng_seed(&r, seed);
    int n = 1 + vh_below(&r, 3);
    for (int i = 0; i < n; i++) {
        char name[16]; snprintf(name, sizeof(name), "y.a%u", vh_below(&r, 4));
        if (vh_chance(&r, 1, 2)) uref_attr_set_unsigned(d, vh_below(&r, 1000), UDICT_TYPE_UNSIGNED, name);
        else { char v[12]; snprintf(v, sizeof(v), "v%u", vh_below(&r, 100)); uref_attr_set_string(d, v, UDICT_TYPE_STRING, name); }
    }
    return d;
}
static void ctl_setattr(struct st *s)
{
    uint64_t seed = vh_rand(R);
    struct uref *d = make_dict(seed);
    OP("setattr_set_dict(%" PRIx64 ")", seed & 0xffff);
    if (ubase_check(upipe_setattr_set_dict(s->pipe, d))) {
        uref_free(s->setattr_dict);
        s->setattr_dict = d;
        s->setattr_set = true;
    } else uref_free(d);
}
static void ctl_setflowdef(struct st *s)
{
    uint64_t seed = vh_rand(R);
    struct uref *d = make_dict(seed);
    OP("setflowdef_set_dict(%" PRIx64 ")", seed & 0xffff);
    upipe_setflowdef_set_dict(s->pipe, d);
    uref_free(d);
}
static void ctl_agg(struct st *s)
{
    unsigned mtu = 1 + vh_below(R, 64);
    OP("set_output_size(%u)", mtu);
    upipe_set_output_size(s->pipe, mtu);
}
static void ctl_chunk(struct st *s)
{
    unsigned mtu = 1 + vh_below(R, 64), align = 1 + vh_below(R, mtu);
    OP("chunk_stream_set_mtu(%u,%u)", mtu, align);
    upipe_chunk_stream_set_mtu(s->pipe, mtu, align);
}
static void ctl_genaux(struct st *s)
{
    OP("genaux_set_getattr");
    upipe_genaux_set_getattr(s->pipe, vh_chance(R, 1, 2) ? uref_clock_get_cr_sys : uref_clock_get_pts_sys);
}
static void ctl_time_limit(struct st *s)
{
    uint64_t l = vh_below(R, 100000);
    OP("time_limit_set_limit(%" PRIu64 ")", l);
    upipe_time_limit_set_limit(s->pipe, l);
}
static void ctl_buffer(struct st *s)
{
    uint64_t v = 1 + vh_below(R, 4000);
    int w = vh_below(R, 3);
    OP("buffer_set_%s(%" PRIu64 ")", w == 0 ? "max_size" : w == 1 ? "low" : "high", v);
    if (w == 0) upipe_buffer_set_max_size(s->pipe, v);
    else if (w == 1) upipe_buffer_set_low_limit(s->pipe, v);
    else upipe_buffer_set_high_limit(s->pipe, v);
}
static void ctl_rate_limit(struct st *s)
{
    if (vh_chance(R, 1, 2)) { uint64_t v = 1 + vh_below(R, 100000); OP("rate_limit_set_limit(%" PRIu64 ")", v); upipe_rate_limit_set_limit(s->pipe, v); }
    else { uint64_t v = 1 + vh_below(R, 1000000); OP("rate_limit_set_duration(%" PRIu64 ")", v); upipe_rate_limit_set_duration(s->pipe, v); }
}

static const struct desc catalogue[] = {
    { "idem", upipe_idem_mgr_alloc, K_IDENTITY, "block.", NULL, NULL, NULL, x_identity, false, false },
    { "null", upipe_null_mgr_alloc, K_SINK, "block.", NULL, NULL, NULL, NULL, false, false },
    { "skip", upipe_skip_mgr_alloc, K_TRANSFORM, "block.", "pic.", NULL, ctl_skip, x_skip, false, false },
    { "htons", upipe_htons_mgr_alloc, K_TRANSFORM, "block.", "pic.", NULL, NULL, x_htons, false, false },
    { "delay", upipe_delay_mgr_alloc, K_IDENTITY, "block.", NULL, NULL, ctl_delay, x_identity, false, false },
    { "setattr", upipe_setattr_mgr_alloc, K_IDENTITY, "block.", NULL, NULL, ctl_setattr, x_identity, true, false },
    { "setflowdef", upipe_setflowdef_mgr_alloc, K_IDENTITY, "block.", NULL, NULL, ctl_setflowdef, x_identity, false, false },
    { "setrap", upipe_setrap_mgr_alloc, K_IDENTITY, "block.", NULL, NULL, ctl_setrap, x_identity, false, false },
    { "match_attr", upipe_match_attr_mgr_alloc, K_FILTER, "block.", NULL, NULL, ctl_match, x_match, false, false },
    { "probe_uref", upipe_probe_uref_mgr_alloc, K_FILTER, "block.", NULL, NULL, ctl_probe, x_probe, false, false },
    { "nodemux", upipe_nodemux_mgr_alloc, K_IDENTITY, "block.", NULL, NULL, NULL, x_identity, false, false },
    { "noclock", upipe_noclock_mgr_alloc, K_IDENTITY, "block.", NULL, NULL, NULL, x_identity, false, false },
    { "dup", upipe_dup_mgr_alloc, K_DUP, "block.", NULL, NULL, NULL, x_identity, false, false },
    { "aggregate", upipe_agg_mgr_alloc, K_REGROUP, "block.", "pic.", NULL, ctl_agg, NULL, false, false },
    { "chunk_stream", upipe_chunk_stream_mgr_alloc, K_REGROUP, "block.", "pic.", NULL, ctl_chunk, NULL, false, false },
    { "genaux", upipe_genaux_mgr_alloc, K_OTHER, "block.", NULL, NULL, ctl_genaux, NULL, true, false },
    { "time_limit", upipe_time_limit_mgr_alloc, K_HOLD, "block.", NULL, NULL, ctl_time_limit, x_identity, false, true },
    { "buffer", upipe_buffer_mgr_alloc, K_HOLD, "block.", "pic.", NULL, ctl_buffer, x_identity, false, true },
    { "rate_limit", upipe_rate_limit_mgr_alloc, K_HOLD, "block.", NULL, NULL, ctl_rate_limit, x_identity, false, true },
};
#define NCAT (int)(sizeof(catalogue) / sizeof(catalogue[0]))

/* ------------------------------------------------------------------ */
/* probe hook: probe_uref events                                       */
/* ------------------------------------------------------------------ */
static bool probe_hook(struct rprobe *rp, struct upipe *upipe, int event, va_list args, int *ret_p)
{
    (void)upipe;
    if (event == UPROBE_PROBE_UREF && rp->id == S.pipe_id) {
        unsigned sig = va_arg(args, unsigned);
        if (sig != UPIPE_PROBE_UREF_SIGNATURE) return false;
        (void)va_arg(args, struct uref *);
        (void)va_arg(args, struct upump **);
        bool *drop = va_arg(args, bool *);
        *drop = S.probe_drop;
        *ret_p = UBASE_ERR_NONE;
        return true;
    }
    return false;
}

/* ------------------------------------------------------------------ */
/* input bookkeeping                                                   */
/* ------------------------------------------------------------------ */
struct in_rec {
    uint64_t seq;
    uint8_t *bytes; size_t n;
    uint64_t attr_hash;
    uint64_t dates[3];
    bool connected;         /* an accepting sink was connected when it was sent */
    int sink;               /* sink id it should go to, -1 */
};
#define MAXIN 256
static struct in_rec IN[MAXIN];
static int nin;

static void in_reset(void)
{
    for (int i = 0; i < nin; i++) free(IN[i].bytes);
    nin = 0;
}

static struct uref *make_flow_def(const char *def, uint64_t seed)
{
    struct uref *fd = uref_alloc_control(E.uref_mgr);
    uref_flow_set_def(fd, def);
    if (seed) uref_attr_set_unsigned(fd, seed, UDICT_TYPE_UNSIGNED, "x.defseed");
    return fd;
}

static struct uref *make_input(struct in_rec *rec, uint64_t seq)
{
    int szc = vh_below(R, 20);
    size_t n = szc == 0 ? 8 : szc == 1 ? 9 : szc < 4 ? 8 + vh_below(R, 8) : szc == 19 ? 1500 + vh_below(R, 600) : 8 + vh_below(R, 200);
    struct uref *u = uref_block_alloc(E.uref_mgr, E.block_mgr, (int)n);
    if (!u) abort();
    uint8_t *w; int ws = -1;
    uref_block_write(u, 0, &ws, &w);
    for (size_t i = 0; i < n; i++) w[i] = (uint8_t)vh_rand(R);
    for (int i = 0; i < 8; i++) w[i] = (uint8_t)(seq >> (56 - 8 * i));
    uref_block_unmap(u, 0);
    /* segmented payloads */
    if (n > 12 && vh_chance(R, 1, 3)) {
        struct ubuf *tail = ubuf_block_split(u->ubuf, 4 + vh_below(R, (uint32_t)n - 8));
        if (tail) {
            if (vh_chance(R, 1, 2)) { struct ubuf *t2 = ubuf_dup(tail); ubuf_free(tail); tail = t2; }
            ubuf_block_append(u->ubuf, tail);
        }
    }
    uref_attr_set_unsigned(u, seq, UDICT_TYPE_UNSIGNED, "x.seq");
    if (vh_chance(R, 1, 2)) uref_attr_set_string(u, "soup", UDICT_TYPE_STRING, "x.s");
    if (vh_chance(R, 1, 3)) uref_flow_set_discontinuity(u);
    uint64_t base = 27000000ULL * 10 + seq * 1000;
    if (vh_chance(R, 3, 4)) { uref_clock_set_cr_sys(u, base); uref_clock_set_cr_prog(u, base + 5); }
    if (vh_chance(R, 1, 2)) uref_clock_set_cr_dts_delay(u, 100);
    if (vh_chance(R, 1, 2)) uref_clock_set_dts_pts_delay(u, 50);
    rec->seq = seq;
    rec->n = n;
    rec->bytes = malloc(n);
    uref_block_extract(u, 0, -1, rec->bytes);
    rec->attr_hash = lab_dict_hash(u);
    rec->dates[0] = rec->dates[1] = rec->dates[2] = UINT64_MAX;
    uref_clock_get_cr_sys(u, &rec->dates[0]);
    uref_clock_get_dts_sys(u, &rec->dates[1]);
    uref_clock_get_pts_sys(u, &rec->dates[2]);
    return u;
}

/* ------------------------------------------------------------------ */
/* synchronous C05 oracle for one input                                */
/* ------------------------------------------------------------------ */
static void check_sync_output(struct st *s, struct in_rec *rec, int first_new, const char *where)
{
    const struct desc *d = s->d;
    int got = lab_ninputs - first_new;
    /* expected deliveries */
    uint8_t *exp = malloc(rec->n + 16);
    size_t expn = 0;
    bool forwarded = d->expect ? d->expect(s, rec->bytes, rec->n, rec->seq, exp, &expn) : false;
    int targets[1 + MAXSUB], nt = 0;
    if (d->klass != K_SINK && forwarded) {
        if (s->cur_out >= 0 && s->sink_accept[s->cur_out]) targets[nt++] = s->sink_ids[s->cur_out];
        if (d->klass == K_DUP)
            for (int k = 0; k < s->nsubs; k++)
                if (s->subs[k] && s->sub_out[k] >= 0 && s->sink_accept[s->sub_out[k]]) targets[nt++] = s->sink_ids[s->sub_out[k]];
    }
    char key[96];
    if (got != nt) {
        free(exp);
        snprintf(key, sizeof(key), "c05:%s:%s", d->name, got < nt ? "buffer-lost" : "buffer-duplicated-or-invented");
        vh_violation(key, "%s: input seq %" PRIu64 " (%zu octets) produced %d deliveries, expected %d", where, rec->seq, rec->n, got, nt);
    }
    for (int k = 0; k < nt; k++) {
        /* one delivery per target sink */
        struct sink_input *o = NULL;
        int cnt = 0;
        for (int i = first_new; i < lab_ninputs; i++) if (lab_inputs[i].sink == targets[k]) { o = &lab_inputs[i]; cnt++; }
        if (cnt != 1) { free(exp);
            snprintf(key, sizeof(key), "c05:%s:%s", d->name, cnt ? "buffer-duplicated-or-invented" : "buffer-lost");
            vh_violation(key, "%s: input seq %" PRIu64 " delivered %d times to sink %d", where, rec->seq, cnt, targets[k]); }
        if (o->seq != rec->seq) { free(exp);
            snprintf(key, sizeof(key), "c05:%s:wrong-buffer", d->name);
            vh_violation(key, "%s: sink %d received seq %" PRIu64 " instead of %" PRIu64, where, targets[k], o->seq, rec->seq); }
        if (o->size != expn || (o->copy && memcmp(o->copy, exp, expn))) { free(exp);
            snprintf(key, sizeof(key), "c05:%s:payload", d->name);
            vh_violation(key, "%s: seq %" PRIu64 ": payload of %zu octets differs from the documented transform of the %zu-octet input (expected %zu)", where, rec->seq, o->size, rec->n, expn); }
        if (!d->attrs_change && o->attr_hash != rec->attr_hash) { free(exp);
            snprintf(key, sizeof(key), "c05:%s:attributes", d->name);
            vh_violation(key, "%s: seq %" PRIu64 ": attributes changed although the pipe documents none", where, rec->seq); }
        if (!strcmp(d->name, "delay")) {
            for (int q = 0; q < 3; q++)
                if (rec->dates[q] != UINT64_MAX && o->dates[q] != rec->dates[q] + (uint64_t)s->delay) { free(exp);
                    vh_violation("c05:delay:dates", "seq %" PRIu64 ": date %d is %" PRIu64 ", expected %" PRIu64 " + %" PRId64, rec->seq, q, o->dates[q], rec->dates[q], s->delay); }
        } else if (strcmp(d->name, "noclock") && strcmp(d->name, "nodemux") && strcmp(d->name, "setrap")) {
            for (int q = 0; q < 3; q++)
                if (o->dates[q] != rec->dates[q]) { free(exp);
                    snprintf(key, sizeof(key), "c05:%s:dates", d->name);
                    vh_violation(key, "seq %" PRIu64 ": date %d changed from %" PRIu64 " to %" PRIu64, rec->seq, q, rec->dates[q], o->dates[q]); }
        }
        VH_COUNT("c05.deliveries_checked");
    }
    free(exp);
}

/* ------------------------------------------------------------------ */
/* driver operations                                                   */
/* ------------------------------------------------------------------ */
enum { D_SET_FLOW_DEF = 1, D_INPUT, D_SET_OUTPUT, D_FLUSH, D_RELEASE, D_SUB_ALLOC, D_SUB_RELEASE, D_SUB_SET_OUTPUT, D_CTL, D_LOOP };

static void op_set_flow_def(struct st *s)
{
    const struct desc *d = s->d;
    int c = vh_below(R, 10);
    bool bad = d->bad_def && c == 0;
    bool same = s->flow_ok && c == 1;
    uint64_t seed = same ? s->cur_def_seed : 1 + vh_below(R, 3);
    struct uref *fd = make_flow_def(bad ? d->bad_def : d->def, seed);
    OP("set_flow_def(%s,%" PRIu64 ")", bad ? d->bad_def : d->def, seed);
    lab_ev(EV_DRIVER, D_SET_FLOW_DEF, bad, seed, 0, NULL, "");
    int err = upipe_set_flow_def(s->pipe, fd);
    uref_free(fd);
    if (bad) {
        if (ubase_check(err)) { char key[96]; snprintf(key, sizeof(key), "c04:%s:accepted-foreign-flow-def", d->name);
            vh_violation(key, "flow definition %s accepted by a pipe that documents %s", d->bad_def, d->def); }
        VH_COUNT("op.set_flow_def_bad");
        return;
    }
    if (!ubase_check(err)) { char key[96]; snprintf(key, sizeof(key), "c04:%s:rejected-own-flow-def", d->name);
        vh_violation(key, "flow definition %s rejected (%d)", d->def, err); }
    s->flow_ok = true;
    s->cur_def_seed = seed;
    VH_COUNT("op.set_flow_def");
}

static void run_loop_some(struct st *s, unsigned max)
{
    (void)s;
    unsigned n = mockloop_run(E.upump_mgr, R, max, 8);
    if (n) VH_ADD("loop.dispatches", n);
}

static void op_input(struct st *s)
{
    if (!s->flow_ok || nin >= MAXIN) return;
    struct in_rec *rec = &IN[nin++];
    struct uref *u = make_input(rec, s->next_seq++);
    OP("input(seq %" PRIu64 ",%zu)", rec->seq, rec->n);
    lab_ev(EV_DRIVER, D_INPUT, (int)rec->seq, 0, 0, NULL, "");
    int first_new = lab_ninputs;
    rec->connected = s->cur_out >= 0 && s->sink_accept[s->cur_out];
    rec->sink = s->cur_out >= 0 ? s->sink_ids[s->cur_out] : -1;
    upipe_input(s->pipe, u, NULL);
    s->inputs++;
    VH_COUNT("op.input");
    switch (s->d->klass) {
        case K_IDENTITY: case K_TRANSFORM: case K_FILTER: case K_SINK: case K_DUP:
            check_sync_output(s, rec, first_new, "input");
            break;
        default: break;
    }
}

static void op_set_output(struct st *s)
{
    if (s->d->klass == K_SINK) return;
    int c = vh_below(R, 8);
    int idx = c == 0 ? -1 : c == 1 ? s->cur_out : (int)vh_below(R, 4);
    /* a sink has a single upstream in this lab */
    if (idx >= 0) for (int i = 0; i < s->nsubs; i++) if (s->subs[i] && s->sub_out[i] == idx) return;
    OP("set_output(%d)", idx);
    lab_ev(EV_DRIVER, D_SET_OUTPUT, idx >= 0 ? s->sink_ids[idx] : -1, s->pipe_id, 0, NULL, "");
    int err = upipe_set_output(s->pipe, idx >= 0 ? s->sinks[idx] : NULL);
    if (!ubase_check(err)) vh_violation("c04:set_output-failed", "set_output failed on %s (%d)", s->d->name, err);
    s->cur_out = idx;
    VH_COUNT("op.set_output");
}

static void op_sink_script(struct st *s)
{
    int k = vh_below(R, 4);
    bool acc = !vh_chance(R, 1, 3);
    OP("sink%d accept=%d", k, acc);
    /* takes effect at the next negotiation: only toggle a sink nobody is connected to */
    if (s->cur_out == k) return;
    for (int i = 0; i < s->nsubs; i++) if (s->subs[i] && s->sub_out[i] == k) return;
    lab_sink_set_accept(s->sinks[k], acc);
    s->sink_accept[k] = acc;
}

static void op_flush(struct st *s)
{
    OP("flush");
    lab_ev(EV_DRIVER, D_FLUSH, 0, 0, 0, NULL, "");
    lab_sink_burst = 0; lab_sink_burst_limit = 64 + 4 * 70000; lab_burst_pipe = s->d->name; lab_steps = 0; lab_step_limit = 4000000;
    upipe_flush(s->pipe);
    lab_sink_burst_limit = 0; lab_step_limit = 0;
    VH_COUNT("op.flush");
}

static void op_sub(struct st *s)
{
    if (s->d->klass != K_DUP) return;
    int c = vh_below(R, 3);
    if (c == 0 && s->nsubs < MAXSUB) {
        int k = s->nsubs;
        OP("sub%d=alloc_sub", k);
        lab_ev(EV_DRIVER, D_SUB_ALLOC, k, 0, 0, NULL, "");
        s->subs[k] = upipe_void_alloc_sub(s->pipe, lab_probe_new("dupsub", &s->sub_ids[k]));
        if (!s->subs[k]) vh_violation("c04:sub-alloc-failed", "sub-pipe allocation failed");
        s->sub_out[k] = -1;
        s->nsubs++;
        VH_COUNT("op.sub_alloc");
    } else if (c == 1 && s->nsubs) {
        int k = vh_below(R, s->nsubs);
        if (!s->subs[k]) return;
        int idx = vh_chance(R, 1, 6) ? -1 : (int)vh_below(R, 4);
        /* a sink has a single upstream in this lab */
        if (idx >= 0) { if (idx == s->cur_out) return; for (int i = 0; i < s->nsubs; i++) if (i != k && s->subs[i] && s->sub_out[i] == idx) return; }
        OP("sub%d.set_output(%d)", k, idx);
        lab_ev(EV_DRIVER, D_SUB_SET_OUTPUT, idx >= 0 ? s->sink_ids[idx] : -1, s->sub_ids[k], 0, NULL, "");
        upipe_set_output(s->subs[k], idx >= 0 ? s->sinks[idx] : NULL);
        s->sub_out[k] = idx;
    } else if (c == 2 && s->nsubs) {
        int k = vh_below(R, s->nsubs);
        if (!s->subs[k]) return;
        OP("sub%d.release", k);
        lab_ev(EV_DRIVER, D_SUB_RELEASE, k, 0, 0, NULL, "");
        upipe_release(s->subs[k]);
        s->subs[k] = NULL; s->sub_out[k] = -1;
        VH_COUNT("op.sub_release");
    }
}

static void release_pipe(struct st *s)
{
    if (s->released) return;
    OP("release");
    lab_ev(EV_DRIVER, D_RELEASE, s->pipe_id, 0, 0, NULL, "");
    lab_sink_burst = 0; lab_sink_burst_limit = 64 + 4 * 70000; lab_burst_pipe = s->d->name; lab_steps = 0; lab_step_limit = 4000000;
    upipe_release(s->pipe);
    lab_sink_burst_limit = 0; lab_step_limit = 0;
    s->released = true;
    s->pipe = NULL;
}

/* ------------------------------------------------------------------ */
/* C04 automaton over the log                                          */
/* ------------------------------------------------------------------ */
static void check_c04(struct st *s)
{
    bool ready[LAB_MAX_PIPES] = { false }, dead[LAB_MAX_PIPES] = { false };
    /* flow side: per sink */
    int upstream[8]; bool need_def[8], last_rejected[8], any_def[8]; uint64_t cur_def[LAB_MAX_PIPES];
    for (int i = 0; i < 8; i++) { upstream[i] = -1; need_def[i] = false; last_rejected[i] = false; any_def[i] = false; }
    memset(cur_def, 0, sizeof(cur_def));
    char key[128];
    for (int i = 0; i < lab_nev; i++) {
        struct ev *e = &lab_log[i];
        switch (e->kind) {
            case EV_PROBE: {
                int p = e->a;
                const char *pname = lab_probes[p].name;
                if (dead[p]) {
                    if (e->b == UPROBE_DEAD) { snprintf(key, sizeof(key), "c04:%s:dead-twice", pname); vh_violation(key, "pipe %s threw dead twice", pname); }
                    snprintf(key, sizeof(key), "c04:%s:event-after-dead:%s%s%s", pname, uprobe_event_str(e->b) ? uprobe_event_str(e->b) : "LOCAL", e->msg[0] ? ":" : "", e->msg);
                    vh_violation(key, "pipe %s threw %s after its dead event (%s)", pname, uprobe_event_str(e->b) ? uprobe_event_str(e->b) : "a local event", e->msg);
                }
                if (!ready[p] && e->b != UPROBE_READY && e->b != UPROBE_LOG) {
                    /* requests for managers thrown while initialising are part of the allocation of many pipes */
                    snprintf(key, sizeof(key), "c04:%s:event-before-ready:%s", pname, uprobe_event_str(e->b) ? uprobe_event_str(e->b) : "LOCAL");
                    vh_violation(key, "pipe %s threw %s before ready", pname, uprobe_event_str(e->b) ? uprobe_event_str(e->b) : "a local event");
                }
                if (e->b == UPROBE_READY) ready[p] = true;
                if (e->b == UPROBE_DEAD) dead[p] = true;
                if (e->b == UPROBE_NEW_FLOW_DEF) {
                    cur_def[p] = e->c;
                    for (int k = 0; k < 8; k++) if (upstream[k] == p) need_def[k] = true;
                }
                VH_COUNT("c04.probe_events");
                break;
            }
            case EV_DRIVER:
                if (e->a == D_SET_OUTPUT || e->a == D_SUB_SET_OUTPUT) {
                    int sink = e->b; int pipe = (int)e->c;
                    for (int k = 0; k < 8; k++) if (upstream[k] == pipe) upstream[k] = -1;
                    if (sink >= 0 && sink < 8) { upstream[sink] = pipe; need_def[sink] = true; last_rejected[sink] = false; any_def[sink] = false; }
                }
                break;
            case EV_SINK_FLOWDEF: {
                int k = e->a;
                if (k < 0 || k >= 8) break;
                any_def[k] = true;
                last_rejected[k] = !e->b;
                if (e->b && upstream[k] >= 0 && e->c == cur_def[upstream[k]]) need_def[k] = false;
                if (upstream[k] >= 0 && dead[upstream[k]]) {
                    snprintf(key, sizeof(key), "c04:%s:touches-output-after-dead:set_flow_def", lab_probes[upstream[k]].name);
                    vh_violation(key, "set_flow_def reached sink %d after its upstream threw dead", k);
                }
                VH_COUNT("c04.negotiations");
                break;
            }
            case EV_SINK_INPUT: {
                int k = e->a;
                if (k < 0 || k >= 8 || upstream[k] < 0) break;
                const char *pname = lab_probes[upstream[k]].name;
                if (dead[upstream[k]]) { snprintf(key, sizeof(key), "c04:%s:touches-output-after-dead:input", pname); vh_violation(key, "a buffer reached sink %d after its upstream threw dead", k); }
                if (last_rejected[k]) { snprintf(key, sizeof(key), "c04:%s:input-while-rejected", pname); vh_violation(key, "a buffer was delivered to sink %d although it rejected the flow definition", k); }
                if (need_def[k]) { snprintf(key, sizeof(key), "c04:%s:input-before-flow-def", pname); vh_violation(key, "a buffer was delivered to sink %d before it accepted the current flow definition (%s)", k, any_def[k] ? "stale definition" : "no definition since connection"); }
                VH_COUNT("c04.inputs_checked");
                break;
            }
            case EV_SINK_REGISTER:
                if (e->a >= 0 && e->a < 8 && upstream[e->a] >= 0 && dead[upstream[e->a]]) {
                    snprintf(key, sizeof(key), "c04:%s:touches-output-after-dead:register_request", lab_probes[upstream[e->a]].name);
                    vh_violation(key, "a request was registered on sink %d after its upstream threw dead", e->a);
                }
                break;
            default: break;
        }
    }
    /* every pipe allocated in the case announced itself and died exactly once */
    for (int p = 0; p < lab_nprobes; p++) {
        if (!ready[p]) { snprintf(key, sizeof(key), "c04:%s:never-ready", lab_probes[p].name); vh_violation(key, "pipe %s never threw ready", lab_probes[p].name); }
        if (!dead[p]) { snprintf(key, sizeof(key), "c04:%s:never-dead", lab_probes[p].name); vh_violation(key, "pipe %s was released but never threw dead", lab_probes[p].name); }
    }
    (void)s;
}

/* asynchronous delivery: exactly once, in order (holding pipes) */
static void check_c05_async(struct st *s)
{
    char key[96];
    uint64_t last[8]; bool seen_any[8];
    for (int k = 0; k < 8; k++) { last[k] = 0; seen_any[k] = false; }
    bool delivered[MAXIN] = { false };
    for (int i = 0; i < lab_ninputs; i++) {
        struct sink_input *o = &lab_inputs[i];
        if (o->seq == UINT64_MAX || o->sink < 0 || o->sink >= 8) continue;
        if (o->seq >= (uint64_t)nin) { snprintf(key, sizeof(key), "c05:%s:buffer-duplicated-or-invented", s->d->name); vh_violation(key, "sink received seq %" PRIu64 " which was never sent", o->seq); }
        if (delivered[o->seq]) { snprintf(key, sizeof(key), "c05:%s:buffer-duplicated-or-invented", s->d->name); vh_violation(key, "seq %" PRIu64 " delivered twice", o->seq); }
        delivered[o->seq] = true;
        if (seen_any[o->sink] && o->seq <= last[o->sink]) { snprintf(key, sizeof(key), "c05:%s:reordered", s->d->name); vh_violation(key, "seq %" PRIu64 " delivered after %" PRIu64, o->seq, last[o->sink]); }
        last[o->sink] = o->seq; seen_any[o->sink] = true;
        struct in_rec *rec = &IN[o->seq];
        if (s->d->expect == x_identity && (o->size != rec->n || (o->copy && memcmp(o->copy, rec->bytes, rec->n)))) { snprintf(key, sizeof(key), "c05:%s:payload", s->d->name); vh_violation(key, "seq %" PRIu64 ": payload changed", o->seq); }
        VH_COUNT("c05.async_deliveries_checked");
    }
}

/* ------------------------------------------------------------------ */
/* case                                                                */
/* ------------------------------------------------------------------ */
static int only_pipe = -1;

static void teardown_and_account(struct st *s)
{
    release_pipe(s);
    for (int k = 0; k < s->nsubs; k++) if (s->subs[k]) { OP("sub%d.release(final)", k); upipe_release(s->subs[k]); s->subs[k] = NULL; }
    for (int k = 0; k < 4; k++) if (s->sinks[k]) { upipe_release(s->sinks[k]); s->sinks[k] = NULL; }
    /* let pending pumps (deferred frees, idlers) run */
    mockloop_run(E.upump_mgr, R, 10000, 64);
    uref_free(s->setattr_dict); s->setattr_dict = NULL;
}

static void run_case(struct vh_rng *r)
{
    R = r;
    case_hash = 0;
    memset(&S, 0, sizeof(S));
    lab_nev = 0;
    lab_log_overflow = false;
    lab_inputs_reset();
    in_reset();
    pooltrack_reset();
    lab_nprobes = 0;
    lab_probe_hook = probe_hook;
    int depth = vh_chance(R, 1, 2) ? 0 : 1 + vh_below(R, 4);
    lab_env_init(depth);
    struct cumem_stats *cst = cumem_stats(E.umem);

    struct st *s = &S;
    s->d = &catalogue[only_pipe >= 0 ? only_pipe : (int)vh_below(R, NCAT)];
    s->cur_out = -1;
    s->rap = UINT64_MAX;
    vh_tr("pipe=%s pool_depth=%d", s->d->name, depth);
    vh_count_dyn("pipe.%s", s->d->name);

    struct upipe_mgr *mgr = s->d->mgr_alloc();
    s->pipe = upipe_void_alloc(mgr, lab_probe_new(s->d->name, &s->pipe_id));
    upipe_mgr_release(mgr);
    if (!s->pipe) vh_violation("c04:alloc-failed", "allocation of %s failed", s->d->name);
    for (int k = 0; k < 4; k++) { char nm[16]; snprintf(nm, sizeof(nm), "sink%d", k); s->sinks[k] = lab_sink_new(nm, &s->sink_ids[k]); s->sink_accept[k] = true; }
    if (s->d->setup) s->d->setup(s);

    int nops = 10 + vh_below(R, 30);
    for (int i = 0; i < nops && !s->released; i++) {
        int c = vh_below(R, 100);
        if (c < 12) op_set_flow_def(s);
        else if (c < 55) op_input(s);
        else if (c < 67) op_set_output(s);
        else if (c < 72) op_sink_script(s);
        else if (c < 76) op_flush(s);
        else if (c < 86) { if (s->d->rand_ctl) s->d->rand_ctl(s); }
        else if (c < 93) op_sub(s);
        else if (c < 98) { if (s->d->needs_loop) { OP("loop"); mockloop_advance(E.upump_mgr, vh_below(R, 200000)); run_loop_some(s, 50); } }
        else release_pipe(s);
        if (s->d->needs_loop && vh_chance(R, 1, 3)) run_loop_some(s, 20);
    }
    teardown_and_account(s);

    if (lab_log_overflow) { VH_COUNT("case.log_overflow"); lab_probes_release(); lab_env_fini(); vh_skip_case(); }
    /* ---- oracles over the whole execution ---- */
    if (s->d->klass == K_HOLD) check_c05_async(s);
    check_c04(s);

    /* ---- C01 accounting ---- */
    lab_probes_release();
    if (pooltrack_violations) vh_violation("c01:pool-discipline", "%s (pipe %s)", pooltrack_msg, s->d->name);
    long live = pooltrack_live();
    char key[96];
    if (live != 0) { snprintf(key, sizeof(key), "c01:%s:objects-still-held", s->d->name);
        vh_violation(key, "%ld pooled objects (urefs / buffers / dictionaries / pumps) are still held after the pipeline and all handles were released", live); }
    struct cumem_stats cs_before = *cst; (void)cs_before;
    /* the counting umem manager outlives the environment: keep a reference */
    struct umem_mgr *umem_keep = umem_mgr_use(E.umem);
    cst = cumem_stats(umem_keep);
    const char *bad_mgr = lab_env_fini();
    if (bad_mgr && strcmp(bad_mgr, "umem_mgr")) { snprintf(key, sizeof(key), "c01:%s:manager-still-referenced", s->d->name);
        vh_violation(key, "%s is not back to the single reference held by its creator after the pipeline and all handles were released", bad_mgr); }
    if (cst->bad_free || cst->canary_hits) { snprintf(key, sizeof(key), "c01:%s:umem-misuse", s->d->name); vh_violation(key, "umem block freed twice or guard zone overwritten"); }
    if (cst->live != 0) { snprintf(key, sizeof(key), "c01:%s:memory-still-allocated", s->d->name);
        vh_violation(key, "%ld umem blocks (%ld octets) still allocated after everything was released", (long)cst->live, (long)cst->live_bytes); }
    umem_mgr_release(umem_keep);
    VH_COUNT("c01.accounted_cases");
    if (s->inputs >= 3) vh_nontrivial(case_hash);
    if (vh_want_sample()) vh_sample("%s", vh_trace);
}

static void init(void)
{
    pooltrack_install();
    const char *m = vh_opts.mode;
    mode = !strcmp(m, "c04") ? MODE_C04 : !strcmp(m, "c05") ? MODE_C05 : !strcmp(m, "c20") ? MODE_C20 : !strcmp(m, "c12") ? MODE_C12 : !strcmp(m, "c14") ? MODE_C14 : MODE_C01;
    const char *p = vh_arg("pipe", NULL);
    if (p) for (int i = 0; i < NCAT; i++) if (!strcmp(catalogue[i].name, p)) only_pipe = i;
}

static const struct vh_lab lab = { "pipelab", init, run_case, NULL };
int main(int argc, char **argv) { return vh_main(argc, argv, &lab); }
