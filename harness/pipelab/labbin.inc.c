/* A bin pipe of the laboratory, made of the library's own helpers
 * (upipe_helper_bin_input / upipe_helper_bin_output, anchored in C12) the way
 * upipe_ffmt / upipe_fdec / upipe_autof use them: a change of flow definition
 * first stores a NULL inner pipe (input and output side), then allocates a
 * new inner pipe (upipe_idem) and stores it.  Modelled on upipe_ts_align,
 * which replaces its inner pipe in one step.  (included by pipelab.c) */
#include "upipe/upipe_helper_urefcount.h"
#include "upipe/upipe_helper_void.h"
#include "upipe/upipe_helper_inner.h"
#include "upipe/upipe_helper_bin_input.h"
#include "upipe/upipe_helper_bin_output.h"
#include "upipe/uprobe_prefix.h"

#define LABBIN_SIGNATURE UBASE_FOURCC('l','b','i','n')
struct labbin {
    struct urefcount urefcount;
    struct uprobe proxy_probe;
    struct uchain input_request_list;
    struct uchain output_request_list;
    struct upipe *first_inner;
    struct upipe *last_inner;
    struct upipe *output;
    struct upipe upipe;
};
static void labbin_free(struct upipe *upipe);
UPIPE_HELPER_UPIPE(labbin, upipe, LABBIN_SIGNATURE)
UPIPE_HELPER_UREFCOUNT(labbin, urefcount, labbin_free)
UPIPE_HELPER_VOID(labbin)
UPIPE_HELPER_INNER(labbin, first_inner)
UPIPE_HELPER_BIN_INPUT(labbin, first_inner, input_request_list)
UPIPE_HELPER_INNER(labbin, last_inner)
UPIPE_HELPER_BIN_OUTPUT(labbin, last_inner, output, output_request_list)

static int labbin_proxy_probe(struct uprobe *uprobe, struct upipe *inner, int event, va_list args)
{
    struct labbin *s = container_of(uprobe, struct labbin, proxy_probe);
    return upipe_throw_proxy(labbin_to_upipe(s), inner, event, args);
}

static struct upipe *labbin_alloc(struct upipe_mgr *mgr, struct uprobe *uprobe, uint32_t signature, va_list args)
{
    struct upipe *upipe = labbin_alloc_void(mgr, uprobe, signature, args);
    if (upipe == NULL) return NULL;
    struct labbin *s = labbin_from_upipe(upipe);
    labbin_init_urefcount(upipe);
    labbin_init_bin_input(upipe);
    labbin_init_bin_output(upipe);
    uprobe_init(&s->proxy_probe, labbin_proxy_probe, NULL);
    s->proxy_probe.refcount = NULL;     /* the inner pipes do not outlive the bin */
    upipe_throw_ready(upipe);
    return upipe;
}

static int labbin_set_flow_def(struct upipe *upipe, struct uref *flow_def)
{
    struct labbin *s = labbin_from_upipe(upipe);
    if (flow_def == NULL) return UBASE_ERR_INVALID;
    /* tear the old inner pipe down first, like the filter bins do */
    labbin_store_bin_input(upipe, NULL);
    labbin_store_bin_output(upipe, NULL);
    struct upipe_mgr *m = upipe_idem_mgr_alloc();
    struct upipe *inner = upipe_void_alloc(m, uprobe_pfx_alloc(uprobe_use(&s->proxy_probe), UPROBE_LOG_VERBOSE, "inner"));
    upipe_mgr_release(m);
    if (inner == NULL) return UBASE_ERR_ALLOC;
    labbin_store_bin_input(upipe, upipe_use(inner));
    labbin_store_bin_output(upipe, inner);
    return upipe_set_flow_def(inner, flow_def);
}

static int labbin_control(struct upipe *upipe, int command, va_list args)
{
    if (command == UPIPE_SET_FLOW_DEF) {
        struct uref *flow_def = va_arg(args, struct uref *);
        return labbin_set_flow_def(upipe, flow_def);
    }
    int err = labbin_control_bin_input(upipe, command, args);
    if (err == UBASE_ERR_UNHANDLED)
        return labbin_control_bin_output(upipe, command, args);
    return err;
}

static void labbin_free(struct upipe *upipe)
{
    struct labbin *s = labbin_from_upipe(upipe);
    labbin_clean_bin_input(upipe);
    labbin_clean_bin_output(upipe);
    upipe_throw_dead(upipe);
    uprobe_clean(&s->proxy_probe);
    labbin_clean_urefcount(upipe);
    labbin_free_void(upipe);
}

static struct upipe_mgr labbin_mgr = {
    .refcount = NULL,
    .signature = LABBIN_SIGNATURE,
    .upipe_alloc = labbin_alloc,
    .upipe_input = labbin_bin_input,
    .upipe_control = labbin_control,
};
static struct upipe_mgr *labbin_mgr_alloc(void) { return &labbin_mgr; }
