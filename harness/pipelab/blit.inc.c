/* C20 on sub-pipe options: the input sub-pipes of upipe_blit (rectangle,
 * alpha, alpha threshold, z index).  Values only: after every operation on the
 * blit pipe or on any of its sub-pipes (set_rect, set_margin, set_alpha, ...,
 * a new background flow definition, chroma-subsampled or not) every getter of
 * every sub-pipe must return the value last accepted by its setter.
 * (included by pipelab.c, after lifecycle.inc.c for lc_flow_def) */
#define BL_MAXSUB 3
static void c20_blit_case(struct vh_rng *r)
{
    R = r;
    memset(&S, 0, sizeof(S));
    lab_nev = 0; lab_log_overflow = false; lab_inputs_reset(); in_reset(); pooltrack_reset(); lab_nprobes = 0; lab_probe_hook = NULL;
    src_pump = NULL;
    lab_env_init(vh_below(R, 3));
    int pid;
    struct upipe_mgr *mgr = upipe_blit_mgr_alloc();
    struct upipe *blit = upipe_void_alloc(mgr, lab_probe_new("blit", &pid));
    upipe_mgr_release(mgr);
    if (!blit) vh_violation("c04:alloc-failed", "blit");
    struct upipe *sink = lab_sink_new("sink0", NULL);
    lab_sink_set_request_mode(sink, vh_below(R, 3));
    struct upipe *subs[BL_MAXSUB] = { NULL }; int sub_ids[BL_MAXSUB];
    struct { bool rect, alpha, thr, z; uint64_t l, r, t, b; int a, th, zi; } sh[BL_MAXSUB];
    memset(sh, 0, sizeof(sh));
    char key[96];
    int nops = 8 + vh_below(R, 24);
    for (int i = 0; i < nops; i++) {
        int c = vh_below(R, 100), k = vh_below(R, BL_MAXSUB);
        if (c < 12) {
            if (subs[k]) continue;
            OP("sub%d=void_alloc_sub", k);
            subs[k] = upipe_void_alloc_sub(blit, lab_probe_new("blit_sub", &sub_ids[k]));
            if (!subs[k]) vh_violation("c04:sub-alloc-failed", "blit sub-pipe");
            memset(&sh[k], 0, sizeof(sh[k]));
        } else if (c < 24) {
            struct uref *fd = lc_flow_def(LK_PIC, 1 + vh_below(R, 3));
            if (vh_chance(R, 1, 3)) { uref_pic_flow_set_hsize(fd, 33 + vh_below(R, 40)); uref_pic_flow_set_vsize(fd, 17 + vh_below(R, 40)); }
            OP("blit.set_flow_def(pic)");
            upipe_set_flow_def(blit, fd);
            uref_free(fd);
        } else if (c < 30) {
            OP("blit.set_output");
            upipe_set_output(blit, vh_chance(R, 1, 4) ? NULL : sink);
        } else if (c < 36 && subs[k]) {
            struct uref *fd = lc_flow_def(LK_PIC, 10 + k);
            OP("sub%d.set_flow_def(pic)", k);
            upipe_set_flow_def(subs[k], fd);
            uref_free(fd);
        } else if (c < 58 && subs[k]) {
            uint64_t l = vh_below(R, 12), rr = vh_below(R, 12), t = vh_below(R, 8), b = vh_below(R, 8);
            OP("sub%d.set_rect(%" PRIu64 ",%" PRIu64 ",%" PRIu64 ",%" PRIu64 ")", k, l, rr, t, b);
            if (ubase_check(upipe_blit_sub_set_rect(subs[k], l, rr, t, b))) { sh[k].rect = true; sh[k].l = l; sh[k].r = rr; sh[k].t = t; sh[k].b = b; VH_COUNT("c20.setter_accepted"); }
        } else if (c < 68 && subs[k]) {
            struct urational m[4];
            for (int q = 0; q < 4; q++) { m[q].num = vh_below(R, 5); m[q].den = 8 + vh_below(R, 25); }
            OP("sub%d.set_margin(%" PRId64 "/%" PRIu64 ",%" PRId64 "/%" PRIu64 ",..)", k, m[0].num, m[0].den, m[1].num, m[1].den);
            upipe_blit_sub_set_margin(subs[k], m[0], m[1], m[2], m[3]);
            /* margins have no getter; the rectangle in force stays the one set_rect stored */
        } else if (c < 76 && subs[k]) {
            int a = vh_below(R, 256);
            OP("sub%d.set_alpha(%d)", k, a);
            if (ubase_check(upipe_blit_sub_set_alpha(subs[k], a))) { sh[k].alpha = true; sh[k].a = a; VH_COUNT("c20.setter_accepted"); }
        } else if (c < 84 && subs[k]) {
            int a = vh_below(R, 256);
            OP("sub%d.set_alpha_threshold(%d)", k, a);
            if (ubase_check(upipe_blit_sub_set_alpha_threshold(subs[k], a))) { sh[k].thr = true; sh[k].th = a; VH_COUNT("c20.setter_accepted"); }
        } else if (c < 92 && subs[k]) {
            int z = (int)vh_below(R, 20) - 10;
            OP("sub%d.set_z_index(%d)", k, z);
            if (ubase_check(upipe_blit_sub_set_z_index(subs[k], z))) { sh[k].z = true; sh[k].zi = z; VH_COUNT("c20.setter_accepted"); }
        } else if (subs[k]) {
            OP("sub%d.release", k);
            upipe_release(subs[k]); subs[k] = NULL;
        } else continue;
        /* every getter of every sub-pipe */
        for (int q = 0; q < BL_MAXSUB; q++) {
            if (!subs[q]) continue;
            uint64_t l = 0, rr = 0, t = 0, b = 0; int v = 0;
            if (sh[q].rect && (!ubase_check(upipe_blit_sub_get_rect(subs[q], &l, &rr, &t, &b)) || l != sh[q].l || rr != sh[q].r || t != sh[q].t || b != sh[q].b)) {
                snprintf(key, sizeof(key), "c20:blit_sub:rect:getter-value");
                vh_violation(key, "after %s: get_rect of sub %d returns l=%" PRIu64 " r=%" PRIu64 " t=%" PRIu64 " b=%" PRIu64 ", last accepted l=%" PRIu64 " r=%" PRIu64 " t=%" PRIu64 " b=%" PRIu64, opname, q, l, rr, t, b, sh[q].l, sh[q].r, sh[q].t, sh[q].b);
            }
            if (sh[q].alpha && (!ubase_check(upipe_blit_sub_get_alpha(subs[q], &v)) || v != sh[q].a))
                vh_violation("c20:blit_sub:alpha:getter-value", "after %s: get_alpha of sub %d returns %d, last accepted %d", opname, q, v, sh[q].a);
            if (sh[q].thr && (!ubase_check(upipe_blit_sub_get_alpha_threshold(subs[q], &v)) || v != sh[q].th))
                vh_violation("c20:blit_sub:alpha_threshold:getter-value", "after %s: get_alpha_threshold of sub %d returns %d, last accepted %d", opname, q, v, sh[q].th);
            if (sh[q].z && (!ubase_check(upipe_blit_sub_get_z_index(subs[q], &v)) || v != sh[q].zi))
                vh_violation("c20:blit_sub:z_index:getter-value", "after %s: get_z_index of sub %d returns %d, last accepted %d", opname, q, v, sh[q].zi);
            VH_COUNT("c20.getter_rounds");
        }
    }
    for (int k = 0; k < BL_MAXSUB; k++) if (subs[k]) upipe_release(subs[k]);
    upipe_release(blit);
    mockloop_run(E.upump_mgr, R, 1000, 8);
    upipe_release(sink);
    check_c04(&S);
    lab_probes_release();
    lab_env_fini();
    VH_COUNT("c20.blit_cases");
    vh_nontrivial(case_hash);
}
