#!/usr/bin/env python3
"""development aid: run all jobs of the TS lab properties at a tier, like the
driver would (same runner), and report wall time, keys and missing required
observations.  usage: tier.py quick|thorough [PID ...] [--repo DIR] [--seed N] [--scale F]"""
import sys, os, time
sys.path.insert(0, '/verif')
from vlib import run, build, props_ts
args = sys.argv[1:]
tier = args.pop(0)
repo = '/repo'; seed = 1; scale = 1.0
pids = []
while args:
    a = args.pop(0)
    if a == '--repo': repo = args.pop(0)
    elif a == '--seed': seed = int(args.pop(0))
    elif a == '--scale': scale = float(args.pop(0))
    else: pids.append(a)
pids = pids or ['C14ts', 'C15', 'C16', 'C17']
ok, bdir, log = build.build('asan', repo, props_ts.HARNESS_TS, sorted(props_ts.HARNESS_TS))
if not ok:
    print(log[-3000:]); sys.exit(2)
for pid in pids:
    t0 = time.time()
    print('=== %s (%s, seed %d, repo %s)' % (pid, tier, seed, repo))
    for j in props_ts.PROPS_TS[pid]['jobs']:
        n = int(j[tier] * scale)
        a = (['--mode', j['mode']] if j.get('mode') else []) + ['--tier', tier]
        agg = run.run_job(os.path.join(bdir, 'bin', j['bin']), a, seed, n, repo, 'asan')
        missing = [r for r in j.get('require', []) if agg['counters'].get(r, 0) == 0]
        print('  %-20s cases %8d  %6.1fs  crashes %3d  nontrivial %8d distinct %8d%s%s' % (
            j['name'], agg['cases_run'], agg['wall_s'], agg['crashes'], agg['nontrivial'], agg['distinct'],
            '  INCONCLUSIVE %s' % agg['inconclusive'] if agg['inconclusive'] else '',
            '  MISSING %s' % missing if missing else ''))
        keys = {}
        for v in agg['viols']: keys.setdefault(v['key'], []).append(v.get('case_seed'))
        for k, v in sorted(keys.items()):
            print('      viol %-66s n=%-6s seeds %s' % (k, agg['viol_counts'].get(k, len(v)), v[:2]))
        dk = {}
        for d in agg['diags']: dk[d['key']] = dk.get(d['key'], 0) + 1
        for k, v in sorted(dk.items()): print('      diag %-66s %d' % (k, v))
    print('  total %.1fs' % (time.time() - t0))
