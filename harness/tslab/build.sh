#!/bin/sh
# usage: harness/tslab/build.sh <bin>... [REPO=/path]  — builds asan variant of the TS lab programs
REPO=${REPO:-/repo}
python3 - "$REPO" "$@" <<'PY'
import sys
sys.path.insert(0, '/verif')
from vlib import build, props_ts
repo = sys.argv[1]
ok, bdir, log = build.build('asan', repo, props_ts.HARNESS_TS, sys.argv[2:])
print(log[-6000:])
print('OK' if ok else 'FAILED', bdir)
sys.exit(0 if ok else 1)
PY
