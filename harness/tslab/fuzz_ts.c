/* Coverage-guided exploration (libFuzzer, clang -fsanitize=fuzzer,address) of
 * the "no input whatsoever makes the pipes read outside a packet / their
 * buffers" clauses of C15, C16, C17 (thorough tier).
 *
 * The oracle is AddressSanitizer on exact-size, randomly segmented block
 * buffers plus the logical-step non-termination guard of the TS lab; an
 * assert() of library code on arbitrary input is reported too (libFuzzer stops
 * on it) and classified by the driver as a diagnostic, like in the corrupt
 * jobs.
 *
 * input = selector octet, configuration octet, then the octets fed to the
 * selected pipeline, cut into buffers as the configuration says:
 *   0  ts_decaps -> ts_pes_decaps            188-octet packets
 *   1  ts_sync -> ts_decaps -> ts_psi_merge  arbitrary pieces
 *   2  ts_pes_decaps                         payload pieces, start flags from the data
 *   3  ts_psi_merge                          payload pieces, start flags from the data
 *   4  h264 framer (Annex B input)           arbitrary pieces, output encapsulation from cfg
 *   5  h265 framer (Annex B input)           arbitrary pieces
 *   6  ts_check / ts_align                   arbitrary pieces
 * (frame-mode input of the framers is left to the job h26x-corrupt-frames: without
 * an activated parameter set it aborts on an assertion, which would stop the
 * fuzzer at once)
 * With FUZZ_TS_SEED_DIR set and empty, well-formed seeds built by the
 * reference codecs of the lab are written there first.
 */
#include "tslab_common.h"

#include "upipe/ubuf_block.h"
#include "upipe-ts/upipe_ts_decaps.h"
#include "upipe-ts/upipe_ts_pes_decaps.h"
#include "upipe-ts/upipe_ts_psi_merge.h"
#include "upipe-ts/upipe_ts_sync.h"
#include "upipe-ts/upipe_ts_check.h"
#include "upipe-ts/upipe_ts_align.h"
#include "upipe-framers/upipe_h264_framer.h"
#include "upipe-framers/upipe_h265_framer.h"
#include "upipe-framers/uref_h26x.h"
#include "upipe-framers/uref_h26x_flow.h"
#include "tests/upipe_h264_framer_test.h"   /* recorded H.264 stream of the repo */

#include <stdio.h>
#include <stdlib.h>
#include <string.h>
#include <dirent.h>
#include <sys/stat.h>

static struct vh_rng rng;
static bool inited;
/* FUZZ_TS_SELECT="0,2,6": pipelines this run is about (all when unset) */
static uint8_t allowed[8];
static int nallowed;

static struct upipe *mk(struct upipe_mgr *mgr, const char *def)
{
    struct upipe *p = tsl_track(upipe_void_alloc(mgr, uprobe_use(tsl_probe)));
    upipe_mgr_release(mgr);
    if (!p) abort();
    if (def) {
        struct uref *fd = uref_block_flow_alloc_def(tsl_uref_mgr, def);
        upipe_set_flow_def(p, fd);
        uref_free(fd);
    }
    return p;
}

static enum uref_h26x_encaps want_encaps;
static void ff_hook(struct tsl_sink *s, struct uref *ff)
{
    (void)s;
    uref_flow_delete_global(ff);
    uref_h26x_flow_set_encaps(ff, want_encaps);
}

/* piece sizes from the configuration octet */
static size_t piece(uint8_t cfg, size_t left, size_t unit)
{
    size_t k;
    switch (cfg & 7) {
        case 0: k = left; break;
        case 1: k = 1; break;
        case 2: k = 1 + vh_below(&rng, 8); break;
        case 3: k = unit; break;
        case 4: k = unit ? unit - 1 + vh_below(&rng, 3) : 1; break;
        case 5: k = vh_below(&rng, 3) ? 1 + vh_below(&rng, 64) : 0; break;
        default: k = 1 + vh_below(&rng, 400); break;
    }
    return k > left ? left : k;
}

static void feed(struct upipe *head, const uint8_t *d, size_t n, uint8_t cfg, size_t unit, bool start_from_data, bool disc)
{
    size_t off = 0;
    int guard = 0;
    while (off < n && guard++ < 20000) {
        size_t k = piece(cfg, n - off, unit);
        struct uref *u = tsl_uref_from_bytes_rnd(&rng, d + off, k);
        if (start_from_data && k && (d[off] & 1)) uref_block_set_start(u);
        if (disc && vh_chance(&rng, 1, 20)) uref_flow_set_discontinuity(u);
        off += k;
        tsl_guard_begin("fuzz", 64 + 2 * (uint64_t)n);
        upipe_input(head, u, NULL);
        tsl_guard_end();
    }
}

static void write_seed(const char *dir, int idx, uint8_t sel, uint8_t cfg, const uint8_t *p, size_t n)
{
    char path[512];
    snprintf(path, sizeof(path), "%s/seed-%03d", dir, idx);
    FILE *f = fopen(path, "wb");
    if (!f) return;
    fputc(sel, f); fputc(cfg, f);
    fwrite(p, 1, n, f);
    fclose(f);
}

static void make_seeds(const char *dir)
{
    DIR *d = opendir(dir);
    if (!d) { mkdir(dir, 0777); d = opendir(dir); }
    if (!d) return;
    int entries = 0;
    struct dirent *e;
    while ((e = readdir(d))) if (e->d_name[0] != '.') entries++;
    closedir(d);
    if (entries) return;
    struct vh_rng r; vh_rng_seed(&r, 20240607);
    int idx = 0;
    /* PES in TS packets */
    for (int k = 0; k < 6; k++) {
        struct tsl_buf *b = tsl_buf_new();
        uint8_t cc = 0;
        for (int au = 0; au < 2; au++) {
            struct pesr_hdr h; memset(&h, 0, sizeof(h));
            h.stream_id = k & 1 ? 0xc0 : 0xe0; h.has_opt = true; h.pts_dts_flags = (uint8_t)(k % 3 == 0 ? 0 : k % 3 == 1 ? 2 : 3);
            h.pts = 900000 + (uint64_t)au * 3600; h.dts = h.pts - 1800; h.alignment = true;
            size_t plen = 20 + vh_below(&r, 400);
            uint8_t hdr[300]; h.packet_length = 0;
            int hs = pesr_build(hdr, &h, (int)vh_below(&r, 3));
            struct tsl_buf *pes = tsl_buf_new();
            tsl_buf_put(pes, hdr, (size_t)hs);
            for (size_t i = 0; i < plen; i++) tsl_buf_put8(pes, (uint8_t)vh_rand(&r));
            size_t off = 0; bool first = true;
            while (off < pes->n) {
                struct tsr_pkt t; memset(&t, 0, sizeof(t));
                t.pid = 0x100; t.pusi = first; t.has_payload = true; cc = (cc + 1) & 0xf; t.cc = cc;
                size_t left = pes->n - off;
                if (left < 184 || vh_chance(&r, 1, 4)) { t.has_af = true; t.af_rai = first; t.af_pcr = vh_chance(&r, 1, 3); t.pcr_base = 12345;
                    int min = tsr_af_min_len(&t); int want = left < 184 ? (int)(183 - left) : min; if (want < min) want = min; t.af_len = want; }
                int pl = 184 - (t.has_af ? 1 + t.af_len : 0);
                if ((size_t)pl > left) pl = (int)left;
                uint8_t pkt[TSR_SIZE];
                if (t.has_af && 184 - (1 + t.af_len) != pl) { t.af_len = 183 - pl; }
                tsr_build(pkt, &t, pes->p + off);
                tsl_buf_put(b, pkt, TSR_SIZE);
                off += (size_t)pl; first = false;
            }
        }
        write_seed(dir, idx++, 0, 3, b->p, b->n);
    }
    /* PSI sections in TS packets and as bare payloads */
    for (int k = 0; k < 6; k++) {
        struct tsl_buf *pl = tsl_buf_new(), *ts = tsl_buf_new();
        uint8_t cc = 0;
        for (int s = 0; s < 3; s++) {
            struct psir_sec sec; psir_gen_section(&r, &sec, 3 + (int)vh_below(&r, k < 3 ? 60 : 600));
            struct tsl_buf *one = tsl_buf_new();
            tsl_buf_put8(one, 0);      /* pointer_field */
            tsl_buf_put(one, sec.data, (size_t)sec.size);
            size_t off = 0; bool first = true;
            while (off < one->n) {
                size_t c = one->n - off > 184 ? 184 : one->n - off;
                uint8_t pay[184]; memset(pay, 0xff, sizeof(pay)); memcpy(pay, one->p + off, c);
                tsl_buf_put8(pl, first ? 1 : 0);       /* start flag carrier for selector 3: see feed() */
                struct tsr_pkt t; memset(&t, 0, sizeof(t));
                t.pid = 0; t.pusi = first; t.has_payload = true; cc = (cc + 1) & 0xf; t.cc = cc;
                uint8_t pkt[TSR_SIZE]; tsr_build(pkt, &t, pay);
                tsl_buf_put(ts, pkt, TSR_SIZE);
                tsl_buf_put(pl, pay, 184);
                off += c; first = false;
            }
        }
        write_seed(dir, idx++, 1, (uint8_t)(k % 7), ts->p, ts->n);
        write_seed(dir, idx++, 3, 3, pl->p, pl->n);
    }
    /* recorded H.264 elementary stream of the repo */
    {
        struct tsl_buf *b = tsl_buf_new();
        tsl_buf_put(b, h264_headers, sizeof(h264_headers));
        tsl_buf_put(b, h264_pic, sizeof(h264_pic) > 1500 ? 1500 : sizeof(h264_pic));
        tsl_buf_put(b, h264_headers, sizeof(h264_headers));
        for (int c = 0; c < 7; c++) write_seed(dir, idx++, 4, (uint8_t)(c | (c << 3)), b->p, b->n);
    }
    /* a minimal H.265 stream: VPS/SPS/PPS headers then slices (contents arbitrary) */
    {
        static const uint8_t hevc[] = { 0,0,0,1,0x40,1,0x0c,1,0xff,0xff,1,0x60,0,0,3,0,0x90,0,0,3,0,0,3,0,0x5d,0x95,0x98,9,
                                       0,0,0,1,0x42,1,1,1,0x60,0,0,3,0,0x90,0,0,3,0,0,3,0,0x5d,0xa0,2,0x80,0x80,0x2d,0x16,0x59,0x59,0xa4,0x93,0x2b,0xc0,0x40,0x40,0,0,3,0,0x40,0,0,7,0x82,
                                       0,0,0,1,0x44,1,0xc1,0x72,0xb4,0x62,0x40,
                                       0,0,0,1,0x26,1,0xaf,0x08,0x40,0x11,0x22,0x33,0x44,0x55,
                                       0,0,1,0x02,1,0xd0,0x10,0x80,0x11,0x22,0x33 };
        for (int c = 0; c < 5; c++) write_seed(dir, idx++, 5, (uint8_t)(c | (c << 3)), hevc, sizeof(hevc));
    }
    fprintf(stderr, "fuzz_ts: %d seeds written to %s\n", idx, dir);
}

int LLVMFuzzerInitialize(int *argc, char ***argv)
{
    (void)argc; (void)argv;
    tsl_init();
    vh_rng_seed(&rng, 1);
    inited = true;
    const char *sel = getenv("FUZZ_TS_SELECT");
    nallowed = 0;
    if (sel) for (const char *c = sel; *c; c++) if (*c >= '0' && *c <= '6' && nallowed < 8) allowed[nallowed++] = (uint8_t)(*c - '0');
    if (!nallowed) for (int i = 0; i < 7; i++) allowed[nallowed++] = (uint8_t)i;
    const char *sd = getenv("FUZZ_TS_SEED_DIR");
    if (sd) { struct vh_rng r0; vh_rng_seed(&r0, 1); tsl_case_begin(&r0); make_seeds(sd); tsl_case_begin(&r0); }
    return 0;
}

int LLVMFuzzerTestOneInput(const uint8_t *data, size_t size)
{
    if (!inited) LLVMFuzzerInitialize(NULL, NULL);
    if (size < 2) return 0;
    vh_rng_seed(&rng, (uint64_t)data[0] * 256 + data[1] + size);
    tsl_case_begin(&rng);
    if (setjmp(vh_case_jmp)) {
        /* a violation raised by the lab (non-termination guard, allocation) */
        fprintf(stderr, "fuzz_ts: violation raised by the laboratory\n");
        abort();
    }
    uint8_t sel = data[0] & 7, cfg = data[1];
    if (sel == 7) sel = 6;
    bool ok = false;
    for (int i = 0; i < nallowed; i++) if (allowed[i] == sel) ok = true;
    if (!ok) sel = allowed[data[0] % nallowed];
    data += 2; size -= 2;
    struct tsl_sink *sink = tsl_sink_new("out");
    struct upipe *head = NULL;
    switch (sel) {
        case 0: {
            head = mk(upipe_ts_decaps_mgr_alloc(), "mpegts.");
            struct upipe *pesd = mk(upipe_ts_pesd_mgr_alloc(), NULL);
            upipe_set_output(head, pesd);
            upipe_set_output(pesd, tsl_sink_upipe(sink));
            feed(head, data, size, 3, TSR_SIZE, false, false);
            break;
        }
        case 1: {
            head = mk(upipe_ts_sync_mgr_alloc(), "");
            struct upipe *dec = mk(upipe_ts_decaps_mgr_alloc(), NULL);
            struct upipe *psim = mk(upipe_ts_psim_mgr_alloc(), NULL);
            upipe_set_output(head, dec);
            upipe_set_output(dec, psim);
            upipe_set_output(psim, tsl_sink_upipe(sink));
            feed(head, data, size, cfg, TSR_SIZE, false, (cfg & 0x40) != 0);
            break;
        }
        case 2:
            head = mk(upipe_ts_pesd_mgr_alloc(), "mpegtspes.");
            upipe_set_output(head, tsl_sink_upipe(sink));
            feed(head, data, size, cfg, 184, true, (cfg & 0x40) != 0);
            break;
        case 3:
            head = mk(upipe_ts_psim_mgr_alloc(), "mpegtspsi.");
            upipe_set_output(head, tsl_sink_upipe(sink));
            /* seeds carry one flag octet before each 184-octet payload */
            feed(head, data, size, cfg, 185, true, (cfg & 0x40) != 0);
            break;
        case 4: case 5: {
            bool h265 = sel == 5;
            static const enum uref_h26x_encaps enc[] = { UREF_H26X_ENCAPS_ANNEXB, UREF_H26X_ENCAPS_LENGTH4, UREF_H26X_ENCAPS_NALU, UREF_H26X_ENCAPS_LENGTH1, UREF_H26X_ENCAPS_LENGTH2 };
            want_encaps = enc[((cfg >> 3) & 7) % 5];
            sink->flow_format_hook = ff_hook;
            struct upipe_mgr *mgr = h265 ? upipe_h265f_mgr_alloc() : upipe_h264f_mgr_alloc();
            head = tsl_track(upipe_void_alloc(mgr, uprobe_use(tsl_probe)));
            upipe_mgr_release(mgr);
            if (!head) abort();
            upipe_set_output(head, tsl_sink_upipe(sink));
            struct uref *fd = uref_block_flow_alloc_def(tsl_uref_mgr, h265 ? "hevc.pic." : "h264.pic.");
            uref_h26x_flow_set_encaps(fd, UREF_H26X_ENCAPS_ANNEXB);
            upipe_set_flow_def(head, fd);
            uref_free(fd);
            feed(head, data, size, cfg, 64, false, (cfg & 0x40) != 0);
            break;
        }
        default: {
            head = mk((cfg & 0x80) ? upipe_ts_align_mgr_alloc() : upipe_ts_check_mgr_alloc(), (cfg & 0x20) ? "mpegts." : "");
            upipe_set_output(head, tsl_sink_upipe(sink));
            feed(head, data, size, cfg, TSR_SIZE, false, false);
            break;
        }
    }
    tsl_guard_begin("fuzz:release", 64 + 2 * (uint64_t)size);
    tsl_release(&head);
    tsl_guard_end();
    /* outputs must be readable to their announced size */
    for (size_t i = 0; i < sink->n; i++)
        if (sink->recs[i].size && !sink->recs[i].data) abort();
    return 0;
}
