#include "tslab_common.h"

#include "upipe/umem_alloc.h"
#include "upipe/udict_inline.h"
#include "upipe/uref_std.h"
#include "upipe/ubuf_block.h"
#include "upipe/ubuf_block_mem.h"
#include "upipe/uref_pic.h"
#include "upipe/uprobe_ubuf_mem.h"
#include "upipe/uprobe_uref_mgr.h"
#include "upipe/ulog.h"
#include "upipe-framers/uref_h26x.h"

#include <stdlib.h>
#include <string.h>
#include <stdarg.h>
#include <assert.h>
#include <unistd.h>

struct umem_mgr *tsl_umem_mgr;
struct udict_mgr *tsl_udict_mgr;
struct uref_mgr *tsl_uref_mgr;
struct ubuf_mgr *tsl_ubuf_mgr;
struct uprobe *tsl_probe;
struct vh_rng *tsl_rng;
struct tsl_events tsl_ev;
bool (*tsl_event_hook)(struct upipe *upipe, int event, va_list args);

static struct uprobe base_probe;
static uint64_t sink_seq;

/* ------------------------------------------------------------------ */

static void *xmalloc(size_t n)
{
    void *p = malloc(n ? n : 1);
    if (!p) { fprintf(stderr, "tslab: out of memory\n"); exit(2); }
    return p;
}

static void *xrealloc(void *o, size_t n)
{
    void *p = realloc(o, n ? n : 1);
    if (!p) { fprintf(stderr, "tslab: out of memory\n"); exit(2); }
    return p;
}

void tsl_buf_reserve(struct tsl_buf *b, size_t extra)
{
    if (b->n + extra <= b->cap) return;
    size_t nc = b->cap ? b->cap * 2 : 256;
    while (nc < b->n + extra) nc *= 2;
    b->p = xrealloc(b->p, nc);
    b->cap = nc;
}

void tsl_buf_put(struct tsl_buf *b, const void *p, size_t n)
{
    tsl_buf_reserve(b, n);
    if (n) memcpy(b->p + b->n, p, n);
    b->n += n;
}

void tsl_buf_put8(struct tsl_buf *b, uint8_t v)
{
    tsl_buf_reserve(b, 1);
    b->p[b->n++] = v;
}

void tsl_buf_fill(struct tsl_buf *b, uint8_t v, size_t n)
{
    tsl_buf_reserve(b, n);
    memset(b->p + b->n, v, n);
    b->n += n;
}

void tsl_buf_reset(struct tsl_buf *b) { b->n = 0; }

void tsl_buf_free(struct tsl_buf *b)
{
    free(b->p);
    b->p = NULL;
    b->n = b->cap = 0;
}

/* ------------------------------------------------------------------ */
/* registry                                                            */

static void **reg_mem; static size_t reg_mem_n, reg_mem_cap;
static struct tsl_buf **reg_buf; static size_t reg_buf_n, reg_buf_cap;
static struct upipe **reg_pipe; static size_t reg_pipe_n, reg_pipe_cap;
static struct uref **reg_uref; static size_t reg_uref_n, reg_uref_cap;
static struct tsl_sink *sinks;

static bool guard_armed;
static uint64_t guard_budget, guard_count;
static const char *guard_what = "";

#define REG_PUSH(arr, n, cap, v) do { \
    if ((n) == (cap)) { (cap) = (cap) ? (cap) * 2 : 64; \
        (arr) = xrealloc((arr), (cap) * sizeof(*(arr))); } \
    (arr)[(n)++] = (v); } while (0)

void *tsl_alloc(size_t n)
{
    void *p = xmalloc(n);
    memset(p, 0, n);
    REG_PUSH(reg_mem, reg_mem_n, reg_mem_cap, p);
    return p;
}

void *tsl_memdup(const void *p, size_t n)
{
    void *q = tsl_alloc(n);
    if (n) memcpy(q, p, n);
    return q;
}

struct tsl_buf *tsl_buf_new(void)
{
    struct tsl_buf *b = xmalloc(sizeof(*b));
    memset(b, 0, sizeof(*b));
    REG_PUSH(reg_buf, reg_buf_n, reg_buf_cap, b);
    return b;
}

struct upipe *tsl_track(struct upipe *upipe)
{
    if (upipe)
        REG_PUSH(reg_pipe, reg_pipe_n, reg_pipe_cap, upipe);
    return upipe;
}

void tsl_release(struct upipe **upipe_p)
{
    struct upipe *u = *upipe_p;
    if (!u) return;
    for (size_t i = 0; i < reg_pipe_n; i++)
        if (reg_pipe[i] == u) { reg_pipe[i] = NULL; break; }
    *upipe_p = NULL;
    upipe_release(u);
}

struct uref *tsl_track_uref(struct uref *uref)
{
    if (uref)
        REG_PUSH(reg_uref, reg_uref_n, reg_uref_cap, uref);
    return uref;
}

void tsl_untrack_uref(struct uref *uref)
{
    for (size_t i = reg_uref_n; i-- > 0; )
        if (reg_uref[i] == uref) { reg_uref[i] = NULL; return; }
}

static void sink_free(struct tsl_sink *s)
{
    for (size_t i = 0; i < s->n; i++) {
        free(s->recs[i].data);
        free(s->recs[i].attr_txt);
    }
    free(s->recs);
    uref_free(s->flow_def);
    upipe_clean(&s->upipe);
    free(s);
}

void tsl_case_begin(struct vh_rng *rng)
{
    tsl_rng = rng;
    guard_armed = false;
    /* pipes first (they may still flush into sinks), newest first */
    for (size_t i = reg_pipe_n; i-- > 0; )
        if (reg_pipe[i]) { struct upipe *u = reg_pipe[i]; reg_pipe[i] = NULL; upipe_release(u); }
    reg_pipe_n = 0;
    for (size_t i = 0; i < reg_uref_n; i++)
        if (reg_uref[i]) uref_free(reg_uref[i]);
    reg_uref_n = 0;
    while (sinks) { struct tsl_sink *s = sinks; sinks = s->next; sink_free(s); }
    for (size_t i = 0; i < reg_buf_n; i++) { tsl_buf_free(reg_buf[i]); free(reg_buf[i]); }
    reg_buf_n = 0;
    for (size_t i = 0; i < reg_mem_n; i++) free(reg_mem[i]);
    reg_mem_n = 0;
    memset(&tsl_ev, 0, sizeof(tsl_ev));
    sink_seq = 0;
}

/* ------------------------------------------------------------------ */
/* probe                                                               */

static int tsl_catch(struct uprobe *uprobe, struct upipe *upipe, int event, va_list args)
{
    if (tsl_event_hook) {
        va_list cp;
        va_copy(cp, args);
        bool done = tsl_event_hook(upipe, event, cp);
        va_end(cp);
        if (done) return UBASE_ERR_NONE;
    }
    switch (event) {
        case UPROBE_LOG: {
            va_list cp;
            va_copy(cp, args);
            struct ulog *ulog = va_arg(cp, struct ulog *);
            va_end(cp);
            if (ulog->level >= UPROBE_LOG_WARNING) {
                if (ulog->level >= UPROBE_LOG_ERROR) tsl_ev.log_err++;
                else tsl_ev.log_warn++;
                if (vh_opts.verbose >= 1) vh_tr("log:%s", ulog->format);
            }
            if (vh_opts.verbose >= 3) {
                va_list a2;
                va_copy(a2, *ulog->args);
                fprintf(stderr, "  [log %d] ", ulog->level);
                vfprintf(stderr, ulog->format, a2);
                fprintf(stderr, "\n");
                va_end(a2);
            }
            return UBASE_ERR_NONE;
        }
        case UPROBE_FATAL: {
            va_list cp;
            va_copy(cp, args);
            tsl_ev.last_fatal_code = va_arg(cp, int);
            va_end(cp);
            tsl_ev.fatal++;
            return UBASE_ERR_NONE;
        }
        case UPROBE_ERROR: tsl_ev.error++; return UBASE_ERR_NONE;
        case UPROBE_READY: tsl_ev.ready++; return UBASE_ERR_NONE;
        case UPROBE_DEAD: tsl_ev.dead++; return UBASE_ERR_NONE;
        case UPROBE_SOURCE_END: tsl_ev.source_end++; return UBASE_ERR_NONE;
        case UPROBE_NEED_OUTPUT: tsl_ev.need_output++; return UBASE_ERR_NONE;
        case UPROBE_NEW_FLOW_DEF: tsl_ev.new_flow_def++; return UBASE_ERR_NONE;
        case UPROBE_SYNC_ACQUIRED: tsl_ev.sync_acquired++; return UBASE_ERR_NONE;
        case UPROBE_SYNC_LOST: tsl_ev.sync_lost++; return UBASE_ERR_NONE;
        case UPROBE_CLOCK_REF: {
            va_list cp;
            va_copy(cp, args);
            (void)va_arg(cp, struct uref *);
            tsl_ev.last_clock_ref = va_arg(cp, uint64_t);
            tsl_ev.last_clock_ref_disc = va_arg(cp, int);
            va_end(cp);
            tsl_ev.clock_ref++;
            return UBASE_ERR_NONE;
        }
        case UPROBE_CLOCK_TS: tsl_ev.clock_ts++; return UBASE_ERR_NONE;
        case UPROBE_PROVIDE_REQUEST: return UBASE_ERR_UNHANDLED;
        default:
            tsl_ev.other++;
            return UBASE_ERR_NONE;
    }
}

/* vh.c replaces AddressSanitizer's SIGSEGV handler by its own, which gives
 * every wild access the same key "crash:segv".  The TS lab wants the faulting
 * function in the key, as for the other sanitizer reports: same crash
 * context lines as vh.c, then a report header the driver understands and the
 * sanitizer's own stack trace. */
#ifdef VH_VARIANT_ASAN
#include <signal.h>
#include <inttypes.h>
void __sanitizer_print_stack_trace(void);
static void tsl_on_segv(int sig)
{
    char buf[256];
    int n = snprintf(buf, sizeof(buf),
        "\n{\"t\":\"crash\",\"kind\":\"segv\",\"case\":%" PRIu64
        ",\"case_seed\":\"%" PRIu64 "\",\"worker\":%d}\n",
        vh_case_index, vh_case_seed, vh_opts.worker);
    if (write(1, buf, (size_t)n) < 0) {}
    n = snprintf(buf, sizeof(buf), "\nVH-CRASH kind=segv case=%" PRIu64
                 " case_seed=%" PRIu64 "\nVH-TRACE ", vh_case_index, vh_case_seed);
    if (write(2, buf, (size_t)n) < 0) {}
    if (write(2, vh_trace, strlen(vh_trace)) < 0) {}
    n = snprintf(buf, sizeof(buf), "\n==%d==ERROR: AddressSanitizer: SEGV on unknown address (signal %d, reported by the tslab handler)\n",
                 (int)getpid(), sig);
    if (write(2, buf, (size_t)n) < 0) {}
    __sanitizer_print_stack_trace();
    signal(sig, SIG_DFL);
    raise(sig);
}
#endif

void tsl_init(void)
{
#ifdef VH_VARIANT_ASAN
    signal(SIGSEGV, tsl_on_segv);
    signal(SIGBUS, tsl_on_segv);
#endif
    tsl_umem_mgr = umem_alloc_mgr_alloc();
    tsl_udict_mgr = udict_inline_mgr_alloc(0, tsl_umem_mgr, -1, -1);
    tsl_uref_mgr = uref_std_mgr_alloc(0, tsl_udict_mgr, 0);
    tsl_ubuf_mgr = ubuf_block_mem_mgr_alloc(0, 0, tsl_umem_mgr, 0, 0, 0, 0);
    uprobe_init(&base_probe, tsl_catch, NULL);
    struct uprobe *p = uprobe_uref_mgr_alloc(&base_probe, tsl_uref_mgr);
    p = uprobe_ubuf_mem_alloc(p, tsl_umem_mgr, 0, 0);
    tsl_probe = p;
    if (!tsl_umem_mgr || !tsl_udict_mgr || !tsl_uref_mgr || !tsl_ubuf_mgr || !p) {
        fprintf(stderr, "tslab: manager allocation failed\n");
        exit(2);
    }
}

void tsl_fini(void)
{
    struct vh_rng dummy;
    vh_rng_seed(&dummy, 0);
    tsl_case_begin(&dummy);
    uprobe_release(tsl_probe);
    ubuf_mgr_release(tsl_ubuf_mgr);
    uref_mgr_release(tsl_uref_mgr);
    udict_mgr_release(tsl_udict_mgr);
    umem_mgr_release(tsl_umem_mgr);
}

/* ------------------------------------------------------------------ */
/* sink                                                                */

void tsl_guard_begin(const char *what, uint64_t budget)
{
    guard_armed = true;
    guard_what = what;
    guard_budget = budget;
    guard_count = 0;
}

void tsl_guard_end(void) { guard_armed = false; }

static struct upipe_mgr sink_mgr;

static void sink_input(struct upipe *upipe, struct uref *uref, struct upump **upump_p)
{
    struct tsl_sink *s = container_of(upipe, struct tsl_sink, upipe);
    if (guard_armed && ++guard_count > guard_budget) {
        char key[128];
        snprintf(key, sizeof(key), "nonterm:%s", guard_what);
        guard_armed = false;
        vh_violation_noabort(key, "sink %s received more than %llu buffers during one call: the pipe does not terminate",
                             s->name, (unsigned long long)guard_budget);
        fflush(stdout);
        /* same convention as the pipe laboratory: the driver reads the key
         * from stderr and the SIGABRT handler of vh.c prints the case */
        fprintf(stderr, "VH-ABORT-KEY %s\n", key);
        abort();
    }
    if (s->n == s->cap) {
        s->cap = s->cap ? s->cap * 2 : 32;
        s->recs = xrealloc(s->recs, s->cap * sizeof(*s->recs));
    }
    struct tsl_rec *r = &s->recs[s->n++];
    memset(r, 0, sizeof(*r));
    r->seq = sink_seq++;
    r->dts_orig = r->pts_orig = r->dts_pts_delay = r->header_size = UINT64_MAX;
    if (uref->ubuf != NULL) {
        size_t size = 0;
        if (ubase_check(uref_block_size(uref, &size))) {
            r->data = xmalloc(size);
            r->size = size;
            if (size && !ubase_check(uref_block_extract(uref, 0, size, r->data))) {
                /* inconsistent block: total size larger than readable octets */
                vh_violation_noabort("tslab:sink:unreadable-block",
                    "sink %s: block announces %zu octets but cannot be read", s->name, size);
                r->size = 0;
            }
            r->nsegs = size ? ubuf_block_iovec_count(uref->ubuf, 0, -1) : 1;
        }
    }
    s->bytes += r->size;
    if (ubase_check(uref_block_get_start(uref))) r->flags |= TSL_F_START;
    if (ubase_check(uref_block_get_end(uref))) r->flags |= TSL_F_END;
    if (ubase_check(uref_flow_get_discontinuity(uref))) r->flags |= TSL_F_DISC;
    if (ubase_check(uref_flow_get_random(uref))) r->flags |= TSL_F_RANDOM;
    if (ubase_check(uref_flow_get_error(uref))) r->flags |= TSL_F_ERROR;
    if (ubase_check(uref_pic_get_key(uref))) r->flags |= TSL_F_KEY;
    if (ubase_check(uref_clock_get_ref(uref))) r->flags |= TSL_F_REF;
    uref_clock_get_dts_orig(uref, &r->dts_orig);
    uref_clock_get_pts_orig(uref, &r->pts_orig);
    uref_clock_get_dts_pts_delay(uref, &r->dts_pts_delay);
    uref_block_get_header_size(uref, &r->header_size);
    uint64_t off;
    while (r->nb_nal < TSL_MAX_NAL &&
           ubase_check(uref_h26x_get_nal_offset(uref, &off, r->nb_nal)))
        r->nal[r->nb_nal++] = off;
    uint64_t h = 0;
    if (uref->udict != NULL) {
        const char *name = NULL;
        enum udict_type type = UDICT_TYPE_END;
        while (ubase_check(udict_iterate(uref->udict, &name, &type)) &&
               type != UDICT_TYPE_END) {
            /* tracked separately: NAL offsets, header size, error / key flags */
            if (name && (!strncmp(name, "h26x.n[", 7) || !strcmp(name, "b.header")))
                continue;
            if (type == UDICT_TYPE_FLOW_ERROR || type == UDICT_TYPE_PIC_KEY)
                continue;
            uint64_t a = vh_hash_mix(0x1234, (uint64_t)type);
            if (name) a = vh_hash_bytes(a, name, strlen(name));
            size_t vs = 0;
            const uint8_t *vp = NULL;
            if (ubase_check(udict_get(uref->udict, name, type, &vs, &vp)) && vp)
                a = vh_hash_bytes(a, vp, vs);
            h += a;     /* order-insensitive */
            if (vh_opts.verbose) {
                size_t ol = r->attr_txt ? strlen(r->attr_txt) : 0;
                r->attr_txt = xrealloc(r->attr_txt, ol + 160);
                snprintf(r->attr_txt + ol, 160, "%s(t%d)=%s; ", name ? name : "-", (int)type, vp ? tsl_hex(vp, vs, 10) : "");
            }
        }
    }
    r->attr_hash = h;
    uref_free(uref);
}

static int sink_control(struct upipe *upipe, int command, va_list args)
{
    struct tsl_sink *s = container_of(upipe, struct tsl_sink, upipe);
    switch (command) {
        case UPIPE_SET_FLOW_DEF: {
            struct uref *fd = va_arg(args, struct uref *);
            if (!fd) return UBASE_ERR_INVALID;
            uref_free(s->flow_def);
            s->flow_def = uref_dup(fd);
            s->nb_flow_def++;
            return UBASE_ERR_NONE;
        }
        case UPIPE_REGISTER_REQUEST: {
            struct urequest *rq = va_arg(args, struct urequest *);
            s->nb_requests++;
            if (rq->type == UREQUEST_FLOW_FORMAT) {
                struct uref *u = uref_dup(rq->uref);
                if (!u) return UBASE_ERR_ALLOC;
                if (s->flow_format_hook) s->flow_format_hook(s, u);
                return urequest_provide_flow_format(rq, u);
            }
            return upipe_throw_provide_request(upipe, rq);
        }
        case UPIPE_UNREGISTER_REQUEST:
            return UBASE_ERR_NONE;
        default:
            return UBASE_ERR_UNHANDLED;
    }
}

struct tsl_sink *tsl_sink_new(const char *name)
{
    struct tsl_sink *s = xmalloc(sizeof(*s));
    memset(s, 0, sizeof(*s));
    if (!sink_mgr.upipe_input) {
        upipe_mgr_init(&sink_mgr);
        sink_mgr.refcount = NULL;
        sink_mgr.signature = UBASE_FOURCC('v','s','n','k');
        sink_mgr.upipe_input = sink_input;
        sink_mgr.upipe_control = sink_control;
    }
    upipe_init(&s->upipe, &sink_mgr, uprobe_use(tsl_probe));
    /* refcount NULL: static life time, reclaimed by the registry */
    s->name = name;
    s->next = sinks;
    sinks = s;
    return s;
}

struct tsl_buf *tsl_sink_concat(struct tsl_sink *s)
{
    struct tsl_buf *b = tsl_buf_new();
    for (size_t i = 0; i < s->n; i++)
        tsl_buf_put(b, s->recs[i].data, s->recs[i].size);
    return b;
}

/* ------------------------------------------------------------------ */
/* urefs from bytes                                                    */

static struct ubuf *ubuf_exact(const uint8_t *p, size_t n)
{
    struct ubuf *u = ubuf_block_alloc(tsl_ubuf_mgr, n);
    if (!u) { fprintf(stderr, "tslab: ubuf_block_alloc(%zu) failed\n", n); exit(2); }
    if (n) {
        uint8_t *w;
        int ws = -1;
        if (!ubase_check(ubuf_block_write(u, 0, &ws, &w)) || (size_t)ws != n) {
            fprintf(stderr, "tslab: write mapping of a fresh block failed\n");
            exit(2);
        }
        memcpy(w, p, n);
        ubuf_block_unmap(u, 0);
    }
    return u;
}

static struct uref *uref_from_cuts(const uint8_t *p, size_t n, const size_t *cut, int nseg)
{
    struct uref *uref = uref_alloc(tsl_uref_mgr);
    if (!uref) { fprintf(stderr, "tslab: uref_alloc failed\n"); exit(2); }
    size_t prev = 0;
    struct ubuf *head = NULL;
    for (int i = 0; i < nseg; i++) {
        size_t end = i == nseg - 1 ? n : cut[i];
        struct ubuf *seg = ubuf_exact(p + prev, end - prev);
        if (!head) head = seg;
        else if (!ubase_check(ubuf_block_append(head, seg))) {
            fprintf(stderr, "tslab: ubuf_block_append failed\n");
            exit(2);
        }
        prev = end;
    }
    uref_attach_ubuf(uref, head);
    return uref;
}

struct uref *tsl_uref_from_bytes(const uint8_t *p, size_t n, int nseg)
{
    if (nseg < 1) nseg = 1;
    if (nseg > 16) nseg = 16;
    size_t cut[16];
    for (int i = 0; i < nseg - 1; i++) cut[i] = n * (i + 1) / nseg;
    return uref_from_cuts(p, n, cut, nseg);
}

struct uref *tsl_uref_from_bytes_rnd(struct vh_rng *r, const uint8_t *p, size_t n)
{
    int nseg = 1;
    if (vh_chance(r, 1, 4)) nseg = 2 + vh_below(r, 4);
    size_t cut[16];
    for (int i = 0; i < nseg - 1; i++) cut[i] = n ? vh_below(r, n + 1) : 0;
    /* sort */
    for (int i = 0; i < nseg - 1; i++)
        for (int j = i + 1; j < nseg - 1; j++)
            if (cut[j] < cut[i]) { size_t t = cut[i]; cut[i] = cut[j]; cut[j] = t; }
    if (nseg > 1) VH_COUNT("input.segmented_urefs");
    return uref_from_cuts(p, n, cut, nseg);
}

uint8_t *tsl_ubuf_bytes(struct ubuf *ubuf, size_t *size_p)
{
    size_t size = 0;
    *size_p = 0;
    if (!ubuf || !ubase_check(ubuf_block_size(ubuf, &size)))
        return NULL;
    uint8_t *p = tsl_alloc(size);
    if (size && !ubase_check(ubuf_block_extract(ubuf, 0, size, p)))
        return NULL;
    *size_p = size;
    return p;
}

/* ------------------------------------------------------------------ */
/* cutters                                                             */

const char *tsl_cut_name(enum tsl_cut_style s)
{
    static const char *n[] = { "whole", "bytes", "tiny", "small", "large", "unit", "mixed" };
    return s < TSL_CUT_NB ? n[s] : "?";
}

int tsl_cut(struct vh_rng *r, enum tsl_cut_style style, size_t n, size_t unit,
            size_t *sizes, int max)
{
    int k = 0;
    size_t left = n;
    if (unit == 0) unit = 188;
    if (n == 0) { sizes[0] = 0; return 1; }
    while (left > 0 && k < max - 1) {
        size_t s;
        switch (style) {
            default:
            case TSL_CUT_WHOLE: s = left; break;
            case TSL_CUT_BYTES: s = 1; break;
            case TSL_CUT_TINY: s = 1 + vh_below(r, 8); break;
            case TSL_CUT_SMALL: s = 1 + vh_below(r, 64); break;
            case TSL_CUT_LARGE: s = 1 + vh_below(r, 2000); break;
            case TSL_CUT_UNIT: {
                size_t m = unit * (1 + vh_below(r, 3));
                int d = (int)vh_below(r, 3) - 1;
                s = (size_t)((long)m + d);
                if (s == 0) s = 1;
                break;
            }
            case TSL_CUT_MIXED: {
                uint32_t c = vh_below(r, 10);
                if (c == 0) s = 0;
                else if (c <= 2) s = 1;
                else if (c <= 4) s = 1 + vh_below(r, 8);
                else if (c <= 6) { s = unit + vh_below(r, 3) - 1; if (s == 0) s = 1; }
                else s = 1 + vh_below(r, 400);
                break;
            }
        }
        if (s > left) s = left;
        sizes[k++] = s;
        left -= s;
    }
    if (left > 0) sizes[k++] = left;
    if (style == TSL_CUT_MIXED && k < max && vh_chance(r, 1, 4))
        sizes[k++] = 0;     /* trailing empty buffer */
    return k;
}

void tsl_corrupt(struct vh_rng *r, enum tsl_corrupt how, uint8_t *p, size_t n)
{
    if (!n) return;
    switch (how) {
        default:
        case TSL_COR_BITFLIP: {
            int k = 1 + vh_below(r, 4);
            while (k--) p[vh_below(r, n)] ^= 1u << vh_below(r, 8);
            break;
        }
        case TSL_COR_BYTES: {
            int k = 1 + vh_below(r, 6);
            while (k--) p[vh_below(r, n)] = (uint8_t)vh_rand(r);
            break;
        }
        case TSL_COR_ZERO: {
            size_t o = vh_below(r, n), l = 1 + vh_below(r, 16);
            for (size_t i = o; i < n && i < o + l; i++) p[i] = 0;
            break;
        }
        case TSL_COR_FF: {
            size_t o = vh_below(r, n), l = 1 + vh_below(r, 16);
            for (size_t i = o; i < n && i < o + l; i++) p[i] = 0xff;
            break;
        }
        case TSL_COR_RANDOM_ALL:
            for (size_t i = 0; i < n; i++) p[i] = (uint8_t)vh_rand(r);
            break;
    }
}

bool tsl_contains(const uint8_t *hay, size_t n, const uint8_t *needle, size_t m)
{
    if (m == 0) return true;
    if (m > n) return false;
    for (size_t i = 0; i + m <= n; i++) {
        const uint8_t *q = memchr(hay + i, needle[0], n - m - i + 1);
        if (!q) return false;
        i = (size_t)(q - hay);
        if (!memcmp(q, needle, m)) return true;
    }
    return false;
}

void tsl_byteset_add(struct tsl_byteset *s, const uint8_t *p, size_t n)
{
    for (size_t i = 0; i < n; i++) s->has[p[i]] = true;
}

bool tsl_byteset_covers(const struct tsl_byteset *s, const uint8_t *p, size_t n)
{
    for (size_t i = 0; i < n; i++) if (!s->has[p[i]]) return false;
    return true;
}

const char *tsl_hex(const uint8_t *p, size_t n, size_t max)
{
    static char bufs[4][400];
    static int which;
    char *b = bufs[which++ & 3];
    size_t o = 0;
    if (max > 120) max = 120;
    for (size_t i = 0; i < n && i < max; i++)
        o += snprintf(b + o, 400 - o, "%02x ", p[i]);
    if (n > max) snprintf(b + o, 400 - o, "...(%zu)", n);
    else if (o) b[o - 1] = 0; else b[0] = 0;
    return b;
}

/* ------------------------------------------------------------------ */
/* reference TS codec                                                  */

int tsr_af_min_len(const struct tsr_pkt *d)
{
    if (!d->has_af) return 0;
    int l = 0;
    bool any = d->af_disc || d->af_rai || d->af_espi || d->af_pcr || d->af_opcr ||
               d->af_splice || d->af_priv || d->af_ext;
    if (any) l = 1;
    if (d->af_pcr) l += 6;
    if (d->af_opcr) l += 6;
    if (d->af_splice) l += 1;
    if (d->af_priv) l += 1 + d->priv_len;
    if (d->af_ext) l += 2;
    return l;
}

static void put_pcr(uint8_t *b, uint64_t base, uint16_t ext)
{
    b[0] = (uint8_t)(base >> 25);
    b[1] = (uint8_t)(base >> 17);
    b[2] = (uint8_t)(base >> 9);
    b[3] = (uint8_t)(base >> 1);
    b[4] = (uint8_t)(((base & 1) << 7) | 0x7e | ((ext >> 8) & 1));
    b[5] = (uint8_t)(ext & 0xff);
}

static void get_pcr(const uint8_t *b, uint64_t *base, uint16_t *ext)
{
    *base = ((uint64_t)b[0] << 25) | ((uint64_t)b[1] << 17) | ((uint64_t)b[2] << 9) |
            ((uint64_t)b[3] << 1) | (b[4] >> 7);
    *ext = (uint16_t)(((b[4] & 1) << 8) | b[5]);
}

void tsr_build(uint8_t *out, const struct tsr_pkt *d, const uint8_t *payload)
{
    memset(out, 0xff, TSR_SIZE);
    out[0] = 0x47;
    out[1] = (uint8_t)((d->tei << 7) | (d->pusi << 6) | (d->prio << 5) | ((d->pid >> 8) & 0x1f));
    out[2] = (uint8_t)(d->pid & 0xff);
    out[3] = (uint8_t)(((d->scrambling & 3) << 6) | (d->has_af << 5) | (d->has_payload << 4) | (d->cc & 0xf));
    int pos = 4;
    if (d->has_af) {
        assert(d->af_len >= tsr_af_min_len(d) && d->af_len <= 183);
        out[4] = (uint8_t)d->af_len;
        pos = 5;
        if (d->af_len > 0) {
            out[5] = (uint8_t)((d->af_disc << 7) | (d->af_rai << 6) | (d->af_espi << 5) |
                               (d->af_pcr << 4) | (d->af_opcr << 3) | (d->af_splice << 2) |
                               (d->af_priv << 1) | d->af_ext);
            int q = 6;
            if (d->af_pcr) { put_pcr(out + q, d->pcr_base, d->pcr_ext); q += 6; }
            if (d->af_opcr) { put_pcr(out + q, d->opcr_base, d->opcr_ext); q += 6; }
            if (d->af_splice) out[q++] = d->splice_countdown;
            if (d->af_priv) { out[q++] = d->priv_len; memcpy(out + q, d->priv, d->priv_len); q += d->priv_len; }
            if (d->af_ext) { out[q++] = 1; out[q++] = 0x1f; }
            assert(q <= 5 + d->af_len);
            /* the rest up to 5 + af_len is 0xff stuffing */
        }
        pos = 5 + d->af_len;
    }
    int plen = d->has_payload ? TSR_SIZE - pos : 0;
    assert(!d->has_payload || plen >= 0);
    if (plen > 0) memcpy(out + pos, payload, plen);
    assert(d->has_payload || pos == TSR_SIZE || !d->has_af);
}

int tsr_parse(const uint8_t *p, size_t n, struct tsr_pkt *d)
{
    memset(d, 0, sizeof(*d));
    if (n != TSR_SIZE) return -1;
    if (p[0] != 0x47) return -2;
    d->tei = !!(p[1] & 0x80);
    d->pusi = !!(p[1] & 0x40);
    d->prio = !!(p[1] & 0x20);
    d->pid = (uint16_t)(((p[1] & 0x1f) << 8) | p[2]);
    d->scrambling = p[3] >> 6;
    d->has_af = !!(p[3] & 0x20);
    d->has_payload = !!(p[3] & 0x10);
    d->cc = p[3] & 0xf;
    if (!d->has_af && !d->has_payload) return -3;      /* reserved */
    int pos = 4;
    if (d->has_af) {
        d->af_len = p[4];
        if (d->has_payload ? d->af_len > 183 : d->af_len != 183) return -4;
        if (d->af_len > 0) {
            uint8_t f = p[5];
            d->af_disc = !!(f & 0x80); d->af_rai = !!(f & 0x40); d->af_espi = !!(f & 0x20);
            d->af_pcr = !!(f & 0x10); d->af_opcr = !!(f & 0x08); d->af_splice = !!(f & 0x04);
            d->af_priv = !!(f & 0x02); d->af_ext = !!(f & 0x01);
            int q = 6, end = 5 + d->af_len;
            if (d->af_pcr) { if (q + 6 > end) return -5; get_pcr(p + q, &d->pcr_base, &d->pcr_ext); q += 6; }
            if (d->af_opcr) { if (q + 6 > end) return -5; get_pcr(p + q, &d->opcr_base, &d->opcr_ext); q += 6; }
            if (d->af_splice) { if (q + 1 > end) return -5; d->splice_countdown = p[q++]; }
            if (d->af_priv) {
                if (q + 1 > end) return -5;
                d->priv_len = p[q++];
                if (q + d->priv_len > end) return -5;
                if (d->priv_len <= sizeof(d->priv)) memcpy(d->priv, p + q, d->priv_len);
                q += d->priv_len;
            }
            if (d->af_ext) {
                if (q + 1 > end) return -5;
                int el = p[q++];
                if (q + el > end) return -5;
                q += el;
            }
            for (; q < end; q++) if (p[q] != 0xff) return -6;   /* stuffing */
        }
        pos = 5 + d->af_len;
    }
    d->payload_off = pos;
    d->payload_len = d->has_payload ? TSR_SIZE - pos : 0;
    return 0;
}

/* ------------------------------------------------------------------ */
/* reference PES codec                                                 */

bool pesr_streamid_has_opt(uint8_t sid)
{
    switch (sid) {
        case 0xbc: /* program_stream_map */
        case 0xbe: /* padding_stream */
        case 0xbf: /* private_stream_2 */
        case 0xf0: /* ECM */
        case 0xf1: /* EMM */
        case 0xff: /* program_stream_directory */
        case 0xf2: /* DSMCC */
        case 0xf8: /* H.222.1 type E */
            return false;
        default:
            return true;
    }
}

static void put_ts33(uint8_t *b, uint8_t prefix, uint64_t v)
{
    b[0] = (uint8_t)((prefix << 4) | (((v >> 30) & 7) << 1) | 1);
    b[1] = (uint8_t)(v >> 22);
    b[2] = (uint8_t)((((v >> 15) & 0x7f) << 1) | 1);
    b[3] = (uint8_t)(v >> 7);
    b[4] = (uint8_t)(((v & 0x7f) << 1) | 1);
}

static int get_ts33(const uint8_t *b, uint8_t prefix, uint64_t *v)
{
    if ((b[0] >> 4) != prefix || !(b[0] & 1) || !(b[2] & 1) || !(b[4] & 1))
        return -1;
    *v = ((uint64_t)((b[0] >> 1) & 7) << 30) | ((uint64_t)b[1] << 22) |
         ((uint64_t)(b[2] >> 1) << 15) | ((uint64_t)b[3] << 7) | (b[4] >> 1);
    return 0;
}

int pesr_parse(const uint8_t *p, size_t n, struct pesr_hdr *h)
{
    memset(h, 0, sizeof(*h));
    if (n < 6) return -1;
    if (p[0] != 0 || p[1] != 0 || p[2] != 1) return -2;
    h->stream_id = p[3];
    h->packet_length = (uint32_t)((p[4] << 8) | p[5]);
    h->has_opt = pesr_streamid_has_opt(h->stream_id);
    if (!h->has_opt) { h->header_size = 6; return 0; }
    if (n < 9) return -1;
    if ((p[6] & 0xc0) != 0x80) return -3;
    h->scrambling = (p[6] >> 4) & 3;
    h->priority = !!(p[6] & 8);
    h->alignment = !!(p[6] & 4);
    h->copyright = !!(p[6] & 2);
    h->original = !!(p[6] & 1);
    h->pts_dts_flags = p[7] >> 6;
    h->other_flags = p[7] & 0x3f;
    h->header_data_length = p[8];
    h->header_size = 9 + h->header_data_length;
    if (n < (size_t)h->header_size) return -1;
    if (h->pts_dts_flags == 1) return -4;
    int need = h->pts_dts_flags == 2 ? 5 : h->pts_dts_flags == 3 ? 10 : 0;
    if (h->header_data_length < need) return -5;
    if (h->pts_dts_flags == 2) {
        if (get_ts33(p + 9, 2, &h->pts)) return -6;
    } else if (h->pts_dts_flags == 3) {
        if (get_ts33(p + 9, 3, &h->pts)) return -6;
        if (get_ts33(p + 14, 1, &h->dts)) return -7;
    }
    if (h->other_flags == 0)
        for (int i = 9 + need; i < h->header_size; i++)
            if (p[i] != 0xff) return -8;       /* stuffing */
    return 0;
}

int pesr_build(uint8_t *out, const struct pesr_hdr *h, int stuffing)
{
    out[0] = 0; out[1] = 0; out[2] = 1;
    out[3] = h->stream_id;
    out[4] = (uint8_t)(h->packet_length >> 8);
    out[5] = (uint8_t)(h->packet_length & 0xff);
    if (!pesr_streamid_has_opt(h->stream_id)) return 6;
    out[6] = (uint8_t)(0x80 | ((h->scrambling & 3) << 4) | (h->priority << 3) |
                       (h->alignment << 2) | (h->copyright << 1) | h->original);
    out[7] = (uint8_t)(h->pts_dts_flags << 6);
    int q = 9;
    if (h->pts_dts_flags == 2) { put_ts33(out + q, 2, h->pts); q += 5; }
    else if (h->pts_dts_flags == 3) { put_ts33(out + q, 3, h->pts); q += 5; put_ts33(out + q, 1, h->dts); q += 5; }
    for (int i = 0; i < stuffing; i++) out[q++] = 0xff;
    out[8] = (uint8_t)(q - 9);
    return q;
}

/* ------------------------------------------------------------------ */
/* PSI                                                                 */

void psir_gen_section(struct vh_rng *r, struct psir_sec *s, int size)
{
    assert(size >= 3 && size <= 4096);
    memset(s, 0, sizeof(*s));
    s->data = tsl_alloc((size_t)size);
    s->size = size;
    int len = size - 3;
    uint8_t tid;
    do tid = (uint8_t)vh_rand(r); while (tid == 0xff);
    if (vh_chance(r, 1, 3)) tid = (uint8_t)vh_below(r, 4);     /* few values: filters match */
    bool syntax = len >= 9 && vh_chance(r, 1, 2);
    s->data[0] = tid;
    s->data[1] = (uint8_t)((syntax << 7) | (vh_below(r, 2) << 6) | 0x30 | (len >> 8));
    s->data[2] = (uint8_t)(len & 0xff);
    int style = vh_below(r, 3);
    for (int i = 3; i < size; i++)
        s->data[i] = style == 0 ? (uint8_t)vh_rand(r) :
                     style == 1 ? (uint8_t)vh_below(r, 4) :
                     (vh_chance(r, 1, 8) ? 0xff : (uint8_t)vh_rand(r));
}
