#!/usr/bin/env python3
"""development aid: run one harness job through the driver's parallel runner
usage: job.py <bin> <cases> [mode] [seed] [repo]"""
import sys, os, json
sys.path.insert(0, '/verif')
from vlib import run, build
binname, cases = sys.argv[1], int(sys.argv[2])
mode = sys.argv[3] if len(sys.argv) > 3 else ''
seed = int(sys.argv[4]) if len(sys.argv) > 4 else 1
repo = sys.argv[5] if len(sys.argv) > 5 else '/repo'
bdir = build.variant_dir('asan', repo)
args = (['--mode', mode] if mode else []) + ['--tier', 'quick']
agg = run.run_job(os.path.join(bdir, 'bin', binname), args, seed, cases, repo, 'asan')
print('cases %d wall %.1fs crashes %d nontrivial %d distinct %d inconclusive %s' % (
    agg['cases_run'], agg['wall_s'], agg['crashes'], agg['nontrivial'], agg['distinct'], agg['inconclusive']))
keys = {}
for v in agg['viols']:
    keys.setdefault(v['key'], []).append(v.get('case_seed'))
for k, n in sorted(agg['viol_counts'].items()): print('  VIOL(count) %-70s %d' % (k, n))
for k, v in sorted(keys.items()): print('  viol %-70s first seeds %s' % (k, v[:3]))
dk = {}
for d in agg['diags']: dk[d['key']] = dk.get(d['key'], 0) + 1
for k, v in sorted(dk.items()): print('  diag %-70s %d' % (k, v))
for k, v in sorted(agg['ubsan'].items()): print('  ubsan %s x%d' % (k, v))
if '-c' in sys.argv:
    for k, v in sorted(agg['counters'].items()): print('  %-64s %d' % (k, v))
