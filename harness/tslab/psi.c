/* C16 — PSI sections are reassembled, routed and joined without loss.
 *
 * Modes (--mode):
 *   merge    generated sections -> reference packetiser (13818-1 2.4.4:
 *            pointer_field, several sections per payload, header split across
 *            payloads, 0xff stuffing) -> ts_psi_merge, directly or through
 *            ts_decaps on full TS packets; loss-free, with dropped payloads
 *            (signalled as discontinuity) and with a corrupt section header
 *   split    sections -> ts_psi_split with filter/mask outputs
 *   join     sections -> inputs of ts_psi_join
 *   corrupt  arbitrary payloads / sections: AddressSanitizer + outputs made of
 *            input octets only
 */
#include "tslab_common.h"

#include "upipe/ubuf_block.h"
#include "upipe-ts/upipe_ts_decaps.h"
#include "upipe-ts/upipe_ts_psi_merge.h"
#include "upipe-ts/upipe_ts_psi_split.h"
#include "upipe-ts/upipe_ts_psi_join.h"
#include "upipe-ts/uref_ts_flow.h"

#include <stdlib.h>
#include <string.h>

static struct upipe *alloc_pipe(struct upipe_mgr *mgr, const char *what)
{
    struct upipe *p = tsl_track(upipe_void_alloc(mgr, uprobe_use(tsl_probe)));
    upipe_mgr_release(mgr);
    if (!p) vh_violation("tslab:alloc-failed", "cannot allocate %s", what);
    return p;
}

static void set_flow_def(struct upipe *p, const char *suffix, const char *what)
{
    struct uref *fd = uref_block_flow_alloc_def(tsl_uref_mgr, suffix);
    int err = upipe_set_flow_def(p, fd);
    uref_free(fd);
    if (!ubase_check(err))
        vh_violation("tslab:flow-def-refused", "%s refused flow def block.%s (%d)", what, suffix, err);
}

/* ==================================================================== */
/* reference packetiser                                                 */

struct payload {
    uint8_t b[184];
    int len;
    bool pusi;
    int nstarts;        /* sections starting in this payload */
};

static int gen_section_size(struct vh_rng *r)
{
    uint32_t c = vh_below(r, 100);
    if (c < 10) return 3 + vh_below(r, 3);
    if (c < 35) return 3 + vh_below(r, 40);
    if (c < 65) return 3 + vh_below(r, 400);
    if (c < 75) return 170 + vh_below(r, 30);       /* around one payload */
    if (c < 85) return 1024 - vh_below(r, 8);       /* PSI_MAX_SIZE + header */
    if (c < 95) return 3 + vh_below(r, 4094);
    return 4096 - vh_below(r, 4);                   /* private maximum */
}

static int packetise(struct vh_rng *r, struct psir_sec *secs, int ns, struct payload *pl, int maxp, bool small_payloads)
{
    int np = 0, cur = 0, off = 0;
    while (cur < ns) {
        if (np == maxp) { fprintf(stderr, "tslab: packetiser overflow\n"); exit(2); }
        struct payload *p = &pl[np];
        memset(p, 0, sizeof(*p));
        int C = 184;
        if (small_payloads && vh_chance(r, 1, 3)) C = 1 + vh_below(r, 184);
        int rem = off > 0 ? secs[cur].size - off : 0;
        if (off > 0 && rem >= C) {
            memcpy(p->b, secs[cur].data + off, (size_t)C);
            p->len = C;
            off += C;
            if (off == secs[cur].size) { secs[cur].last_payload = np; cur++; off = 0; }
            np++;
            continue;
        }
        int next = off > 0 ? cur + 1 : cur;
        bool can_start = next < ns;
        if (off == 0 && C < 2) C = 2 + vh_below(r, 183);
        bool start = can_start && C >= rem + 2 && (off == 0 || !vh_chance(r, 1, 4));
        int q = 0;
        if (!start) {
            /* tail of the section, then stuffing to the end of the payload */
            memcpy(p->b, secs[cur].data + off, (size_t)rem);
            memset(p->b + rem, 0xff, (size_t)(C - rem));
            p->len = C;
            if (C > rem) VH_COUNT("gen.payload_with_stuffing");
            secs[cur].last_payload = np;
            cur++; off = 0;
            np++;
            continue;
        }
        p->pusi = true;
        p->b[q++] = (uint8_t)rem;      /* pointer_field */
        if (rem) {
            memcpy(p->b + q, secs[cur].data + off, (size_t)rem);
            q += rem;
            secs[cur].last_payload = np;
            cur++; off = 0;
            VH_COUNT("gen.pointer_field_nonzero");
        } else VH_COUNT("gen.pointer_field_zero");
        /* one or several sections start here */
        for (;;) {
            struct psir_sec *s = &secs[cur];
            s->first_payload = np;
            s->start_off = q;
            p->nstarts++;
            /* now and then the payload ends 1 or 2 octets into the header */
            if (small_payloads && C - q > 2 && vh_chance(r, 1, 8)) C = q + 1 + (int)vh_below(r, 2);
            int room = C - q;
            int k = s->size < room ? s->size : room;
            memcpy(p->b + q, s->data, (size_t)k);
            q += k;
            if (k < 3) vh_count_dyn("gen.header_cut_after_%d_octets", k);
            if (k < s->size) { off = k; break; }       /* continues in the next payload */
            s->last_payload = np;
            cur++; off = 0;
            if (q == C) break;
            if (cur == ns || vh_chance(r, 1, 3)) {
                memset(p->b + q, 0xff, (size_t)(C - q));
                q = C;
                VH_COUNT("gen.payload_with_stuffing");
                break;
            }
        }
        p->len = q;
        vh_count_dyn("gen.sections_starting_in_payload.%d", p->nstarts > 4 ? 4 : p->nstarts);
        np++;
    }
    return np;
}

/* reference TS packet around a payload (adaptation field stuffing when short) */
static void wrap_ts(uint8_t *out, const struct payload *p, uint16_t pid, uint8_t cc)
{
    struct tsr_pkt d;
    memset(&d, 0, sizeof(d));
    d.pid = pid;
    d.pusi = p->pusi;
    d.has_payload = true;
    d.cc = cc;
    if (p->len < 184) {
        d.has_af = true;
        d.af_len = 184 - p->len - 1;
    }
    tsr_build(out, &d, p->b);
}

/* ==================================================================== */
/* merge                                                                */

static void case_merge(struct vh_rng *r)
{
    int ns = 1 + vh_below(r, 10);
    struct psir_sec *secs = tsl_alloc(sizeof(*secs) * (size_t)ns);
    uint64_t h = 0x951;
    size_t total = 0;
    for (int i = 0; i < ns; i++) {
        psir_gen_section(r, &secs[i], gen_section_size(r));
        total += (size_t)secs[i].size;
        h = vh_hash_mix(vh_hash_bytes(h, secs[i].data, secs[i].size < 12 ? (size_t)secs[i].size : 12), (uint64_t)secs[i].size);
    }
    /* scenario */
    uint32_t sc = vh_below(r, 100);
    bool lossy = sc >= 50 && sc < 80;
    int corrupt = sc >= 80 ? (int)vh_below(r, ns) : -1;
    bool chain = vh_chance(r, 1, 3);
    if (corrupt >= 0) {
        /* invalid section header: length beyond the private maximum, or long
         * syntax with a length that cannot hold header + CRC */
        uint8_t *d = secs[corrupt].data;
        if (vh_chance(r, 1, 2) || secs[corrupt].size < 3) { d[1] = (uint8_t)((d[1] & 0xf0) | 0x0f); d[2] = (uint8_t)(0xfe + vh_below(r, 2)); VH_COUNT("gen.corrupt_header.length>4093"); }
        else { d[1] = (uint8_t)(0x80 | 0x30); d[2] = (uint8_t)vh_below(r, 9); VH_COUNT("gen.corrupt_header.syntax_length<9"); }
    }
    int maxp = (int)(total / 20) + ns * 3 + 50;
    struct payload *pl = tsl_alloc(sizeof(*pl) * (size_t)maxp);
    int np = packetise(r, secs, ns, pl, maxp, true);
    bool *fed = tsl_alloc((size_t)np);
    int ndrop = 0;
    for (int i = 0; i < np; i++) {
        fed[i] = true;
        if (lossy && vh_chance(r, 1, 8)) {
            int run = 1 + vh_below(r, 3);
            for (int k = 0; k < run && i < np; k++, i++) { fed[i] = false; ndrop++; }
            i--;
        }
    }
    if (lossy && ndrop == 0 && np > 1) { fed[vh_below(r, np)] = false; ndrop = 1; }
    vh_tr("merge sections=%d payloads=%d %s dropped=%d corrupt=%d", ns, np, chain ? "via-ts_decaps" : "direct", ndrop, corrupt);

    /* guaranteed sections */
    bool *must = tsl_alloc((size_t)ns);
    int flush_payload = -1;
    if (corrupt >= 0) {
        /* payload holding the third header octet of the corrupt section */
        int p = secs[corrupt].first_payload, o = secs[corrupt].start_off + 2;
        while (o >= pl[p].len) { o -= pl[p].len; p++; if (pl[p].pusi) o++; }
        flush_payload = p;
    }
    int nmust = 0;
    for (int i = 0; i < ns; i++) {
        must[i] = true;
        for (int p = secs[i].first_payload; p <= secs[i].last_payload; p++)
            if (!fed[p]) must[i] = false;
        if (corrupt >= 0 && (i == corrupt || (i > corrupt && secs[i].first_payload <= flush_payload)))
            must[i] = false;
        if (must[i]) nmust++;
    }

    if (vh_opts.verbose) {
        for (int i = 0; i < np; i++)
            vh_tr("p%d%s len=%d%s ptr=%d starts=%d [%s]", i, fed[i] ? "" : "(dropped)", pl[i].len, pl[i].pusi ? " PUSI" : "",
                  pl[i].pusi ? pl[i].b[0] : -1, pl[i].nstarts, tsl_hex(pl[i].b, (size_t)pl[i].len, 10));
        for (int i = 0; i < ns; i++)
            vh_tr("s%d size=%d payloads %d..%d off=%d must=%d", i, secs[i].size, secs[i].first_payload, secs[i].last_payload, secs[i].start_off, must[i]);
    }
    struct tsl_sink *out = tsl_sink_new("sections");
    struct upipe *merge = alloc_pipe(upipe_ts_psim_mgr_alloc(), "ts_psi_merge");
    set_flow_def(merge, "mpegtspsi.", "ts_psi_merge");
    upipe_set_output(merge, tsl_sink_upipe(out));
    struct upipe *dec = NULL;
    if (chain) {
        dec = alloc_pipe(upipe_ts_decaps_mgr_alloc(), "ts_decaps");
        set_flow_def(dec, "mpegts.mpegtspsi.", "ts_decaps");
        upipe_set_output(dec, merge);
    }
    uint16_t pid = (uint16_t)vh_below(r, 8191);
    uint8_t cc = (uint8_t)vh_below(r, 16);
    bool gap = false;
    for (int i = 0; i < np; i++) {
        cc = (cc + 1) & 0xf;
        if (!fed[i]) { gap = true; VH_COUNT("merge.payloads_dropped"); continue; }
        if (chain) {
            uint8_t pkt[TSR_SIZE];
            wrap_ts(pkt, &pl[i], pid, cc);
            upipe_input(dec, tsl_uref_from_bytes_rnd(r, pkt, TSR_SIZE), NULL);
        } else {
            struct uref *u = tsl_uref_from_bytes_rnd(r, pl[i].b, (size_t)pl[i].len);
            if (pl[i].pusi) uref_block_set_start(u);
            if (gap) uref_flow_set_discontinuity(u);
            upipe_input(merge, u, NULL);
        }
        gap = false;
        VH_COUNT("merge.payloads_fed");
    }
    if (dec) tsl_release(&dec);
    tsl_release(&merge);

    /* (1) outputs: each one equal to a generated section, in order, each at
     * most once (subsequence of the generated sequence; greedy matching is
     * complete); (2) every guaranteed section present, in order (the
     * guaranteed sections are a subsequence of the outputs).  Two separate
     * matchings: identical sections may be generated twice. */
    int si = 0;
    for (size_t o = 0; o < out->n; o++) {
        struct tsl_rec *rec = &out->recs[o];
        int found = -1;
        for (int k = si; k < ns; k++)
            if ((size_t)secs[k].size == rec->size && !memcmp(secs[k].data, rec->data, rec->size)) { found = k; break; }
        if (found < 0) {
            bool earlier = false;
            for (int k = 0; k < si; k++)
                if ((size_t)secs[k].size == rec->size && !memcmp(secs[k].data, rec->data, rec->size)) earlier = true;
            if (earlier)
                vh_violation("c16:merge:section-duplicated-or-reordered", "output %zu (%zu octets) repeats an earlier section", o, rec->size);
            vh_violation(lossy || corrupt >= 0 ? "c16:merge:bogus-section-after-loss" : "c16:merge:section-mismatch",
                         "output %zu (%zu octets, [%s]) equals none of the remaining generated sections (next expected: #%d of %d octets)",
                         o, rec->size, tsl_hex(rec->data, rec->size, 8), si, si < ns ? secs[si].size : 0);
        }
        si = found + 1;
        VH_COUNT("merge.sections_output_checked");
    }
    size_t oi = 0;
    for (int k = 0; k < ns; k++) {
        if (!must[k]) continue;
        while (oi < out->n && !(out->recs[oi].size == (size_t)secs[k].size && !memcmp(out->recs[oi].data, secs[k].data, out->recs[oi].size))) oi++;
        if (oi == out->n)
            vh_violation(lossy || corrupt >= 0 ? "c16:merge:no-resync" : "c16:merge:section-lost",
                         "section #%d (%d octets, payloads %d..%d, all delivered) was not output (scenario: %s, %d payloads dropped, %zu outputs)",
                         k, secs[k].size, secs[k].first_payload, secs[k].last_payload,
                         corrupt >= 0 ? "corrupt header earlier" : lossy ? "loss" : "loss-free", ndrop, out->n);
        oi++;
    }
    if (!lossy && corrupt < 0 && out->n != (size_t)ns)
        vh_violation("c16:merge:section-duplicated-or-reordered", "%d sections generated, %zu output on a loss-free stream", ns, out->n);
    if (!lossy && corrupt < 0) { VH_COUNT("merge.cases_lossfree"); VH_ADD("merge.sections_lossfree", ns); }
    else if (lossy) { VH_COUNT("merge.cases_with_loss"); if (nmust) VH_COUNT("merge.resync_after_loss_checked"); }
    else { VH_COUNT("merge.cases_corrupt_header"); if (corrupt < ns - 1 && must[ns - 1]) VH_COUNT("merge.resync_after_corrupt_checked"); }
    vh_count_dyn("merge.%s", chain ? "via_ts_decaps" : "direct");
    vh_nontrivial(h);
    if (vh_want_sample())
        vh_sample("merge: %d sections (%zu octets) in %d payloads, %s, %d dropped, corrupt header #%d -> %zu sections out (%d guaranteed)",
                  ns, total, np, chain ? "through ts_decaps" : "direct", ndrop, corrupt, out->n, nmust);
}

/* ==================================================================== */
/* split                                                                */

struct filt { uint8_t f[16], m[16]; int size; };

static bool ref_match(const struct filt *f, const uint8_t *d, int size)
{
    if (size < f->size) return false;
    for (int i = 0; i < f->size; i++)
        if ((d[i] & f->m[i]) != f->f[i]) return false;
    return true;
}

static void case_split(struct vh_rng *r)
{
    uint64_t h = 0x5b1;
    struct upipe *split = alloc_pipe(upipe_ts_psi_split_mgr_alloc(), "ts_psi_split");
    set_flow_def(split, "mpegtspsi.", "ts_psi_split");
    enum { MAXO = 6 };
    struct filt flt[MAXO];
    struct upipe *outs[MAXO];
    struct tsl_sink *sinks[MAXO];
    size_t expect[MAXO];
    int nout = 0;
    int nsec = 2 + vh_below(r, 20);
    for (int s = 0; s < nsec; s++) {
        /* outputs come and go between sections */
        if (nout == 0 || (nout < MAXO && vh_chance(r, 1, 5))) {
            struct filt *f = &flt[nout];
            f->size = vh_chance(r, 1, 2) ? 1 + vh_below(r, 3) : 1 + vh_below(r, 12);
            if (vh_chance(r, 1, 6)) f->size = 8;       /* PSI_HEADER_SIZE_SYNTAX1, the usual one */
            for (int i = 0; i < f->size; i++) {
                uint32_t c = vh_below(r, 4);
                f->m[i] = c == 0 ? 0 : c == 1 ? 0xff : (uint8_t)vh_rand(r);
                f->f[i] = (uint8_t)((i == 0 ? vh_below(r, 4) : vh_rand(r)) & f->m[i]);
            }
            struct uref *fd = uref_block_flow_alloc_def(tsl_uref_mgr, "mpegtspsi.");
            uref_ts_flow_set_psi_filter(fd, f->f, f->m, (size_t)f->size);
            sinks[nout] = tsl_sink_new("split-out");
            outs[nout] = tsl_track(upipe_flow_alloc_sub(split, uprobe_use(tsl_probe), fd));
            uref_free(fd);
            if (!outs[nout]) vh_violation("tslab:alloc-failed", "cannot allocate ts_psi_split output");
            upipe_set_output(outs[nout], tsl_sink_upipe(sinks[nout]));
            expect[nout] = 0;
            nout++;
            VH_COUNT("split.outputs_added");
            h = vh_hash_bytes(h, f->f, (size_t)f->size);
        } else if (nout > 1 && vh_chance(r, 1, 8)) {
            int o = vh_below(r, nout);
            tsl_release(&outs[o]);
            for (int j = o; j < nout - 1; j++) { outs[j] = outs[j + 1]; sinks[j] = sinks[j + 1]; flt[j] = flt[j + 1]; expect[j] = expect[j + 1]; }
            nout--;
            VH_COUNT("split.outputs_removed");
        }
        struct psir_sec sec;
        psir_gen_section(r, &sec, vh_chance(r, 1, 4) ? 3 + (int)vh_below(r, 12) : gen_section_size(r));
        /* make matches likely: stamp one filter over the leading octets */
        if (vh_chance(r, 2, 3)) {
            const struct filt *f = &flt[vh_below(r, nout)];
            for (int i = 0; i < f->size && i < sec.size; i++) {
                if (i == 1 || i == 2) continue;        /* keep the length field */
                sec.data[i] = (uint8_t)((sec.data[i] & ~f->m[i]) | f->f[i]);
            }
            if (sec.data[0] == 0xff) sec.data[0] = 0xfe;
        }
        h = vh_hash_bytes(h, sec.data, sec.size < 16 ? (size_t)sec.size : 16);
        struct uref *u = tsl_uref_from_bytes_rnd(r, sec.data, (size_t)sec.size);
        upipe_input(split, u, NULL);
        int nmatch = 0;
        for (int o = 0; o < nout; o++) {
            bool want = ref_match(&flt[o], sec.data, sec.size);
            size_t got = sinks[o]->n - expect[o];
            if (want) {
                nmatch++;
                if (got != 1)
                    vh_violation(got ? "c16:split:duplicated" : "c16:split:missed",
                                 "section %d [%s] (%d octets) matches output %d (filter [%s] mask [%s]) but was delivered %zu times",
                                 s, tsl_hex(sec.data, (size_t)sec.size, 10), sec.size, o,
                                 tsl_hex(flt[o].f, (size_t)flt[o].size, 12), tsl_hex(flt[o].m, (size_t)flt[o].size, 12), got);
                struct tsl_rec *rec = &sinks[o]->recs[expect[o]];
                if (rec->size != (size_t)sec.size || memcmp(rec->data, sec.data, rec->size))
                    vh_violation("c16:split:modified", "section %d was modified on its way to output %d", s, o);
                expect[o]++;
                if (sec.size < 16 && flt[o].size > 3) VH_COUNT("split.match_on_short_section");
            } else {
                if (got)
                    vh_violation("c16:split:wrong-output",
                                 "section %d [%s] (%d octets) does not match output %d (filter [%s] mask [%s], %d octets) but was delivered",
                                 s, tsl_hex(sec.data, (size_t)sec.size, 10), sec.size, o,
                                 tsl_hex(flt[o].f, (size_t)flt[o].size, 12), tsl_hex(flt[o].m, (size_t)flt[o].size, 12), flt[o].size);
                if (sec.size < flt[o].size) VH_COUNT("split.section_shorter_than_filter");
            }
        }
        vh_count_dyn("split.section_matching_%s_outputs", nmatch == 0 ? "0" : nmatch == 1 ? "1" : "2+");
        VH_COUNT("split.sections_checked");
    }
    for (int o = 0; o < nout; o++) tsl_release(&outs[o]);
    tsl_release(&split);
    VH_COUNT("split.cases");
    vh_nontrivial(h);
    if (vh_want_sample())
        vh_sample("split: %d sections routed over up to %d filter/mask outputs, all deliveries as predicted by (octet & mask) == filter", nsec, nout);
}

/* ==================================================================== */
/* join                                                                 */

static void case_join(struct vh_rng *r)
{
    uint64_t h = 0x101;
    struct upipe_mgr *mgr = upipe_ts_psi_join_mgr_alloc();
    struct uref *fd = uref_block_flow_alloc_def(tsl_uref_mgr, "mpegtspsi.");
    struct upipe *join = tsl_track(upipe_flow_alloc(mgr, uprobe_use(tsl_probe), fd));
    upipe_mgr_release(mgr);
    if (!join) { uref_free(fd); vh_violation("tslab:alloc-failed", "cannot allocate ts_psi_join"); }
    struct tsl_sink *out = tsl_sink_new("joined");
    upipe_set_output(join, tsl_sink_upipe(out));
    int nin = 1 + vh_below(r, 4);
    struct upipe *in[4];
    for (int i = 0; i < nin; i++) {
        in[i] = tsl_track(upipe_void_alloc_sub(join, uprobe_use(tsl_probe)));
        if (!in[i]) { uref_free(fd); vh_violation("tslab:alloc-failed", "cannot allocate ts_psi_join input"); }
        if (vh_chance(r, 1, 2)) uref_block_flow_set_octetrate(fd, 1000 + vh_below(r, 100000));
        if (vh_chance(r, 1, 2)) uref_ts_flow_set_psi_section_interval(fd, 27000000 / (1 + vh_below(r, 50)));
        int err = upipe_set_flow_def(in[i], fd);
        if (!ubase_check(err)) { uref_free(fd); vh_violation("c16:join:flow-def-refused", "input %d refused block.mpegtspsi. (%d)", i, err); }
    }
    uref_free(fd);
    int nsec = 1 + vh_below(r, 30);
    size_t expect = 0;
    int per_input[4] = { 0, 0, 0, 0 };
    for (int s = 0; s < nsec; s++) {
        struct psir_sec sec;
        psir_gen_section(r, &sec, gen_section_size(r));
        int w = vh_below(r, nin);
        h = vh_hash_mix(vh_hash_bytes(h, sec.data, sec.size < 8 ? (size_t)sec.size : 8), (uint64_t)w);
        upipe_input(in[w], tsl_uref_from_bytes_rnd(r, sec.data, (size_t)sec.size), NULL);
        per_input[w]++;
        if (out->n < expect + 1)
            vh_violation("c16:join:section-lost", "section %d given to input %d of %d was not forwarded", s, w, nin);
        if (out->n > expect + 1)
            vh_violation("c16:join:section-duplicated", "section %d given to input %d was forwarded %zu times", s, w, out->n - expect);
        struct tsl_rec *rec = &out->recs[expect];
        if (rec->size != (size_t)sec.size || memcmp(rec->data, sec.data, rec->size))
            vh_violation("c16:join:section-modified", "section %d given to input %d was modified", s, w);
        expect++;
        VH_COUNT("join.sections_checked");
        /* an input may go away; the others keep working */
        if (nin > 1 && vh_chance(r, 1, 25)) {
            int o = vh_below(r, nin);
            tsl_release(&in[o]);
            for (int j = o; j < nin - 1; j++) in[j] = in[j + 1];
            nin--;
            VH_COUNT("join.input_released_midstream");
        }
    }
    for (int i = 0; i < 4; i++) if (per_input[i]) vh_count_dyn("join.sections_via_input_%d", i);
    vh_count_dyn("join.cases_with_%d_inputs", nin);
    for (int i = 0; i < nin; i++) tsl_release(&in[i]);
    tsl_release(&join);
    vh_nontrivial(h);
}

/* ==================================================================== */
/* corrupt                                                              */

/* in-order subsequence test: every output octet stems from the input */
static bool is_subsequence(const struct tsl_buf *in, struct tsl_sink *out)
{
    size_t pos = 0;
    for (size_t o = 0; o < out->n; o++)
        for (size_t i = 0; i < out->recs[o].size; i++) {
            const uint8_t *q = pos < in->n ? memchr(in->p + pos, out->recs[o].data[i], in->n - pos) : NULL;
            if (!q) return false;
            pos = (size_t)(q - in->p) + 1;
        }
    return true;
}

static void case_corrupt(struct vh_rng *r)
{
    uint64_t h = 0xbad;
    /* start from a well-formed payload sequence and damage it, or pure noise;
     * octets are drawn from the alphabet (value & 0x40) == 0 so that invented
     * octets are recognisable */
    int ns = 1 + vh_below(r, 6);
    struct psir_sec *secs = tsl_alloc(sizeof(*secs) * (size_t)ns);
    size_t total = 0;
    for (int i = 0; i < ns; i++) {
        psir_gen_section(r, &secs[i], gen_section_size(r));
        for (int k = 0; k < secs[i].size; k++) if (k != 1 && k != 2) secs[i].data[k] &= (uint8_t)~0x40;
        secs[i].data[1] &= (uint8_t)~0x40;
        if (secs[i].data[0] == 0xbf) secs[i].data[0] = 0;
        total += (size_t)secs[i].size;
    }
    int maxp = (int)(total / 20) + ns * 3 + 50;
    struct payload *pl = tsl_alloc(sizeof(*pl) * (size_t)maxp);
    int np = packetise(r, secs, ns, pl, maxp, true);
    bool chain = vh_chance(r, 1, 3);
    struct tsl_sink *out = tsl_sink_new("sections");
    struct upipe *merge = alloc_pipe(upipe_ts_psim_mgr_alloc(), "ts_psi_merge");
    set_flow_def(merge, "mpegtspsi.", "ts_psi_merge");
    upipe_set_output(merge, tsl_sink_upipe(out));
    struct upipe *dec = NULL;
    if (chain) {
        dec = alloc_pipe(upipe_ts_decaps_mgr_alloc(), "ts_decaps");
        set_flow_def(dec, "mpegts.mpegtspsi.", "ts_decaps");
        upipe_set_output(dec, merge);
    }
    struct tsl_buf *allin = tsl_buf_new();
    uint8_t cc = 0;
    vh_tr("corrupt %s payloads=%d", chain ? "via-ts_decaps" : "direct", np);
    for (int i = 0; i < np; i++) {
        uint8_t buf[400];
        size_t len = (size_t)pl[i].len;
        memcpy(buf, pl[i].b, len);
        bool pusi = pl[i].pusi, disc = false;
        uint32_t c = vh_below(r, 100);
        const char *what = "intact";
        if (c < 25) { for (int k = 1 + vh_below(r, 4); k > 0; k--) buf[vh_below(r, (uint32_t)len)] = (uint8_t)(vh_rand(r) & ~0x40); what = "octets-replaced"; }
        else if (c < 35) { len = vh_below(r, (uint32_t)len + 1); what = "truncated"; }
        else if (c < 45) { pusi = !pusi; what = "unit-start-flipped"; }
        else if (c < 55) { if (pusi) buf[0] = (uint8_t)(vh_rand(r) & ~0x40); what = "pointer_field-random"; }
        else if (c < 65) { for (size_t k = 0; k < len; k++) buf[k] = (uint8_t)(vh_rand(r) & ~0x40); what = "noise"; }
        else if (c < 70) { disc = true; what = "discontinuity"; }
        else if (c < 75) { len = 0; what = "empty"; }
        else if (c < 80) { if (pusi) buf[0] = (uint8_t)(len + vh_below(r, 60)); what = "pointer_field-beyond-payload"; }
        vh_count_dyn("corrupt.payload.%s", what);
        h = vh_hash_bytes(h, buf, len < 12 ? len : 12) + len + pusi;
        cc = (cc + 1) & 0xf;
        if (chain) {
            struct payload q = pl[i];
            if (len > 184) len = 184;
            memcpy(q.b, buf, len);
            q.len = (int)len; q.pusi = pusi;
            uint8_t pkt[TSR_SIZE];
            if (q.len == 0) { q.len = 1; q.b[0] = 0xff; }
            wrap_ts(pkt, &q, 100, cc);
            size_t plen = TSR_SIZE;
            if (vh_chance(r, 1, 10)) plen = vh_below(r, TSR_SIZE);
            tsl_buf_put(allin, pkt, plen);
            upipe_input(dec, tsl_uref_from_bytes_rnd(r, pkt, plen), NULL);
        } else {
            tsl_buf_put(allin, buf, len);
            struct uref *u = tsl_uref_from_bytes_rnd(r, buf, len);
            if (pusi) uref_block_set_start(u);
            if (disc) uref_flow_set_discontinuity(u);
            upipe_input(merge, u, NULL);
        }
    }
    if (dec) tsl_release(&dec);
    tsl_release(&merge);
    for (size_t o = 0; o < out->n; o++) {
        struct tsl_rec *rec = &out->recs[o];
        if (rec->size < 3 || (size_t)(((rec->data[1] & 0xf) << 8) | rec->data[2]) + 3 != rec->size)
            vh_violation("c16:merge:section-size", "output %zu has %zu octets but its section_length says %d + 3", o, rec->size,
                         rec->size >= 3 ? ((rec->data[1] & 0xf) << 8) | rec->data[2] : -1);
        VH_COUNT("corrupt.merge_outputs_checked");
    }
    if (!is_subsequence(allin, out))
        vh_violation("c16:merge:bytes-not-from-input", "outputs are not an in-order subsequence of the input octets");
    VH_COUNT("corrupt.merge_cases");

    /* arbitrary "sections" through split and join */
    struct upipe *split = alloc_pipe(upipe_ts_psi_split_mgr_alloc(), "ts_psi_split");
    set_flow_def(split, "mpegtspsi.", "ts_psi_split");
    struct filt f;
    f.size = 1 + vh_below(r, 16);
    for (int i = 0; i < f.size; i++) { f.m[i] = vh_chance(r, 1, 2) ? 0 : (uint8_t)vh_rand(r); f.f[i] = (uint8_t)(vh_rand(r) & f.m[i]); }
    struct uref *fd = uref_block_flow_alloc_def(tsl_uref_mgr, "mpegtspsi.");
    uref_ts_flow_set_psi_filter(fd, f.f, f.m, (size_t)f.size);
    struct tsl_sink *so = tsl_sink_new("split-out");
    struct upipe *sub = tsl_track(upipe_flow_alloc_sub(split, uprobe_use(tsl_probe), fd));
    if (sub) upipe_set_output(sub, tsl_sink_upipe(so));
    uref_ts_flow_delete_psi_filter(fd);
    struct upipe_mgr *jm = upipe_ts_psi_join_mgr_alloc();
    struct upipe *join = tsl_track(upipe_flow_alloc(jm, uprobe_use(tsl_probe), fd));
    upipe_mgr_release(jm);
    struct tsl_sink *jo = tsl_sink_new("joined");
    struct upipe *jin = NULL;
    if (join) {
        upipe_set_output(join, tsl_sink_upipe(jo));
        jin = tsl_track(upipe_void_alloc_sub(join, uprobe_use(tsl_probe)));
        if (jin) upipe_set_flow_def(jin, fd);
    }
    uref_free(fd);
    int n = 1 + vh_below(r, 8);
    for (int i = 0; i < n; i++) {
        size_t len = vh_chance(r, 1, 4) ? vh_below(r, 20) : vh_below(r, 5000);
        uint8_t *d = tsl_alloc(len);
        for (size_t k = 0; k < len; k++) d[k] = (uint8_t)vh_rand(r);
        for (int k = 0; k < f.size && (size_t)k < len && vh_chance(r, 1, 2); k++) d[k] = (uint8_t)((d[k] & ~f.m[k]) | f.f[k]);
        size_t sb = so->n, jb = jo->n;
        upipe_input(split, tsl_uref_from_bytes_rnd(r, d, len), NULL);
        if (jin) upipe_input(jin, tsl_uref_from_bytes_rnd(r, d, len), NULL);
        bool want = ref_match(&f, d, (int)len);
        if ((so->n - sb) != (want ? 1u : 0u))
            vh_violation(want ? "c16:split:missed" : "c16:split:wrong-output", "arbitrary buffer of %zu octets: delivered %zu times, reference says %d", len, so->n - sb, want);
        if (want && (so->recs[sb].size != len || memcmp(so->recs[sb].data, d, len)))
            vh_violation("c16:split:modified", "arbitrary buffer modified");
        if (jin && (jo->n != jb + 1 || jo->recs[jb].size != len || memcmp(jo->recs[jb].data, d, len)))
            vh_violation("c16:join:section-modified", "arbitrary buffer of %zu octets not forwarded unchanged", len);
        VH_COUNT("corrupt.arbitrary_buffers_routed");
    }
    tsl_release(&sub); tsl_release(&split); tsl_release(&jin); tsl_release(&join);
    vh_nontrivial(h);
}

static void run_case(struct vh_rng *r)
{
    tsl_case_begin(r);
    const char *m = vh_opts.mode;
    uint32_t c = vh_below(r, 100);
    if (!strcmp(m, "merge")) c = 0;
    else if (!strcmp(m, "split")) c = 50;
    else if (!strcmp(m, "join")) c = 70;
    else if (!strcmp(m, "corrupt")) c = 90;
    if (c < 50) case_merge(r);
    else if (c < 70) case_split(r);
    else if (c < 80) case_join(r);
    else case_corrupt(r);
    if (tsl_ev.fatal) VH_ADD("probe.fatal_events", tsl_ev.fatal);
}

static const struct vh_lab lab = { .name = "psi", .init = tsl_init, .run_case = run_case, .fini = tsl_fini };

int main(int argc, char **argv)
{
    return vh_main(argc, argv, &lab);
}
