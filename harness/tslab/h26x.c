/* C17 — H.264/H.265 NAL handling is lossless and independent of chunking.
 *
 * Modes (--mode):
 *   convert   upipe_h26xf_convert_frame between Annex B / 1,2,4-octet length
 *             prefixes / raw NAL units: payloads and order kept, NAL offsets
 *             point at NAL starts, A->B->A reproduces the original octets,
 *             a NAL larger than the prefix can express is refused
 *   golomb    upipe_h26xf_stream_ue / _se / fixed fields behind emulation
 *             prevention against a reference encoder
 *   h264, h265  framers: same elementary stream under several cuttings gives
 *             the same access units (octets, NAL offsets, flags, attributes);
 *             outputs minus documented insertions are in-order slices of the
 *             input; every generated access unit following valid parameter
 *             sets is output
 *   corrupt   arbitrary / damaged octets into the framers (AddressSanitizer)
 *   corrupt-frames  damaged frames in the other input encapsulations (length
 *             prefixes, raw NAL units with offset attributes)
 *   startcode3  like h264/h265 on clean streams whose very first octets are
 *             always a 3-octet start code (the framers used to look at the
 *             last buffered octet there; fixed, kept as a focused job)
 */
#include "tslab_common.h"

#include "upipe/ubuf_block.h"
#include "upipe/ubuf_block_stream.h"
#include "upipe/uref_pic.h"
#include "upipe-framers/upipe_h264_framer.h"
#include "upipe-framers/upipe_h265_framer.h"
#include "upipe-framers/upipe_h26x_common.h"
#include "upipe-framers/uref_h26x.h"
#include "upipe-framers/uref_h26x_flow.h"

#include "tests/upipe_h264_framer_test.h"   /* recorded H.264 stream of the repo */

#include <stdlib.h>
#include <string.h>
#include <inttypes.h>

/* ==================================================================== */
/* reference bit writer, exp-Golomb and emulation prevention encoder    */

struct bw { struct tsl_buf *b; uint32_t acc; int n; };

static void bw_init(struct bw *w) { w->b = tsl_buf_new(); w->acc = 0; w->n = 0; }

static void bw_bit(struct bw *w, int bit)
{
    w->acc = (w->acc << 1) | (bit & 1);
    if (++w->n == 8) { tsl_buf_put8(w->b, (uint8_t)w->acc); w->acc = 0; w->n = 0; }
}

static void bw_bits(struct bw *w, int n, uint64_t v)
{
    for (int i = n - 1; i >= 0; i--) bw_bit(w, (int)((v >> i) & 1));
}

static void bw_ue(struct bw *w, uint32_t v)
{
    uint64_t x = (uint64_t)v + 1;
    int len = 0;
    while ((x >> len) > 1) len++;
    for (int i = 0; i < len; i++) bw_bit(w, 0);
    bw_bits(w, len + 1, x);
}

static void bw_se(struct bw *w, int64_t s)
{
    bw_ue(w, s > 0 ? (uint32_t)(2 * s - 1) : (uint32_t)(-2 * s));
}

/* rbsp_trailing_bits */
static void bw_trailing(struct bw *w)
{
    bw_bit(w, 1);
    while (w->n) bw_bit(w, 0);
}

/* 7.4.1.1: insert emulation_prevention_three_byte */
static void ebsp_encode(struct tsl_buf *out, const uint8_t *rbsp, size_t n, int *nb_epb)
{
    int zeros = 0;
    for (size_t i = 0; i < n; i++) {
        if (zeros >= 2 && rbsp[i] <= 3) {
            tsl_buf_put8(out, 3);
            zeros = 0;
            if (nb_epb) (*nb_epb)++;
        }
        tsl_buf_put8(out, rbsp[i]);
        zeros = rbsp[i] == 0 ? zeros + 1 : 0;
    }
}

/* ==================================================================== */
/* golomb mode                                                          */

enum ftype { F_UE, F_SE, F_U };
struct field { enum ftype t; int n; uint32_t u; int64_t s; };

static uint32_t gen_ue_value(struct vh_rng *r)
{
    switch (vh_below(r, 8)) {
        case 0: return vh_below(r, 4);
        case 1: return vh_below(r, 300);
        case 2: { int k = 1 + vh_below(r, 32); uint64_t v = (UINT64_C(1) << k) - 2 + vh_below(r, 3); return v > 0xfffffffeu ? 0xfffffffeu : (uint32_t)v; }  /* code length boundaries */
        case 3: return 0xfffffffeu - vh_below(r, 3);
        case 4: return (uint32_t)vh_rand(r) & 0xffff;
        case 5: { uint32_t v = (uint32_t)vh_rand(r); return v == 0xffffffffu ? 0 : v; }
        case 6: return (1u << (8 * (1 + vh_below(r, 3)))) - 1;      /* v+1 = 2^8k: zero octets in the code */
        default: return (uint32_t)vh_rand(r) >> vh_below(r, 32);
    }
}

static void case_golomb(struct vh_rng *r)
{
    int nf = 1 + vh_below(r, 24);
    struct field f[24];
    struct bw w;
    bw_init(&w);
    uint64_t h = 0x601;
    int lead = vh_below(r, 3);     /* octets before the RBSP (NAL header) */
    for (int i = 0; i < nf; i++) {
        uint32_t c = vh_below(r, 10);
        if (c < 5) { f[i].t = F_UE; f[i].u = gen_ue_value(r); bw_ue(&w, f[i].u); }
        else if (c < 7) {
            f[i].t = F_SE;
            uint32_t k = gen_ue_value(r);
            f[i].s = (k & 1) ? ((int64_t)k + 1) / 2 : -((int64_t)k / 2);
            bw_se(&w, f[i].s);
        } else {
            f[i].t = F_U;
            f[i].n = 1 + vh_below(r, 24);
            f[i].u = vh_chance(r, 1, 3) ? 0 : (uint32_t)vh_rand(r) & ((1u << f[i].n) - 1);   /* zero fields attract 00 00 03 */
            bw_bits(&w, f[i].n, f[i].u);
        }
        h = vh_hash_mix(h, (uint64_t)f[i].t * 1000003 + f[i].u + (uint64_t)f[i].s + (uint64_t)f[i].n);
    }
    bw_trailing(&w);
    struct tsl_buf *nal = tsl_buf_new();
    for (int i = 0; i < lead; i++) tsl_buf_put8(nal, (uint8_t)(0x41 + i));
    int epb = 0;
    ebsp_encode(nal, w.b->p, w.b->n, &epb);
    if (epb) { VH_COUNT("golomb.streams_with_emulation_prevention"); VH_ADD("golomb.emulation_prevention_octets", epb); }
    /* every segmentation of the carrying block: random multi-segment uref */
    struct uref *u = tsl_track_uref(tsl_uref_from_bytes_rnd(r, nal->p, nal->n));
    if (vh_chance(r, 1, 4)) {
        uref_free(u); tsl_untrack_uref(u);
        u = tsl_track_uref(tsl_uref_from_bytes(nal->p, nal->n, nal->n < 16 ? (int)nal->n : 16));   /* many tiny segments */
        VH_COUNT("golomb.block_in_max_segments");
    }
    struct upipe_h26xf_stream fs;
    upipe_h26xf_stream_init(&fs);
    struct ubuf_block_stream *s = &fs.s;
    if (!ubase_check(ubuf_block_stream_init(s, u->ubuf, lead)))
        vh_violation("c17:golomb:stream-init", "ubuf_block_stream_init failed on a %zu-octet block at offset %d", nal->n, lead);
    vh_tr("golomb fields=%d rbsp=%zu epb=%d", nf, w.b->n, epb);
    for (int i = 0; i < nf; i++) {
        if (f[i].t == F_UE) {
            uint32_t v = upipe_h26xf_stream_ue(s);
            if (v != f[i].u) {
                ubuf_block_stream_clean(s);
                vh_violation("c17:golomb:ue", "field %d: ue(v) written %" PRIu32 ", read %" PRIu32 " (rbsp [%s])", i, f[i].u, v, tsl_hex(w.b->p, w.b->n, 24));
            }
            int len = 0; while (((uint64_t)f[i].u + 1) >> (len + 1)) len++;
            vh_count_dyn("golomb.ue_prefix_zeros.%s", len < 8 ? "0-7" : len < 16 ? "8-15" : len < 24 ? "16-23" : len < 31 ? "24-30" : "31");
        } else if (f[i].t == F_SE) {
            int32_t v = upipe_h26xf_stream_se(s);
            if ((int64_t)v != f[i].s) {
                ubuf_block_stream_clean(s);
                vh_violation("c17:golomb:se", "field %d: se(v) written %" PRId64 ", read %" PRId32, i, f[i].s, v);
            }
            VH_COUNT("golomb.se_checked");
        } else {
            upipe_h26xf_stream_fill_bits(s, f[i].n);
            uint32_t v = ubuf_block_stream_show_bits(s, f[i].n);
            ubuf_block_stream_skip_bits(s, f[i].n);
            if (v != f[i].u) {
                ubuf_block_stream_clean(s);
                vh_violation("c17:golomb:fixed-field", "field %d: u(%d) written %" PRIu32 ", read %" PRIu32, i, f[i].n, f[i].u, v);
            }
            VH_COUNT("golomb.fixed_fields_checked");
        }
    }
    /* (the overflow flag is not judged: ue() looks 8 bits ahead by design) */
    ubuf_block_stream_clean(s);
    VH_ADD("golomb.codes_checked", nf);
    vh_nontrivial(h);
    if (vh_want_sample())
        vh_sample("golomb: %d fields, %zu RBSP octets, %d emulation prevention octets, %s-segment block: all values read back", nf, w.b->n, epb, "multi");
}

/* ==================================================================== */
/* convert mode                                                         */

static const char *encaps_name(enum uref_h26x_encaps e)
{
    switch (e) {
        case UREF_H26X_ENCAPS_NALU: return "nalu";
        case UREF_H26X_ENCAPS_ANNEXB: return "annexb";
        case UREF_H26X_ENCAPS_LENGTH1: return "length1";
        case UREF_H26X_ENCAPS_LENGTH2: return "length2";
        case UREF_H26X_ENCAPS_LENGTH4: return "length4";
        default: return "?";
    }
}

struct cnal { const uint8_t *p; size_t n; int sc; };    /* payload, start code size for annexb */

static size_t prefix_size(enum uref_h26x_encaps e, int sc)
{
    switch (e) {
        case UREF_H26X_ENCAPS_ANNEXB: return (size_t)sc;
        case UREF_H26X_ENCAPS_LENGTH1: return 1;
        case UREF_H26X_ENCAPS_LENGTH2: return 2;
        case UREF_H26X_ENCAPS_LENGTH4: return 4;
        default: return 0;
    }
}

/* reference joiner; off[k] = start of NAL k, off[n] = total */
static void ref_join(struct tsl_buf *out, const struct cnal *nals, int n, enum uref_h26x_encaps e, bool sc4, size_t *off)
{
    for (int k = 0; k < n; k++) {
        off[k] = out->n;
        size_t len = nals[k].n;
        switch (e) {
            case UREF_H26X_ENCAPS_ANNEXB:
                if (sc4 || nals[k].sc == 4) tsl_buf_put8(out, 0);
                tsl_buf_put8(out, 0); tsl_buf_put8(out, 0); tsl_buf_put8(out, 1);
                break;
            case UREF_H26X_ENCAPS_LENGTH1: tsl_buf_put8(out, (uint8_t)len); break;
            case UREF_H26X_ENCAPS_LENGTH2: tsl_buf_put8(out, (uint8_t)(len >> 8)); tsl_buf_put8(out, (uint8_t)len); break;
            case UREF_H26X_ENCAPS_LENGTH4:
                tsl_buf_put8(out, (uint8_t)(len >> 24)); tsl_buf_put8(out, (uint8_t)(len >> 16));
                tsl_buf_put8(out, (uint8_t)(len >> 8)); tsl_buf_put8(out, (uint8_t)len);
                break;
            default: break;
        }
        tsl_buf_put(out, nals[k].p, len);
    }
    off[n] = out->n;
}

static struct uref *frame_uref(struct vh_rng *r, const struct tsl_buf *b, const size_t *off, int n, int vcl)
{
    struct uref *u = tsl_track_uref(tsl_uref_from_bytes_rnd(r, b->p, b->n));
    for (int k = 1; k < n; k++)
        uref_h26x_set_nal_offset(u, off[k], (uint64_t)(k - 1));
    if (vcl >= 0) uref_block_set_header_size(u, off[vcl]);
    return u;
}

static enum uref_h26x_encaps gen_encaps(struct vh_rng *r)
{
    static const enum uref_h26x_encaps e[] = { UREF_H26X_ENCAPS_NALU, UREF_H26X_ENCAPS_ANNEXB,
        UREF_H26X_ENCAPS_LENGTH1, UREF_H26X_ENCAPS_LENGTH2, UREF_H26X_ENCAPS_LENGTH4 };
    return e[vh_below(r, 5)];
}

static bool check_offsets(struct uref *u, const size_t *off, int n, char *msg, size_t msgsz)
{
    for (int k = 1; k < n; k++) {
        uint64_t v = UINT64_MAX;
        uref_h26x_get_nal_offset(u, &v, (uint64_t)(k - 1));
        if (v != off[k]) {
            snprintf(msg, msgsz, "NAL offset %d is %" PRIu64 " but NAL %d starts at %zu", k - 1, v, k, off[k]);
            return false;
        }
    }
    uint64_t v;
    if (ubase_check(uref_h26x_get_nal_offset(u, &v, (uint64_t)(n - 1 > 0 ? n - 1 : 0))) && n >= 1) {
        snprintf(msg, msgsz, "an extra NAL offset %d = %" PRIu64 " exists for a frame of %d NAL units", n - 1, v, n);
        return false;
    }
    return true;
}

static void case_convert(struct vh_rng *r)
{
    enum uref_h26x_encaps A = gen_encaps(r), B = gen_encaps(r);
    int n = 1 + vh_below(r, 8);
    struct cnal nals[8];
    bool all4 = true;
    uint64_t h = (uint64_t)A * 16 + B;
    bool huge = vh_chance(r, 1, 25);
    bool oversize = false;
    for (int k = 0; k < n; k++) {
        size_t len;
        uint32_t c = vh_below(r, 100);
        if (c < 10) len = 1;
        else if (c < 60) len = 1 + vh_below(r, 120);
        else if (c < 80) len = 250 + vh_below(r, 12);       /* around the 1-octet limit */
        else if (c < 95) len = 1 + vh_below(r, 2000);
        else len = huge ? 65530 + vh_below(r, 12) : 1 + vh_below(r, 300);   /* around the 2-octet limit */
        if (A == UREF_H26X_ENCAPS_LENGTH1 && len > 255) len = 1 + len % 255;
        if (A == UREF_H26X_ENCAPS_LENGTH2 && len > 65535) len = 65535;
        uint8_t *p = tsl_alloc(len);
        for (size_t i = 0; i < len; i++) p[i] = vh_chance(r, 1, 6) ? (uint8_t)vh_below(r, 2) : (uint8_t)vh_rand(r);
        /* a payload neither begins nor ends like a start code fragment */
        p[0] |= 0x20;
        p[len - 1] |= 0x80;
        nals[k].p = p; nals[k].n = len;
        nals[k].sc = vh_chance(r, 1, 2) ? 4 : 3;
        if (nals[k].sc == 3) all4 = false;
        if ((B == UREF_H26X_ENCAPS_LENGTH1 && len > 255) || (B == UREF_H26X_ENCAPS_LENGTH2 && len > 65535)) oversize = true;
        h = vh_hash_mix(h, len * 8 + (uint64_t)nals[k].sc);
    }
    int vcl = vh_chance(r, 1, 2) ? (int)vh_below(r, n) : -1;
    struct tsl_buf *a = tsl_buf_new(), *b = tsl_buf_new(), *back = tsl_buf_new();
    size_t offa[9], offb[9], offback[9];
    ref_join(a, nals, n, A, false, offa);
    ref_join(b, nals, n, B, true, offb);
    ref_join(back, nals, n, A, true, offback);
    vh_tr("convert %s->%s nals=%d size=%zu vcl=%d", encaps_name(A), encaps_name(B), n, a->n, vcl);
    struct ubuf *annexb = upipe_h26xf_alloc_annexb(tsl_ubuf_mgr);
    struct uref *u = frame_uref(r, a, offa, n, vcl);
    int err = upipe_h26xf_convert_frame(u, A, B, tsl_ubuf_mgr, annexb);
    char pair[48];
    snprintf(pair, sizeof(pair), "%s->%s", encaps_name(A), encaps_name(B));
    if (oversize && A != B) {
        ubuf_free(annexb);
        if (ubase_check(err))
            vh_violation("c17:convert:oversize-not-refused", "%s: a NAL unit larger than the length prefix can express was converted without error", pair);
        VH_COUNT("convert.oversize_refused");
        vh_nontrivial(h);
        return;
    }
    if (!ubase_check(err)) {
        ubuf_free(annexb);
        vh_violation("c17:convert:failed", "%s on a well-formed frame of %d NAL units returned %d", pair, n, err);
    }
    size_t sz = 0;
    uint8_t *got = tsl_ubuf_bytes(u->ubuf, &sz);
    const struct tsl_buf *want = A == B ? a : b;
    const size_t *woff = A == B ? offa : offb;
    if (!got || sz != want->n || memcmp(got, want->p, sz)) {
        ubuf_free(annexb);
        vh_violation("c17:convert:payload", "%s: converted frame (%zu octets) differs from the reference conversion (%zu octets)", pair, sz, want->n);
    }
    vh_count_dyn("convert.pair.%s", pair);
    char msg[160];
    bool offsets_ok = check_offsets(u, woff, n, msg, sizeof(msg));
    /* back conversion on a fresh frame with reference offsets, so that the
     * round-trip clause is decided independently of the offsets clause */
    struct uref *u2 = frame_uref(r, want, woff, n, vcl);
    err = upipe_h26xf_convert_frame(u2, B, A, tsl_ubuf_mgr, annexb);
    if (!ubase_check(err)) {
        ubuf_free(annexb);
        vh_violation("c17:convert:failed", "%s (back conversion) returned %d", pair, err);
    }
    uint8_t *got2 = tsl_ubuf_bytes(u2->ubuf, &sz);
    const struct tsl_buf *want2 = A == B ? a : back;
    if (!got2 || sz != want2->n || memcmp(got2, want2->p, sz)) {
        ubuf_free(annexb);
        vh_violation("c17:convert:roundtrip", "%s and back: %zu octets differ from the expected %zu octets", pair, sz, want2->n);
    }
    if (A != UREF_H26X_ENCAPS_ANNEXB || all4 || A == B) {
        if (sz != a->n || memcmp(got2, a->p, sz)) {
            ubuf_free(annexb);
            vh_violation("c17:convert:roundtrip", "%s and back does not reproduce the original octets", pair);
        }
        VH_COUNT("convert.roundtrip_identical");
    } else VH_COUNT("convert.roundtrip_3_to_4_octet_startcodes");
    if (!offsets_ok) {
        ubuf_free(annexb);
        vh_violation("c17:convert:nal-offsets", "%s (%d NAL units): %s", pair, n, msg);
    }
    if (A != B && n > 1) VH_COUNT("convert.offsets_checked_multi_nal");
    /* chained back conversion of the very same uref */
    err = upipe_h26xf_convert_frame(u, B, A, tsl_ubuf_mgr, annexb);
    ubuf_free(annexb);
    got = tsl_ubuf_bytes(u->ubuf, &sz);
    if (!ubase_check(err) || !got || sz != want2->n || memcmp(got, want2->p, sz))
        vh_violation("c17:convert:roundtrip", "%s and back on the same buffer: error %d or octets differ", pair, err);
    if (vcl >= 0) {
        uint64_t hs = 0;
        uref_block_get_header_size(u2, &hs);
        const size_t *o2 = A == B ? offa : offback;
        if (hs != o2[vcl]) vh_diag("c17:convert:header-size", "%s and back: header size %" PRIu64 ", first VCL NAL starts at %zu", pair, hs, o2[vcl]);
    }
    vh_nontrivial(h);
    if (vh_want_sample())
        vh_sample("convert: frame of %d NAL units (%zu octets) %s and back: payloads, order, offsets and round trip as the reference", n, a->n, pair);
}

/* ==================================================================== */
/* elementary stream generator                                          */

struct nal { uint8_t *p; size_t n; int sc; int type;
             size_t hdr_len; };  /* slices: octets up to the end of the slice header fields the framers parse (0 otherwise) */
struct gau { int first, count; bool key; };    /* NAL index range */

struct es {
    bool h265;
    struct nal nals[256];
    int nnal;
    struct gau aus[64];
    int nau;
    /* parameters */
    int log2_frame_num, poc_type, log2_poc, sps_id, pps_id;
    int level;      /* level_idc of the sequence parameter set: may change at an IDR (same id, other content) */
};

static void es_add(struct es *e, int type, const struct tsl_buf *hdr_rbsp_ebsp, int sc)
{
    if (e->nnal == 256) { fprintf(stderr, "tslab: too many NALs\n"); exit(2); }
    struct nal *n = &e->nals[e->nnal++];
    n->p = tsl_memdup(hdr_rbsp_ebsp->p, hdr_rbsp_ebsp->n);
    n->n = hdr_rbsp_ebsp->n;
    n->sc = sc;
    n->type = type;
    n->hdr_len = 0;
}

/* NAL = header octets + EBSP(rbsp) */
static void make_nal(struct es *e, int type, const uint8_t *hdr, int hdrlen, struct bw *w, int sc)
{
    struct tsl_buf *out = tsl_buf_new();
    tsl_buf_put(out, hdr, (size_t)hdrlen);
    ebsp_encode(out, w->b->p, w->b->n, NULL);
    es_add(e, type, out, sc);
}

/* records, for the slice NAL just added, how many of its octets carry the
 * slice header fields (EBSP of a prefix is a prefix of the EBSP) */
static void slice_hdr_len(struct es *e, int hdrlen, struct bw *w, size_t hdr_octets)
{
    struct tsl_buf *t = tsl_buf_new();
    ebsp_encode(t, w->b->p, hdr_octets < w->b->n ? hdr_octets : w->b->n, NULL);
    e->nals[e->nnal - 1].hdr_len = (size_t)hdrlen + t->n;
}

static int gen_sc(struct vh_rng *r) { return vh_chance(r, 1, 3) ? 3 : 4; }

static void slice_data(struct vh_rng *r, struct bw *w)
{
    int n = vh_chance(r, 1, 5) ? (int)vh_below(r, 4) : (int)vh_below(r, 300);
    int style = vh_below(r, 3);
    for (int i = 0; i < n; i++)
        bw_bits(w, 8, style == 0 ? vh_rand(r) & 0xff : style == 1 ? vh_below(r, 3) : (vh_chance(r, 1, 4) ? 0 : vh_rand(r) & 0xff));
    bw_trailing(w);
}

/* ---- H.264 ---- */
static void h264_sps(struct vh_rng *r, struct es *e, int sc)
{
    struct bw w; bw_init(&w);
    bw_bits(&w, 8, 66); bw_bits(&w, 8, 0); bw_bits(&w, 8, (uint64_t)e->level);
    bw_ue(&w, (uint32_t)e->sps_id);
    bw_ue(&w, (uint32_t)(e->log2_frame_num - 4));
    bw_ue(&w, (uint32_t)e->poc_type);
    if (e->poc_type == 0) bw_ue(&w, (uint32_t)(e->log2_poc - 4));
    bw_ue(&w, 1);           /* max_num_ref_frames */
    bw_bit(&w, 0);          /* gaps_in_frame_num_value_allowed_flag */
    bw_ue(&w, 19); bw_ue(&w, 14);
    bw_bit(&w, 1);          /* frame_mbs_only_flag */
    bw_bit(&w, 1);          /* direct_8x8_inference_flag */
    bw_bit(&w, 0);          /* frame_cropping_flag */
    bw_bit(&w, 0);          /* vui_parameters_present_flag */
    bw_trailing(&w);
    uint8_t hdr = 0x67;
    make_nal(e, 7, &hdr, 1, &w, sc);
}

static void h264_pps(struct vh_rng *r, struct es *e, int sc)
{
    struct bw w; bw_init(&w);
    bw_ue(&w, (uint32_t)e->pps_id); bw_ue(&w, (uint32_t)e->sps_id);
    bw_bit(&w, 0);          /* entropy_coding_mode_flag */
    bw_bit(&w, 0);          /* bottom_field_pic_order_in_frame_present_flag */
    bw_ue(&w, 0);           /* num_slice_groups_minus1 */
    bw_ue(&w, 0); bw_ue(&w, 0);
    bw_bit(&w, 0); bw_bits(&w, 2, 0);
    bw_se(&w, 0); bw_se(&w, 0); bw_se(&w, 0);
    bw_bit(&w, 1); bw_bit(&w, 0); bw_bit(&w, 0);
    bw_trailing(&w);
    uint8_t hdr = 0x68;
    make_nal(e, 8, &hdr, 1, &w, sc);
}

static void h264_slice(struct vh_rng *r, struct es *e, bool idr, int ref_idc, int first_mb, int slice_type,
                       uint32_t frame_num, uint32_t idr_pic_id, uint32_t poc, int sc)
{
    struct bw w; bw_init(&w);
    bw_ue(&w, (uint32_t)first_mb);
    bw_ue(&w, (uint32_t)slice_type);
    bw_ue(&w, (uint32_t)e->pps_id);
    bw_bits(&w, e->log2_frame_num, frame_num);
    if (idr) bw_ue(&w, idr_pic_id);
    if (e->poc_type == 0) bw_bits(&w, e->log2_poc, poc);
    size_t hdr_octets = w.b->n + (w.n ? 1 : 0);
    slice_data(r, &w);
    uint8_t hdr = (uint8_t)((ref_idc << 5) | (idr ? 5 : 1));
    make_nal(e, idr ? 5 : 1, &hdr, 1, &w, sc);
    slice_hdr_len(e, 1, &w, hdr_octets);
}

static void h264_misc(struct vh_rng *r, struct es *e, int type, int sc)
{
    struct bw w; bw_init(&w);
    uint8_t hdr = (uint8_t)type;
    if (type == 9) { bw_bits(&w, 3, vh_below(r, 8)); bw_trailing(&w); }
    else if (type == 6) {   /* SEI user_data_unregistered */
        int n = 16 + vh_below(r, 20);
        bw_bits(&w, 8, 5); bw_bits(&w, 8, (uint64_t)n);
        for (int i = 0; i < n; i++) bw_bits(&w, 8, vh_rand(r) & 0xff);
        bw_trailing(&w);
    } else if (type == 12) { for (int i = vh_below(r, 10); i > 0; i--) bw_bits(&w, 8, 0xff); bw_trailing(&w); }
    make_nal(e, type, &hdr, 1, &w, sc);
}

/* ---- H.265 ---- */
static void h265_hdr(uint8_t *h, int type) { h[0] = (uint8_t)(type << 1); h[1] = 1; }

static void h265_ptl(struct bw *w, int level)
{
    bw_bits(w, 2, 0); bw_bit(w, 0); bw_bits(w, 5, 1);
    bw_bits(w, 32, 0x60000000);
    bw_bit(w, 1); bw_bit(w, 0); bw_bit(w, 0); bw_bit(w, 1);
    bw_bits(w, 32, 0); bw_bits(w, 12, 0);      /* 44 reserved bits */
    bw_bits(w, 8, (uint64_t)level);
}

static void h265_vps(struct vh_rng *r, struct es *e, int sc)
{
    struct bw w; bw_init(&w);
    bw_bits(&w, 4, 0); bw_bit(&w, 1); bw_bit(&w, 1); bw_bits(&w, 6, 0); bw_bits(&w, 3, 0); bw_bit(&w, 1);
    bw_bits(&w, 16, 0xffff);
    h265_ptl(&w, 93);
    bw_bit(&w, 1); bw_ue(&w, 1); bw_ue(&w, 0); bw_ue(&w, 0);
    bw_bits(&w, 6, 0); bw_ue(&w, 0);
    bw_bit(&w, 0); bw_bit(&w, 0);
    bw_trailing(&w);
    uint8_t hdr[2]; h265_hdr(hdr, 32);
    make_nal(e, 32, hdr, 2, &w, sc);
}

static void h265_sps(struct vh_rng *r, struct es *e, int sc)
{
    struct bw w; bw_init(&w);
    bw_bits(&w, 4, 0); bw_bits(&w, 3, 0); bw_bit(&w, 1);
    h265_ptl(&w, e->level);
    bw_ue(&w, (uint32_t)e->sps_id);
    bw_ue(&w, 1);                       /* chroma_format_idc */
    bw_ue(&w, 320); bw_ue(&w, 240);
    bw_bit(&w, 0);                      /* conformance_window_flag */
    bw_ue(&w, 0); bw_ue(&w, 0);
    bw_ue(&w, (uint32_t)(e->log2_poc - 4));
    bw_bit(&w, 1);                      /* sps_sub_layer_ordering_info_present_flag */
    bw_ue(&w, 1); bw_ue(&w, 0); bw_ue(&w, 0);
    bw_ue(&w, 0); bw_ue(&w, 1); bw_ue(&w, 0); bw_ue(&w, 1); bw_ue(&w, 0); bw_ue(&w, 0);
    bw_bit(&w, 0);                      /* scaling_list_enabled_flag */
    bw_bit(&w, 0); bw_bit(&w, 0);       /* amp, sao */
    bw_bit(&w, 0);                      /* pcm_enabled_flag */
    bw_ue(&w, 1);                       /* num_short_term_ref_pic_sets */
    bw_ue(&w, 0); bw_ue(&w, 0);         /*   set 0: no pictures */
    bw_bit(&w, 0);                      /* long_term_ref_pics_present_flag */
    bw_bit(&w, 0); bw_bit(&w, 0);       /* temporal_mvp, strong_intra_smoothing */
    bw_bit(&w, 0);                      /* vui_parameters_present_flag */
    bw_bit(&w, 0);                      /* sps_extension_present_flag */
    bw_trailing(&w);
    uint8_t hdr[2]; h265_hdr(hdr, 33);
    make_nal(e, 33, hdr, 2, &w, sc);
}

static void h265_pps(struct vh_rng *r, struct es *e, int sc)
{
    struct bw w; bw_init(&w);
    bw_ue(&w, (uint32_t)e->pps_id); bw_ue(&w, (uint32_t)e->sps_id);
    bw_bit(&w, 0); bw_bit(&w, 0); bw_bits(&w, 3, 0);
    bw_bit(&w, 0); bw_bit(&w, 0);
    bw_ue(&w, 0); bw_ue(&w, 0); bw_se(&w, 0);
    bw_bit(&w, 0); bw_bit(&w, 0); bw_bit(&w, 0);
    bw_se(&w, 0); bw_se(&w, 0);
    bw_bit(&w, 0); bw_bit(&w, 0); bw_bit(&w, 0); bw_bit(&w, 0);
    bw_bit(&w, 0); bw_bit(&w, 0); bw_bit(&w, 1);
    bw_bit(&w, 0); bw_bit(&w, 0); bw_bit(&w, 0);
    bw_ue(&w, 0); bw_bit(&w, 0); bw_bit(&w, 0);
    bw_trailing(&w);
    uint8_t hdr[2]; h265_hdr(hdr, 34);
    make_nal(e, 34, hdr, 2, &w, sc);
}

static void h265_slice(struct vh_rng *r, struct es *e, int type, bool first, int slice_type, int sc)
{
    struct bw w; bw_init(&w);
    bw_bit(&w, first);
    if (type >= 16 && type <= 23) bw_bit(&w, 0);
    bw_ue(&w, (uint32_t)e->pps_id);
    if (first) bw_ue(&w, (uint32_t)slice_type);
    else bw_bits(&w, 9, 1 + vh_below(r, 200));      /* slice_segment_address */
    size_t hdr_octets = w.b->n + (w.n ? 1 : 0);
    slice_data(r, &w);
    uint8_t hdr[2]; h265_hdr(hdr, type);
    make_nal(e, type, hdr, 2, &w, sc);
    slice_hdr_len(e, 2, &w, hdr_octets);
}

static void h265_misc(struct vh_rng *r, struct es *e, int type, int sc)
{
    struct bw w; bw_init(&w);
    uint8_t hdr[2]; h265_hdr(hdr, type);
    if (type == 35) { bw_bits(&w, 3, vh_below(r, 3)); bw_trailing(&w); }
    else {      /* SEI: user_data_unregistered */
        int n = 16 + vh_below(r, 20);
        bw_bits(&w, 8, 5); bw_bits(&w, 8, (uint64_t)n);
        for (int i = 0; i < n; i++) bw_bits(&w, 8, vh_rand(r) & 0xff);
        bw_trailing(&w);
    }
    make_nal(e, type, hdr, 2, &w, sc);
}

/* a clean stream: every AU is recognisable by the standard's first-VCL /
 * parameter set / delimiter rules */
static struct es *gen_es(struct vh_rng *r, bool h265, int nau, bool sc3_start)
{
    struct es *e = tsl_alloc(sizeof(*e));
    e->h265 = h265;
    e->log2_frame_num = 4 + vh_below(r, 6);
    e->poc_type = h265 ? 0 : (vh_chance(r, 1, 2) ? 0 : 2);
    e->log2_poc = 4 + vh_below(r, 6);
    e->sps_id = vh_below(r, 4);
    e->pps_id = vh_below(r, 6);
    e->level = h265 ? 93 : 30;
    bool aud = vh_chance(r, 1, 2);
    bool sei = vh_chance(r, 1, 2);
    uint32_t frame_num = 0, idr_id = vh_below(r, 10), poc = 0;
    /* the very first start code is 3 or 4 octets long (mode "startcode3":
     * always 3) */
    int first_sc = sc3_start ? 3 : gen_sc(r);
    for (int a = 0; a < nau; a++) {
        struct gau *g = &e->aus[e->nau++];
        g->first = e->nnal;
        bool idr = a == 0 || vh_chance(r, 1, 5);
        bool ps = a == 0 || (idr && vh_chance(r, 1, 2)) || vh_chance(r, 1, 10);
        int nslices = 1 + (vh_chance(r, 1, 3) ? vh_below(r, 3) : 0);
        int sc0 = a == 0 ? first_sc : gen_sc(r);
        /* a new coded video sequence may come with another sequence parameter
         * set under the same id, the picture parameter set being re-sent as is */
        if (a > 0 && idr && ps && vh_chance(r, 1, 3)) {
            static const int l264[] = { 21, 30, 31, 40 }, l265[] = { 63, 90, 93, 120 };
            int nl; do nl = h265 ? l265[vh_below(r, 4)] : l264[vh_below(r, 4)]; while (nl == e->level);
            e->level = nl;
            VH_COUNT("es.sps_changed_under_the_same_id");
        }
        if (!h265) {
            if (idr) { frame_num = 0; idr_id++; poc = 0; } else { frame_num = (frame_num + 1) & ((1u << e->log2_frame_num) - 1); poc = (poc + 2) & ((1u << e->log2_poc) - 1); }
            int ref = idr ? 3 : (vh_chance(r, 1, 4) ? 0 : 2);
            if (ref == 0 && !idr) { /* non-reference pictures do not advance frame_num of the next picture, keep it simple: they still differ by POC or frame_num */ }
            if (aud) { h264_misc(r, e, 9, sc0); sc0 = gen_sc(r); }
            if (ps) { h264_sps(r, e, sc0); h264_pps(r, e, gen_sc(r)); sc0 = gen_sc(r); }
            if (sei && vh_chance(r, 2, 3)) { h264_misc(r, e, 6, sc0); sc0 = gen_sc(r); }
            int st = idr ? (vh_chance(r, 1, 2) ? 7 : 2) : (int)vh_below(r, 10);
            if (!idr && (st % 5) > 2) st = 0;       /* no SP / SI */
            g->key = (st % 5) == 2;
            for (int s = 0; s < nslices; s++) {
                h264_slice(r, e, idr, ref, s * 40, st, frame_num, idr_id, poc, s == 0 ? sc0 : gen_sc(r));
            }
            if (vh_chance(r, 1, 12)) h264_misc(r, e, 12, gen_sc(r));   /* filler data belongs to the AU */
        } else {
            if (aud) { h265_misc(r, e, 35, sc0); sc0 = gen_sc(r); }
            if (ps) { h265_vps(r, e, sc0); h265_sps(r, e, gen_sc(r)); h265_pps(r, e, gen_sc(r)); sc0 = gen_sc(r); }
            if (sei && vh_chance(r, 2, 3)) { h265_misc(r, e, 39, sc0); sc0 = gen_sc(r); }
            int type = idr ? (vh_chance(r, 1, 2) ? 19 : 20) : (vh_chance(r, 1, 6) ? 21 : (int)vh_below(r, 2));
            int st = idr || type == 21 ? 2 : (int)vh_below(r, 3);
            g->key = st == 2;
            for (int s = 0; s < nslices; s++)
                h265_slice(r, e, type, s == 0, st, s == 0 ? sc0 : gen_sc(r));
            if (vh_chance(r, 1, 12)) h265_misc(r, e, 40, gen_sc(r));   /* suffix SEI belongs to the AU */
        }
        g->count = e->nnal - g->first;
    }
    return e;
}

static void es_bytes(const struct es *e, struct tsl_buf *out, size_t *au_off)
{
    int a = 0;
    for (int k = 0; k < e->nnal; k++) {
        while (a < e->nau && e->aus[a].first == k) au_off[a++] = out->n;
        if (e->nals[k].sc == 4) tsl_buf_put8(out, 0);
        tsl_buf_put8(out, 0); tsl_buf_put8(out, 0); tsl_buf_put8(out, 1);
        tsl_buf_put(out, e->nals[k].p, e->nals[k].n);
    }
    au_off[e->nau] = out->n;
}

/* ==================================================================== */
/* running a framer                                                     */

static enum uref_h26x_encaps want_encaps;
static void ff_hook(struct tsl_sink *s, struct uref *ff)
{
    uref_flow_delete_global(ff);
    uref_h26x_flow_set_encaps(ff, want_encaps);
}

#define MAX_PIECES 8192

static struct tsl_sink *run_framer(struct vh_rng *r, bool h265, const uint8_t *s, size_t n,
                                   enum tsl_cut_style style, enum uref_h26x_encaps out_encaps, bool set_disc)
{
    static size_t sizes[MAX_PIECES];
    struct tsl_sink *sink = tsl_sink_new("au");
    sink->flow_format_hook = ff_hook;
    want_encaps = out_encaps;
    struct upipe_mgr *mgr = h265 ? upipe_h265f_mgr_alloc() : upipe_h264f_mgr_alloc();
    struct upipe *p = tsl_track(upipe_void_alloc(mgr, uprobe_use(tsl_probe)));
    upipe_mgr_release(mgr);
    if (!p) vh_violation("tslab:alloc-failed", "cannot allocate framer");
    upipe_set_output(p, tsl_sink_upipe(sink));
    struct uref *fd = uref_block_flow_alloc_def(tsl_uref_mgr, h265 ? "hevc.pic." : "h264.pic.");
    uref_h26x_flow_set_encaps(fd, UREF_H26X_ENCAPS_ANNEXB);
    int err = upipe_set_flow_def(p, fd);
    uref_free(fd);
    if (!ubase_check(err)) vh_violation("tslab:flow-def-refused", "framer refused its flow definition (%d)", err);
    int np = tsl_cut(r, style, n, 64, sizes, MAX_PIECES);
    size_t off = 0;
    const char *gname = h265 ? "upipe_h265_framer" : "upipe_h264_framer";
    for (int i = 0; i < np; i++) {
        struct uref *u = tsl_uref_from_bytes_rnd(r, s + off, sizes[i]);
        bool dsc = set_disc && vh_chance(r, 1, 15);
        if (dsc) uref_flow_set_discontinuity(u);
        if (vh_opts.verbose >= 2) fprintf(stderr, "  feed [%zu,%zu)%s\n", off, off + sizes[i], dsc ? " DISC" : "");
        off += sizes[i];
        tsl_guard_begin(gname, 64 + 2 * (uint64_t)n);
        upipe_input(p, u, NULL);
        tsl_guard_end();
    }
    tsl_guard_begin(h265 ? "upipe_h265_framer:release" : "upipe_h264_framer:release", 64 + 2 * (uint64_t)n);
    tsl_release(&p);
    tsl_guard_end();
    return sink;
}

/* NAL starts of an Annex B buffer by the reference splitter */
static int ref_split_annexb(const uint8_t *p, size_t n, size_t *starts, int max)
{
    int k = 0;
    for (size_t i = 0; i + 3 <= n; i++)
        if (p[i] == 0 && p[i + 1] == 0 && p[i + 2] == 1) {
            size_t st = i;
            if (i > 0 && p[i - 1] == 0) st = i - 1;
            if (k < max) starts[k] = st;
            k++;
            i += 2;
        }
    return k;
}

static int nal_type_at(bool h265, const uint8_t *p, size_t n, size_t st)
{
    size_t h = st;
    while (h < n && p[h] == 0) h++;
    h++;    /* skip 0x01 */
    if (h >= n) return -1;
    return h265 ? (p[h] >> 1) & 0x3f : p[h] & 0x1f;
}

static bool is_insertable(bool h265, int type)
{
    if (h265) return type == 35 || type == 32 || type == 33 || type == 34;
    return type == 9 || type == 7 || type == 8;
}

/* containment: output minus documented leading insertions is a slice of the
 * input at or after pos; returns the number of stripped NAL units or -1 */
static int locate_output(bool h265, const struct tsl_rec *o, const uint8_t *in, size_t n, size_t *pos, size_t *where, size_t *strip_bytes)
{
    size_t starts[64];
    int ns = ref_split_annexb(o->data, o->size, starts, 64);
    int best = -1;
    size_t best_end = 0;
    /* all candidates are tried and the one ending first in the input wins
     * (it keeps the most room for the following units): with tiny NAL units
     * the same octets may occur several times */
    for (int strip = 0; strip <= 4 && strip <= ns; strip++) {
        size_t from = strip == 0 ? 0 : strip < ns ? starts[strip] : o->size;
        if (strip > 0) {
            int t = nal_type_at(h265, o->data, o->size, starts[strip - 1]);
            if (!is_insertable(h265, t)) break;
            if (strip < ns && from == 0) break;
        }
        /* zeros around the boundary may belong to either side */
        size_t lo = from, hi = from;
        while (lo > 0 && o->data[lo - 1] == 0 && from - lo < 4) lo--;
        while (hi < o->size && o->data[hi] == 0 && hi - from < 2) hi++;
        for (size_t f = lo; f <= hi; f++) {
            size_t len = o->size - f;
            size_t w, e;
            if (len == 0) { w = *pos; e = *pos; }
            else {
                const uint8_t *q = *pos <= n ? memmem(in + *pos, n - *pos, o->data + f, len) : NULL;
                if (!q) continue;
                w = (size_t)(q - in);
                e = w + len;
            }
            if (best < 0 || e < best_end) {
                best = strip; best_end = e;
                *where = w; *strip_bytes = f;
            }
        }
    }
    if (best >= 0) *pos = best_end;
    return best;
}

/* lenient containment for damaged streams: each unit ends with an in-order
 * slice (>= 3 octets) of the input; what precedes it (delimiter, repeated
 * parameter sets: copies of earlier input, which may contain anything) is not
 * judged.  Among the matching suffixes the one ending first is taken: it keeps
 * the most room for the following units.  Returns the index of the first unit
 * without such a suffix, or -1. */
static long contain_lenient(struct tsl_sink *s, const uint8_t *in, size_t n, size_t *pos_p)
{
    size_t pos = 0;
    for (size_t i = 0; i < s->n; i++) {
        struct tsl_rec *o = &s->recs[i];
        bool found = false;
        size_t best_end = 0;
        for (size_t from = 0; from + 3 <= o->size; from++) {
            const uint8_t *q = pos <= n ? memmem(in + pos, n - pos, o->data + from, o->size - from) : NULL;
            if (!q) continue;
            size_t e = (size_t)(q - in) + (o->size - from);
            if (!found || e < best_end) best_end = e;
            found = true;
        }
        if (!found) { *pos_p = pos; return (long)i; }
        pos = best_end;
    }
    return -1;
}

/* Number of leading NAL offset attributes that are the starts of NAL units
 * 1, 2, ... of the unit according to the reference Annex B splitter; *ok_p
 * tells whether all real NAL starts are covered.  What follows that prefix
 * (except one terminator equal to the unit size, harmless for the iterator)
 * does not denote NAL units of this access unit. */
static int real_offsets(const struct tsl_rec *o, bool *ok_p, int *nreal_p)
{
    size_t starts[TSL_MAX_NAL + 2];
    int ns = ref_split_annexb(o->data, o->size, starts, TSL_MAX_NAL + 2);
    if (ns > TSL_MAX_NAL + 2) ns = TSL_MAX_NAL + 2;
    int want = ns > 0 ? ns - 1 : 0;     /* offsets expected: starts[1..] */
    int k = 0;
    while (k < want && k < o->nb_nal) {
        /* zero octets between two NAL units may be counted as trailing zeros
         * of the first or as leading zero / zero_byte of the second (B.1):
         * any position inside the zero run before 00 00 01 is a NAL start */
        size_t sc = starts[k + 1];                 /* reference: at most one zero before 00 00 01 */
        while (!(o->data[sc] == 0 && o->data[sc + 1] == 0 && o->data[sc + 2] == 1)) sc++;
        size_t lo = sc;
        while (lo > 0 && o->data[lo - 1] == 0) lo--;
        if (o->nal[k] < lo || o->nal[k] > sc) break;
        k++;
    }
    if (ok_p) *ok_p = k == want || k == TSL_MAX_NAL;
    if (nreal_p) *nreal_p = want;
    return k;
}

/* true if something else than the optional terminator follows the real offsets */
static bool has_stale_offsets(const struct tsl_rec *o, int nreal)
{
    int k = nreal;
    if (k < o->nb_nal && o->nal[k] == o->size) k++;
    return k < o->nb_nal;
}

static void offsets_str(const struct tsl_rec *o, char *buf, size_t n)
{
    buf[0] = 0;
    for (int k = 0; k < o->nb_nal && k < 14; k++)
        snprintf(buf + strlen(buf), n - strlen(buf), "%" PRIu64 " ", o->nal[k]);
}

/* returns false when the unit sequences differ in octets (case abandoned by
 * the caller); the other categories are reported once each and do not stop
 * the comparison */
static unsigned cmp_reported;   /* categories already reported in this case */

static void compare_sinks(const char *codec, const char *kprefix, struct tsl_sink *a, const char *na, struct tsl_sink *b, const char *nb, size_t n)
{
    char key[80];
#define KEY(x) (snprintf(key, sizeof(key), "c17:%s:%scutting-dependent:%s", codec, kprefix, x), key)
    if (a->n != b->n)
        vh_violation(KEY("octets"), "%zu access units with cutting '%s' but %zu with cutting '%s' (stream of %zu octets)", a->n, na, b->n, nb, n);
    bool r_flags = cmp_reported & 1, r_off = cmp_reported & 2, r_stale = cmp_reported & 4, r_hs = cmp_reported & 8, r_attr = cmp_reported & 16;
    if (!strcmp(kprefix, "startcode3:"))
        r_flags = r_off = r_stale = r_hs = r_attr = true;   /* judged by the modes h264 / h265 */
    for (size_t i = 0; i < a->n; i++) {
        struct tsl_rec *x = &a->recs[i], *y = &b->recs[i];
        if (x->size != y->size || memcmp(x->data, y->data, x->size))
        {
            char ta[64], tb[64], ha[64], hb[64];
            snprintf(ta, sizeof(ta), "%s", tsl_hex(x->data + (x->size > 10 ? x->size - 10 : 0), x->size > 10 ? 10 : x->size, 10));
            snprintf(tb, sizeof(tb), "%s", tsl_hex(y->data + (y->size > 10 ? y->size - 10 : 0), y->size > 10 ? 10 : y->size, 10));
            snprintf(ha, sizeof(ha), "%s", tsl_hex(x->data, x->size, 12));
            snprintf(hb, sizeof(hb), "%s", tsl_hex(y->data, y->size, 12));
            vh_violation(KEY("octets"), "access unit %zu of %zu differs in octets between cuttings '%s' (%zu octets [%s ... %s]) and '%s' (%zu octets [%s ... %s])", i, a->n, na, x->size, ha, ta, nb, y->size, hb, tb);
        }
        if (x->flags != y->flags && !r_flags) {
            r_flags = true;
            uint32_t d = x->flags ^ y->flags;
            const char *w = d & TSL_F_RANDOM ? "flag-random" : d & TSL_F_ERROR ? "flag-error" : d & TSL_F_KEY ? "flag-key" :
                            d & TSL_F_DISC ? "flag-discontinuity" : "flags";
            vh_violation_noabort(KEY(w), "access unit %zu of %zu: flags 0x%x with cutting '%s', 0x%x with '%s' (1 start 2 end 4 discontinuity 8 random 16 error 32 key)",
                                 i, a->n, x->flags, na, y->flags, nb);
        }
        int vx = real_offsets(x, NULL, NULL), vy = real_offsets(y, NULL, NULL);
        char la[240], lb[240];
        if ((vx != vy || memcmp(x->nal, y->nal, sizeof(uint64_t) * (size_t)vx)) && !r_off) {
            r_off = true;
            offsets_str(x, la, sizeof(la)); offsets_str(y, lb, sizeof(lb));
            vh_violation_noabort(KEY("nal-offsets"), "access unit %zu (%zu octets): NAL offsets [%s] with cutting '%s' but [%s] with '%s'", i, x->size, la, na, lb, nb);
        } else if ((x->nb_nal != y->nb_nal || memcmp(x->nal, y->nal, sizeof(uint64_t) * (size_t)x->nb_nal)) && !r_stale && !r_off) {
            r_stale = true;
            offsets_str(x, la, sizeof(la)); offsets_str(y, lb, sizeof(lb));
            vh_violation_noabort(KEY("stale-nal-offsets"),
                                 "access unit %zu (%zu octets, %d NAL units): the offset attributes are [%s] with cutting '%s' and [%s] with '%s': "
                                 "beyond the real NAL starts, offsets of an earlier access unit carved from the same input buffer were left behind",
                                 i, x->size, vx + 1, la, na, lb, nb);
        }
        if (x->header_size != y->header_size && !r_hs) {
            r_hs = true;
            vh_violation_noabort(KEY("header-size"), "access unit %zu: header size %" PRIu64 " with cutting '%s', %" PRIu64 " with '%s'", i, x->header_size, na, y->header_size, nb);
        }
        if (x->attr_hash != y->attr_hash && !r_attr) {
            r_attr = true;
            vh_violation_noabort(KEY("attributes"), "access unit %zu: other attributes differ between cuttings '%s' and '%s'", i, na, nb);
            if (x->attr_txt && y->attr_txt) fprintf(stderr, "  attrs %s: %s\n  attrs %s: %s\n", na, x->attr_txt, nb, y->attr_txt);
        }
    }
    cmp_reported = (unsigned)(r_flags | r_off << 1 | r_stale << 2 | r_hs << 3 | r_attr << 4);
#undef KEY
}

static void case_framer(struct vh_rng *r, bool h265, bool sc3_start)
{
    const char *codec = h265 ? "h265" : "h264";
    char key[64];
    uint64_t h = h265 ? 0x265 : 0x264;
    struct tsl_buf *in = tsl_buf_new();
    size_t au_off[65];
    struct es *e = NULL;
    uint32_t kind = vh_below(r, 100);
    bool clean = false, trunc_hdr = false;
    int nrep = 0;
    if (!h265 && kind < 12 && !sc3_start) {
        /* recorded stream of the repo, repeated */
        nrep = 1 + vh_below(r, 3);
        for (int i = 0; i < nrep; i++) {
            if (i == 0 || vh_chance(r, 1, 2)) tsl_buf_put(in, h264_headers, sizeof(h264_headers));
            tsl_buf_put(in, h264_pic, sizeof(h264_pic));
        }
        VH_COUNT("framer.recorded_stream_cases");
    } else {
        e = gen_es(r, h265, 1 + vh_below(r, 7), sc3_start);
        if (kind < 60 || sc3_start) clean = true;
        else {
            /* NAL level mutation: drop, duplicate, truncate, swap */
            int m = 1 + vh_below(r, 3);
            while (m--) {
                int k = vh_below(r, e->nnal);
                switch (vh_below(r, 4)) {
                    case 0: if (e->nnal > 1) { memmove(&e->nals[k], &e->nals[k + 1], sizeof(struct nal) * (size_t)(e->nnal - k - 1)); e->nnal--; for (int a = 0; a < e->nau; a++) if (e->aus[a].first > k) e->aus[a].first--; } VH_COUNT("framer.mutation.drop_nal"); break;
                    case 1: if (e->nnal < 255) { memmove(&e->nals[k + 1], &e->nals[k], sizeof(struct nal) * (size_t)(e->nnal - k)); e->nnal++; for (int a = 0; a < e->nau; a++) if (e->aus[a].first > k) e->aus[a].first++; } VH_COUNT("framer.mutation.duplicate_nal"); break;
                    case 2: e->nals[k].n = 1 + vh_below(r, (uint32_t)e->nals[k].n); VH_COUNT("framer.mutation.truncate_nal"); break;
                    default: { int j = vh_below(r, e->nnal); struct nal t = e->nals[k]; e->nals[k] = e->nals[j]; e->nals[j] = t; VH_COUNT("framer.mutation.swap_nals"); break; }
                }
            }
        }
        /* a slice NAL cut inside its header: the framers parse the header
         * fields beyond the end of the NAL unit, in whatever follows */
        for (int k = 0; k < e->nnal; k++)
            if (e->nals[k].hdr_len && e->nals[k].n < e->nals[k].hdr_len) trunc_hdr = true;
        if (trunc_hdr) VH_COUNT("framer.mutation.slice_header_truncated");
        if (!clean && vh_chance(r, 1, 2)) {
            /* trailing zero octets after some NAL units */
            for (int k = 0; k < e->nnal; k++)
                if (vh_chance(r, 1, 5)) {
                    size_t z = 1 + vh_below(r, 3);
                    uint8_t *p = tsl_alloc(e->nals[k].n + z);
                    memcpy(p, e->nals[k].p, e->nals[k].n);
                    e->nals[k].p = p; e->nals[k].n += z;
                    VH_COUNT("framer.nal_with_trailing_zeros");
                }
        }
        if (!clean && vh_chance(r, 1, 6)) { uint8_t g[8]; size_t gn = 1 + vh_below(r, 8); for (size_t i = 0; i < gn; i++) g[i] = (uint8_t)(vh_rand(r) | 1); tsl_buf_put(in, g, gn); VH_COUNT("framer.garbage_prefix"); }
        es_bytes(e, in, au_off);
    }
    if (e && vh_opts.verbose) {
        char lst[600] = "";
        for (int k = 0; k < e->nnal && strlen(lst) < 560; k++) {
            for (int a = 0; a < e->nau; a++) if (e->aus[a].first == k) strcat(lst, "| ");
            snprintf(lst + strlen(lst), sizeof(lst) - strlen(lst), "%d/%d:%zu ", e->nals[k].type, e->nals[k].sc, e->nals[k].n);
        }
        vh_tr("nals(type/startcode:size) %s", lst);
    }
    h = vh_hash_bytes(h, in->p, in->n);
    vh_tr("%s framer stream=%zu clean=%d recorded=%d head=[%s] tail=[%s]", codec, in->n, clean, nrep,
          tsl_hex(in->p, in->n < 12 ? in->n : 12, 12), in->n >= 4 ? tsl_hex(in->p + in->n - 4, 4, 4) : "");

    int ncut = 4 + vh_below(r, 5);
    bool conformant = clean || nrep > 0;
    cmp_reported = 0;
    bool any_stale = false;
    struct tsl_sink *first = NULL;
    enum tsl_cut_style first_style = TSL_CUT_WHOLE;
    for (int k = 0; k < ncut; k++) {
        enum tsl_cut_style style = k == 0 ? TSL_CUT_WHOLE : k == 1 ? TSL_CUT_BYTES :
                                   (enum tsl_cut_style)(2 + vh_below(r, TSL_CUT_NB - 2));
        if (k == 1 && in->n > 4000) style = TSL_CUT_TINY;
        struct tsl_sink *s = run_framer(r, h265, in->p, in->n, style, UREF_H26X_ENCAPS_ANNEXB, false);
        vh_count_dyn("framer.cut.%s", tsl_cut_name(style));
        for (size_t i = 0; i < s->n && !any_stale; i++)
            if (has_stale_offsets(&s->recs[i], real_offsets(&s->recs[i], NULL, NULL))) any_stale = true;
        if (!first) { first = s; first_style = style; continue; }
        compare_sinks(codec, sc3_start ? "startcode3:" : conformant ? "" : trunc_hdr ? "truncated-slice-header:" : "malformed-stream:", first, tsl_cut_name(first_style), s, tsl_cut_name(style), in->n);
        vh_count_dyn("framer.%s.cuttings_compared", codec);
    }
    /* containment */
    size_t pos = 0;
    size_t where[64], stripb[64];
    if (!conformant) {
        long bad = contain_lenient(first, in->p, in->n, &pos);
        if (bad >= 0) {
            snprintf(key, sizeof(key), "c17:%s:bytes-not-from-input", codec);
            vh_violation(key, "malformed stream: no suffix of access unit %ld (%zu octets) is an in-order slice of the input after offset %zu",
                         bad, first->recs[bad].size, pos);
        }
        vh_count_dyn("framer.%s.outputs_contained_lenient", codec);
    }
    for (size_t i = 0; conformant && i < first->n && i < 64; i++) {
        int st = locate_output(h265, &first->recs[i], in->p, in->n, &pos, &where[i], &stripb[i]);
        if (st < 0) {
            snprintf(key, sizeof(key), "c17:%s:bytes-not-from-input", codec);
            vh_violation(key, "access unit %zu (%zu octets): after removing AUD / parameter sets the framer may insert, not an in-order slice of the input after offset %zu",
                         i, first->recs[i].size, pos);
        }
        if (st > 0) vh_count_dyn("framer.%s.output_with_inserted_nals", codec);
        vh_count_dyn("framer.%s.outputs_contained", codec);
    }
    /* the NAL offsets cover the NAL starts of the unit */
    for (size_t i = 0; i < first->n; i++) {
        struct tsl_rec *o = &first->recs[i];
        bool ok; int want;
        int nr = real_offsets(o, &ok, &want);
        if (!ok && conformant) {
            char la[240];
            offsets_str(o, la, sizeof(la));
            snprintf(key, sizeof(key), "c17:%s:nal-offsets", codec);
            vh_violation(key, "access unit %zu (%zu octets) has %d NAL units after the first, but its NAL offsets are [%s] (first %d correct); unit: %s", i, o->size, want, la, nr, tsl_hex(o->data, o->size, 64));
        }
        if (has_stale_offsets(o, nr)) vh_count_dyn("framer.%s.units_with_stale_offsets", codec);
        if (want) vh_count_dyn("framer.%s.nal_offsets_checked", codec);
    }
    /* completeness on clean generated streams */
    if (clean) {
        bool accepted = first->n > 0;
        if (!accepted) {
            /* generator fidelity, not a framer fault: inconclusive for this clause */
            vh_count_dyn("framer.%s.clean_stream_not_accepted", codec);
        } else {
            if (first->n != (size_t)e->nau) {
                snprintf(key, sizeof(key), "c17:%s:au-missing", codec);
                vh_violation(key, "%d access units generated after valid parameter sets, %zu output (stream %zu octets)", e->nau, first->n, in->n);
            }
            for (int a = 0; a < e->nau; a++) {
                struct tsl_rec *o = &first->recs[a];
                size_t len = au_off[a + 1] - au_off[a];
                if (where[a] != au_off[a] || o->size - stripb[a] != len) {
                    snprintf(key, sizeof(key), "c17:%s:au-boundaries", codec);
                    vh_violation(key, "access unit %d spans input [%zu,%zu) but the framer output covers [%zu,%zu)",
                                 a, au_off[a], au_off[a + 1], where[a], where[a] + o->size - stripb[a]);
                }
                if (!!(o->flags & TSL_F_KEY) != e->aus[a].key)
                    vh_diag("c17:framer:key-flag", "%s access unit %d: key flag %d, generated %d", codec, a, !!(o->flags & TSL_F_KEY), e->aus[a].key);
            }
            vh_count_dyn("framer.%s.clean_streams_complete", codec);
            vh_count_dyn("framer.%s.access_units_matched", codec);
        }
    }
    /* other output encapsulations: payloads and order are kept */
    bool try_encaps = first->n && vh_chance(r, 1, 3);
    if (try_encaps && any_stale) {
        /* upipe_h26xf_convert_frame would walk NAL offsets already known to
         * be wrong (reported above under ...:stale-nal-offsets) and may abort
         * on its assertion: the dependent check is skipped, not the finding */
        vh_count_dyn("framer.%s.output_encaps_skipped_because_of_stale_offsets", codec);
    } else if (try_encaps) {
        enum uref_h26x_encaps oe = vh_chance(r, 1, 2) ? UREF_H26X_ENCAPS_LENGTH4 : UREF_H26X_ENCAPS_NALU;
        struct tsl_sink *s = run_framer(r, h265, in->p, in->n, (enum tsl_cut_style)vh_below(r, TSL_CUT_NB), oe, false);
        if (s->n != first->n) {
            /* on damaged streams a unit whose conversion is refused with an
             * error event is legitimately missing */
            snprintf(key, sizeof(key), "c17:%s:encaps-changes-units", codec);
            if (conformant)
                vh_violation(key, "%zu access units in Annex B output, %zu with output encapsulation %s", first->n, s->n, encaps_name(oe));
            else
                vh_diag(key, "damaged stream: %zu access units in Annex B output, %zu with output encapsulation %s", first->n, s->n, encaps_name(oe));
        }
        vh_count_dyn("framer.%s.output_encaps.%s", codec, encaps_name(oe));
    }
    if (first->n) vh_nontrivial(h);
    if (vh_want_sample())
        vh_sample("%s framer: %s stream of %zu octets, %d cuttings -> %zu access units each, identical; contained in the input",
                  codec, nrep ? "recorded" : clean ? "clean generated" : "mutated generated", in->n, ncut, first->n);
}

/* ==================================================================== */
/* corrupt mode                                                         */

/* one frame per buffer with length prefixes or NAL offset attributes (the
 * other input encapsulations of the framers), lengths and offsets damaged */
static void case_corrupt_frames(struct vh_rng *r)
{
    bool h265 = vh_chance(r, 1, 2);
    uint64_t h = 0xf4a3e + h265;
    static const enum uref_h26x_encaps ie[] = { UREF_H26X_ENCAPS_LENGTH1, UREF_H26X_ENCAPS_LENGTH2, UREF_H26X_ENCAPS_LENGTH4, UREF_H26X_ENCAPS_NALU };
    enum uref_h26x_encaps in_e = ie[vh_below(r, 4)];
    enum uref_h26x_encaps out_e = gen_encaps(r);
    struct es *e = gen_es(r, h265, 1 + vh_below(r, 4), false);
    struct tsl_sink *sink = tsl_sink_new("au");
    sink->flow_format_hook = ff_hook;
    want_encaps = out_e;
    struct upipe_mgr *mgr = h265 ? upipe_h265f_mgr_alloc() : upipe_h264f_mgr_alloc();
    struct upipe *p = tsl_track(upipe_void_alloc(mgr, uprobe_use(tsl_probe)));
    upipe_mgr_release(mgr);
    if (!p) vh_violation("tslab:alloc-failed", "cannot allocate framer");
    upipe_set_output(p, tsl_sink_upipe(sink));
    struct uref *fd = uref_block_flow_alloc_def(tsl_uref_mgr, h265 ? "hevc.pic." : "h264.pic.");
    uref_h26x_flow_set_encaps(fd, in_e);
    int err = upipe_set_flow_def(p, fd);
    uref_free(fd);
    if (!ubase_check(err)) vh_violation("tslab:flow-def-refused", "framer refused its flow definition (%d)", err);
    vh_tr("corrupt frames %s in=%s out=%s aus=%d", h265 ? "h265" : "h264", encaps_name(in_e), encaps_name(out_e), e->nau);
    for (int a = 0; a < e->nau; a++) {
        struct cnal nals[64];
        int n = 0;
        for (int k = e->aus[a].first; k < e->aus[a].first + e->aus[a].count && n < 64; k++) {
            nals[n].p = e->nals[k].p; nals[n].n = e->nals[k].n; nals[n].sc = 4;
            if (in_e == UREF_H26X_ENCAPS_LENGTH1 && nals[n].n > 255) nals[n].n = 255;
            n++;
        }
        struct tsl_buf *b = tsl_buf_new();
        size_t off[65];
        ref_join(b, nals, n, in_e, false, off);
        /* the first frame stays intact: without any activated parameter set
         * the framers run upipe_h26xf_convert_frame with a NULL Annex B header
         * and abort on an assertion (ubuf != NULL in ubuf_control_va; an abort
         * on corrupt input is a diagnostic, not an out-of-bounds read), which
         * would cost one process restart per case */
        uint32_t c = a == 0 ? 99 : vh_below(r, 100);
        const char *what = "intact";
        if (c < 30) { tsl_corrupt(r, (enum tsl_corrupt)vh_below(r, TSL_COR_NB), b->p, b->n); what = "octets"; }
        else if (c < 50 && in_e != UREF_H26X_ENCAPS_NALU && n > 0) {
            /* a length prefix pointing beyond the frame */
            size_t at = off[vh_below(r, (uint32_t)n)];
            for (size_t i = 0; i < prefix_size(in_e, 0) && at + i < b->n; i++) b->p[at + i] = (uint8_t)(vh_chance(r, 1, 2) ? 0xff : vh_rand(r));
            what = "length-prefix";
        } else if (c < 60) { b->n = vh_below(r, (uint32_t)b->n + 1); what = "truncated"; }
        struct uref *u = tsl_uref_from_bytes_rnd(r, b->p, b->n);
        if (in_e == UREF_H26X_ENCAPS_NALU) {
            for (int k = 1; k < n; k++) {
                uint64_t o = off[k];
                if (c >= 60 && c < 80) { o = vh_chance(r, 1, 2) ? vh_rand(r) % (b->n + 50) : o + vh_below(r, 9) - 4; what = "nal-offsets"; }
                uref_h26x_set_nal_offset(u, o, (uint64_t)(k - 1));
            }
        }
        vh_count_dyn("corrupt.frames.%s.%s", encaps_name(in_e), what);
        h = vh_hash_bytes(h, b->p, b->n < 16 ? b->n : 16) + b->n;
        upipe_input(p, u, NULL);
    }
    tsl_release(&p);
    VH_COUNT("corrupt.frame_mode_cases");
    vh_nontrivial(h);
}

static void case_corrupt(struct vh_rng *r)
{

    bool h265 = vh_chance(r, 1, 2);
    const char *codec = h265 ? "h265" : "h264";
    char key[64];
    uint64_t h = 0xbad0 + h265;
    struct tsl_buf *in = tsl_buf_new();
    size_t au_off[65];
    uint32_t c = vh_below(r, 100);
    if (c < 15) {
        size_t n = vh_below(r, 3000);
        for (size_t i = 0; i < n; i++) tsl_buf_put8(in, vh_chance(r, 1, 3) ? (uint8_t)vh_below(r, 2) : (uint8_t)vh_rand(r));
        VH_COUNT("corrupt.noise_streams");
    } else {
        struct es *e = gen_es(r, h265, 1 + vh_below(r, 5), false);
        es_bytes(e, in, au_off);
        if (!h265 && vh_chance(r, 1, 6)) { tsl_buf_put(in, h264_headers, sizeof(h264_headers)); tsl_buf_put(in, h264_pic, sizeof(h264_pic)); }
        int m = 1 + vh_below(r, 6);
        while (m--) tsl_corrupt(r, (enum tsl_corrupt)vh_below(r, TSL_COR_RANDOM_ALL), in->p, in->n);
        if (vh_chance(r, 1, 4)) in->n = vh_below(r, (uint32_t)in->n + 1);
        VH_COUNT("corrupt.damaged_streams");
    }
    h = vh_hash_bytes(h, in->p, in->n);
    enum uref_h26x_encaps oe = vh_chance(r, 2, 3) ? UREF_H26X_ENCAPS_ANNEXB : gen_encaps(r);
    vh_count_dyn("corrupt.output_encaps.%s", encaps_name(oe));
    struct tsl_sink *s = run_framer(r, h265, in->p, in->n, (enum tsl_cut_style)vh_below(r, TSL_CUT_NB), oe, vh_chance(r, 1, 3));
    if (vh_opts.verbose >= 2) {
        fprintf(stderr, "INPUT ");
        for (size_t i = 0; i < in->n; i++) fprintf(stderr, "%02x", in->p[i]);
        fprintf(stderr, "\n");
        for (size_t k = 0; k < s->n; k++) {
            fprintf(stderr, "UNIT%zu ", k);
            for (size_t i = 0; i < s->recs[k].size; i++) fprintf(stderr, "%02x", s->recs[k].data[i]);
            fprintf(stderr, "\n");
        }
    }
    if (oe == UREF_H26X_ENCAPS_ANNEXB) {
        size_t pos = 0;
        long bad = contain_lenient(s, in->p, in->n, &pos);
        if (bad >= 0) {
            snprintf(key, sizeof(key), "c17:%s:bytes-not-from-input", codec);
            vh_violation(key, "corrupt stream: no suffix of access unit %ld (%zu octets) is an in-order slice of the input after offset %zu",
                         bad, s->recs[bad].size, pos);
        }
        VH_ADD("corrupt.outputs_contained", s->n);
    }
    vh_count_dyn("corrupt.%s.streams_fed", codec);
    VH_ADD("corrupt.octets_fed", in->n);
    if (s->n) VH_COUNT("corrupt.streams_with_output");
    vh_nontrivial(h);
}

static void run_case(struct vh_rng *r)
{
    tsl_case_begin(r);
    const char *m = vh_opts.mode;
    uint32_t c = vh_below(r, 100);
    if (!strcmp(m, "convert")) c = 0;
    else if (!strcmp(m, "golomb")) c = 20;
    else if (!strcmp(m, "h264")) c = 50;
    else if (!strcmp(m, "h265")) c = 70;
    else if (!strcmp(m, "corrupt")) c = 90;
    else if (!strcmp(m, "corrupt-frames")) { case_corrupt_frames(r); return; }
    else if (!strcmp(m, "startcode3")) { VH_COUNT("framer.stream_starting_with_3_octet_start_code"); case_framer(r, vh_chance(r, 1, 2), true); return; }
    if (c < 20) case_convert(r);
    else if (c < 50) case_golomb(r);
    else if (c < 68) case_framer(r, false, false);
    else if (c < 86) case_framer(r, true, false);
    else case_corrupt(r);
    if (tsl_ev.fatal) VH_ADD("probe.fatal_events", tsl_ev.fatal);
}

static const struct vh_lab lab = { .name = "h26x", .init = tsl_init, .run_case = run_case, .fini = tsl_fini };

int main(int argc, char **argv)
{
    return vh_main(argc, argv, &lab);
}
