/* TS laboratory: shared machinery of the C14-TS / C15 / C16 / C17 harnesses.
 *
 *  - managers (exact-size block buffers so that ASan red zones are adjacent)
 *  - case-scoped object registry (everything is reclaimed at the next case,
 *    also after a violation aborted the previous one)
 *  - recording sink pipe + logging / providing probe
 *  - cutters (byte stream -> urefs) and corruptors
 *  - reference TS / PES / PSI packetiser and parser written with explicit bit
 *    arithmetic (NOT with the biTStream shim: both cross-check each other)
 */
#ifndef TSLAB_COMMON_H
#define TSLAB_COMMON_H

#include "vh.h"

#include "upipe/ubase.h"
#include "upipe/uclock.h"
#include "upipe/umem.h"
#include "upipe/udict.h"
#include "upipe/uref.h"
#include "upipe/ubuf.h"
#include "upipe/uref_block.h"
#include "upipe/uref_block_flow.h"
#include "upipe/uref_flow.h"
#include "upipe/uref_clock.h"
#include "upipe/uprobe.h"
#include "upipe/upipe.h"
#include "upipe/urequest.h"

#include <stdint.h>
#include <stdbool.h>
#include <stddef.h>

/* ------------------------------------------------------------------ */
/* managers                                                            */

extern struct umem_mgr *tsl_umem_mgr;
extern struct udict_mgr *tsl_udict_mgr;
extern struct uref_mgr *tsl_uref_mgr;
/* block manager with prepend = append = align = 0: every buffer is an exact
 * size heap allocation */
extern struct ubuf_mgr *tsl_ubuf_mgr;
/* probe hierarchy given to every pipe (uprobe_use it) */
extern struct uprobe *tsl_probe;

void tsl_init(void);
void tsl_fini(void);

/* ------------------------------------------------------------------ */
/* growable byte buffer                                                */

struct tsl_buf {
    uint8_t *p;
    size_t n, cap;
};
void tsl_buf_reserve(struct tsl_buf *b, size_t extra);
void tsl_buf_put(struct tsl_buf *b, const void *p, size_t n);
void tsl_buf_put8(struct tsl_buf *b, uint8_t v);
void tsl_buf_fill(struct tsl_buf *b, uint8_t v, size_t n);
void tsl_buf_reset(struct tsl_buf *b);
void tsl_buf_free(struct tsl_buf *b);

/* ------------------------------------------------------------------ */
/* case-scoped registry                                                */

/* to call first thing in run_case: releases / frees what the previous case
 * left behind */
void tsl_case_begin(struct vh_rng *rng);
extern struct vh_rng *tsl_rng;
/* memory freed at next tsl_case_begin */
void *tsl_alloc(size_t n);
void *tsl_memdup(const void *p, size_t n);
/* a buffer whose storage is freed at next case begin */
struct tsl_buf *tsl_buf_new(void);
/* pipe released at next case begin unless tsl_release() did it before */
struct upipe *tsl_track(struct upipe *upipe);
void tsl_release(struct upipe **upipe_p);
/* uref freed at next case begin unless consumed: call tsl_untrack_uref when
 * ownership was given away */
struct uref *tsl_track_uref(struct uref *uref);
void tsl_untrack_uref(struct uref *uref);

/* ------------------------------------------------------------------ */
/* recording sink                                                      */

#define TSL_F_START     0x0001  /* block.start */
#define TSL_F_END       0x0002  /* block.end */
#define TSL_F_DISC      0x0004  /* flow.discontinuity */
#define TSL_F_RANDOM    0x0008  /* flow.random */
#define TSL_F_ERROR     0x0010  /* flow.error */
#define TSL_F_KEY       0x0020  /* pic.key */
#define TSL_F_REF       0x0040  /* clock.ref */

#define TSL_MAX_NAL 64

struct tsl_rec {
    uint8_t *data;
    size_t size;
    int nsegs;
    uint32_t flags;
    uint64_t dts_orig, pts_orig;        /* UINT64_MAX when absent */
    uint64_t dts_pts_delay;             /* UINT64_MAX when absent */
    uint64_t header_size;               /* block.header_size or UINT64_MAX */
    int nb_nal;                         /* number of h26x.n[] attributes */
    uint64_t nal[TSL_MAX_NAL];
    uint64_t attr_hash;                 /* hash of the whole dictionary */
    char *attr_txt;                     /* textual dump (verbose runs only) */
    uint64_t seq;                       /* global arrival order over all sinks */
};

struct tsl_sink {
    struct upipe upipe;
    const char *name;
    struct tsl_rec *recs;
    size_t n, cap;
    size_t bytes;
    int nb_flow_def;
    struct uref *flow_def;              /* last one */
    /* flow format requests are answered with a copy amended by this hook */
    void (*flow_format_hook)(struct tsl_sink *, struct uref *);
    void *opaque;
    int nb_requests;
    struct tsl_sink *next;
};

struct tsl_sink *tsl_sink_new(const char *name);
static inline struct upipe *tsl_sink_upipe(struct tsl_sink *s) { return &s->upipe; }
/* all recorded payloads concatenated (case-scoped buffer) */
struct tsl_buf *tsl_sink_concat(struct tsl_sink *s);

/* non-termination guard: while armed, a sink receiving more than budget
 * buffers reports "nonterm:<what>" and _exit(3)s.  Logical steps only. */
void tsl_guard_begin(const char *what, uint64_t budget);
void tsl_guard_end(void);

/* ------------------------------------------------------------------ */
/* probe observations (reset at case begin)                            */

struct tsl_events {
    unsigned ready, dead, fatal, error, sync_acquired, sync_lost, clock_ref,
             clock_ts, new_flow_def, need_output, source_end, log_warn,
             log_err, other;
    uint64_t last_clock_ref;
    int last_clock_ref_disc;
    int last_fatal_code;
};
extern struct tsl_events tsl_ev;
/* optional per-program hook called for every event before the default
 * processing; return true if the event was consumed (args is a copy) */
extern bool (*tsl_event_hook)(struct upipe *upipe, int event, va_list args);

/* ------------------------------------------------------------------ */
/* urefs from bytes, cutters, corruptors                               */

/* block uref with exactly these bytes; nseg <= 1: one exact-size buffer,
 * otherwise the bytes are spread over nseg appended exact-size buffers
 * (segments may be empty when n < nseg) */
struct uref *tsl_uref_from_bytes(const uint8_t *p, size_t n, int nseg);
/* random segmentation: mostly 1 segment, sometimes up to 5 */
struct uref *tsl_uref_from_bytes_rnd(struct vh_rng *r, const uint8_t *p, size_t n);
/* copies the content of a block uref/ubuf */
uint8_t *tsl_ubuf_bytes(struct ubuf *ubuf, size_t *size_p);

enum tsl_cut_style {
    TSL_CUT_WHOLE,      /* one piece */
    TSL_CUT_BYTES,      /* 1-byte pieces */
    TSL_CUT_TINY,       /* 1..8 */
    TSL_CUT_SMALL,      /* 1..64 */
    TSL_CUT_LARGE,      /* 1..2000 */
    TSL_CUT_UNIT,       /* k*unit + {-1,0,1} */
    TSL_CUT_MIXED,      /* mixture incl. empty pieces */
    TSL_CUT_NB
};
/* fills sizes[] (at most max entries) with piece sizes summing to n;
 * returns the number of pieces; empty pieces only with TSL_CUT_MIXED */
int tsl_cut(struct vh_rng *r, enum tsl_cut_style style, size_t n, size_t unit,
            size_t *sizes, int max);
const char *tsl_cut_name(enum tsl_cut_style s);

/* corruptors working in place; return a short description */
enum tsl_corrupt { TSL_COR_BITFLIP, TSL_COR_BYTES, TSL_COR_ZERO, TSL_COR_FF,
                   TSL_COR_RANDOM_ALL, TSL_COR_NB };
void tsl_corrupt(struct vh_rng *r, enum tsl_corrupt how, uint8_t *p, size_t n);

/* true if needle[0..m) occurs in hay[0..n) */
bool tsl_contains(const uint8_t *hay, size_t n, const uint8_t *needle, size_t m);
/* every byte value of a[0..n) belongs to the byte-value set of a stream */
struct tsl_byteset { bool has[256]; };
void tsl_byteset_add(struct tsl_byteset *s, const uint8_t *p, size_t n);
bool tsl_byteset_covers(const struct tsl_byteset *s, const uint8_t *p, size_t n);

/* short hex dump into a static buffer (for violation details) */
const char *tsl_hex(const uint8_t *p, size_t n, size_t max);

/* ------------------------------------------------------------------ */
/* reference TS packet codec (ISO/IEC 13818-1 2.4.3), bit arithmetic   */

#define TSR_SIZE 188

struct tsr_pkt {
    bool tei, pusi, prio;
    uint16_t pid;
    uint8_t scrambling;
    bool has_af, has_payload;
    uint8_t cc;
    /* adaptation field */
    int af_len;                 /* adaptation_field_length 0..183 */
    bool af_disc, af_rai, af_espi, af_pcr, af_opcr, af_splice, af_priv, af_ext;
    uint64_t pcr_base;          /* 33 bits */
    uint16_t pcr_ext;           /* 9 bits */
    uint64_t opcr_base; uint16_t opcr_ext;
    uint8_t splice_countdown;
    uint8_t priv_len; uint8_t priv[16];
    /* payload */
    int payload_off, payload_len;
};

/* minimal adaptation_field_length able to carry the selected optional fields */
int tsr_af_min_len(const struct tsr_pkt *d);
/* writes a 188-byte packet; payload is copied at the end; af_len and flags
 * must be consistent (asserted).  payload_len = 184 - (has_af ? 1+af_len : 0) */
void tsr_build(uint8_t *out, const struct tsr_pkt *d, const uint8_t *payload);
/* parses; returns 0 on success, a negative code describing the first
 * malformation otherwise (d filled as far as possible) */
int tsr_parse(const uint8_t *p, size_t n, struct tsr_pkt *d);

/* ------------------------------------------------------------------ */
/* reference PES codec (2.4.3.6 / 2.4.3.7)                             */

struct pesr_hdr {
    uint8_t stream_id;
    uint32_t packet_length;         /* field value (0 = unbounded) */
    bool has_opt;                   /* stream id carries the optional header */
    bool alignment, priority, copyright, original;
    uint8_t scrambling;
    uint8_t pts_dts_flags;          /* 0, 2, 3 */
    uint8_t other_flags;            /* low 6 bits of the flags octet */
    uint64_t pts, dts;              /* 33-bit values */
    int header_data_length;
    int header_size;                /* total octets before the payload */
};
bool pesr_streamid_has_opt(uint8_t stream_id);
/* parses a PES header at p; returns 0 or negative error */
int pesr_parse(const uint8_t *p, size_t n, struct pesr_hdr *h);
/* builds a header into out (at least 9+256 octets); stuffing = extra 0xff
 * octets in header_data; returns header size */
int pesr_build(uint8_t *out, const struct pesr_hdr *h, int stuffing);

/* ------------------------------------------------------------------ */
/* reference PSI section syntax (2.4.4)                                */

struct psir_sec {
    uint8_t *data;
    int size;           /* 3 + section_length */
    int first_payload, last_payload;    /* set by the packetiser */
    int start_off;      /* offset of its first octet inside first_payload */
};
/* random section of total size `size` (3..4096), table_id != 0xff, valid
 * syntax/length combination */
void psir_gen_section(struct vh_rng *r, struct psir_sec *s, int size);

#endif
