#!/usr/bin/env python3
# summarises the JSON lines of a harness run (development aid)
import sys, json
tot = {}; viol = {}; ex = {}; cases = 0; crashes = []
for ln in sys.stdin:
    if not ln.startswith('{'):
        if ln.strip(): print('  | ' + ln.rstrip()[:200])
        continue
    try: j = json.loads(ln)
    except ValueError: continue
    if j['t'] == 'stats':
        cases += j['cases_run']
        for k, v in j['counters'].items(): tot[k] = tot.get(k, 0) + v
        for k, v in j['viol_counts'].items(): viol[k] = viol.get(k, 0) + v
    elif j['t'] == 'crash': crashes.append(j['case_seed'])
    elif j['t'] in ('viol', 'diag'):
        ex.setdefault(j['t'] + ' ' + j['key'], []).append((j['case_seed'], j['detail'][:260]))
print('cases', cases, 'crashes', len(crashes), crashes[:5])
for k, v in sorted(viol.items()): print('  VIOL %-55s %d' % (k, v))
for k, v in sorted(ex.items()):
    print(' ', k, 'x%d' % len(v)); 
    for s, d in v[:2]: print('      seed', s, d)
if '-c' in sys.argv:
    for k, v in sorted(tot.items()): print('  %-60s %d' % (k, v))
