/* C14 (TS part) — ts_sync, ts_check, ts_align regroup a byte stream into TS
 * packets: outputs are, in order and without overlap, only bytes of the
 * input; every unit is one whole packet of the configured size starting with
 * 0x47; for the stream parsers (ts_sync, ts_align in sync mode) the unit
 * sequence is independent of how the stream was cut into buffers; release /
 * flush terminates (decided in logical steps by the sink guard).
 *
 * Modes (--mode): "" = mixture, "sync", "check", "align".
 */
#include "tslab_common.h"

#include "upipe-ts/upipe_ts_sync.h"
#include "upipe-ts/upipe_ts_check.h"
#include "upipe-modules/upipe_aggregate.h"
#include "upipe-ts/upipe_ts_align.h"

#include <stdlib.h>
#include <string.h>

enum kind { K_SYNC, K_ALIGN_SYNC, K_CHECK, K_ALIGN_CHECK, K_ALIGN_IDEM };
static const char *kind_name[] = { "ts_sync", "ts_align(sync)", "ts_check", "ts_align(check)", "ts_align(idem)" };
static const char *kind_key[] = { "ts_sync", "ts_align", "ts_check", "ts_align", "ts_align" };
static const char *kind_guard[] = { "upipe_ts_sync", "upipe_ts_align", "upipe_ts_check", "upipe_ts_align", "upipe_ts_align" };

struct cfg {
    enum kind kind;
    unsigned size;      /* packet size */
    int nsync;          /* ts_sync only */
};

#define MAX_PIECES 8192

static char keybuf[96];
static const char *key(const struct cfg *c, const char *what)
{
    snprintf(keybuf, sizeof(keybuf), "c14:%s:%s", kind_key[c->kind], what);
    return keybuf;
}

/* ---- stream generator ---- */

static void gen_garbage(struct vh_rng *r, struct tsl_buf *b, size_t n)
{
    int style = vh_below(r, 3);
    for (size_t i = 0; i < n; i++) {
        uint8_t v = (uint8_t)vh_rand(r);
        if (style == 1 && vh_chance(r, 1, 6)) v = 0x47;
        if (style == 2) v = vh_chance(r, 1, 2) ? 0x47 : (uint8_t)vh_below(r, 3);
        tsl_buf_put8(b, v);
    }
}

static void gen_packet(struct vh_rng *r, struct tsl_buf *b, unsigned size, bool good)
{
    size_t start = b->n;
    tsl_buf_put8(b, good ? 0x47 : (uint8_t)(vh_chance(r, 1, 2) ? 0x46 : vh_rand(r) | 0x80));
    int style = vh_below(r, 4);
    for (unsigned i = 1; i < size; i++) {
        uint8_t v = (uint8_t)vh_rand(r);
        if (style == 1 && vh_chance(r, 1, 10)) v = 0x47;
        if (style == 2) v = (uint8_t)(i * 7 + start);
        if (style == 3) v = 0x47;       /* adversarial: every byte is a sync byte */
        tsl_buf_put8(b, v);
    }
}

/* a stream for the scanners: packets, garbage, false syncs at packet distance */
static int gen_stream(struct vh_rng *r, struct tsl_buf *b, unsigned size, bool *clean_p)
{
    int npk = 0;
    bool clean = true;
    int nrun = 1 + vh_below(r, 4);
    if (vh_chance(r, 1, 3)) { gen_garbage(r, b, vh_below(r, 300)); clean = false; VH_COUNT("stream.garbage_prefix"); }
    for (int run = 0; run < nrun; run++) {
        int n = 1 + vh_below(r, 10);
        for (int i = 0; i < n; i++) { gen_packet(r, b, size, true); npk++; }
        if (run + 1 < nrun) {
            uint32_t c = vh_below(r, 6);
            clean = false;
            if (c == 0) { gen_garbage(r, b, 1 + vh_below(r, 4)); VH_COUNT("stream.short_garbage"); }
            else if (c == 1) { gen_garbage(r, b, 1 + vh_below(r, 250)); VH_COUNT("stream.garbage_gap"); }
            else if (c == 2) { gen_packet(r, b, size, false); VH_COUNT("stream.bad_sync_packet"); }
            else if (c == 3) { /* truncated packet */
                size_t keep = 1 + vh_below(r, size - 1);
                size_t at = b->n;
                gen_packet(r, b, size, true);
                b->n = at + keep;
                VH_COUNT("stream.truncated_packet");
            } else if (c == 4) { /* false syncs at packet distance, one byte off */
                tsl_buf_put8(b, 0x47);
                gen_garbage(r, b, size - 2);
                tsl_buf_put8(b, 0x47);
                VH_COUNT("stream.false_sync_distance");
            } else clean = true;    /* nothing between the runs */
        }
    }
    if (vh_chance(r, 1, 3)) { /* partial tail */
        size_t keep = 1 + vh_below(r, size - 1);
        size_t at = b->n;
        gen_packet(r, b, size, true);
        b->n = at + keep;
        VH_COUNT("stream.partial_tail");
        clean = false;
    }
    *clean_p = clean;
    return npk;
}

/* ---- reference scanner (documented behaviour of ts_sync), used only for a
 * diagnostic: the property does not state which packets must be found ---- */
static size_t ref_sync(const uint8_t *s, size_t n, unsigned size, int nsync, size_t *starts, size_t max)
{
    size_t pos = 0, k = 0;
    bool acquired = false;
    for (;;) {
        /* next candidate */
        size_t p = pos;
        bool insufficient = false, found = false;
        while (p < n) {
            const uint8_t *q = memchr(s + p, 0x47, n - p);
            if (!q) { p = n; break; }
            p = (size_t)(q - s);
            int j;
            for (j = 1; j < nsync; j++) {
                size_t o = p + (size_t)j * size;
                if (o >= n) { insufficient = true; break; }
                if (s[o] != 0x47) break;
            }
            if (insufficient) break;
            if (j == nsync) { found = true; break; }
            p++;
        }
        if (p > pos) acquired = false;
        pos = p;
        if (!found) break;
        if (k < max) starts[k] = pos;
        k++;
        acquired = true;
        pos += size;
    }
    /* flush at release */
    while (acquired && n - pos >= size && s[pos] == 0x47) {
        if (k < max) starts[k] = pos;
        k++;
        pos += size;
    }
    return k;
}

/* ---- running one pipe over one cutting ---- */

struct run {
    struct tsl_sink *sink;
    unsigned fatal;
};

static struct upipe *make_pipe(const struct cfg *c, struct tsl_sink *sink)
{
    struct upipe_mgr *mgr;
    const char *def;
    switch (c->kind) {
        default:
        case K_SYNC: mgr = upipe_ts_sync_mgr_alloc(); def = "block."; break;
        case K_CHECK: mgr = upipe_ts_check_mgr_alloc(); def = "block."; break;
        case K_ALIGN_SYNC: mgr = upipe_ts_align_mgr_alloc(); def = "block."; break;
        case K_ALIGN_CHECK: mgr = upipe_ts_align_mgr_alloc(); def = "block.mpegtsaligned."; break;
        case K_ALIGN_IDEM: mgr = upipe_ts_align_mgr_alloc(); def = "block.mpegts."; break;
    }
    struct upipe *p = tsl_track(upipe_void_alloc(mgr, uprobe_use(tsl_probe)));
    upipe_mgr_release(mgr);
    if (!p) vh_violation("tslab:alloc-failed", "cannot allocate %s", kind_name[c->kind]);
    struct uref *fd = uref_block_flow_alloc_def(tsl_uref_mgr, def + 6);
    bool is_align = c->kind == K_ALIGN_SYNC || c->kind == K_ALIGN_CHECK || c->kind == K_ALIGN_IDEM;
    if (is_align) {
        /* the bin creates its inner pipe on set_flow_def; output afterwards */
        int err = upipe_set_flow_def(p, fd);
        uref_free(fd);
        if (!ubase_check(err)) vh_violation(key(c, "flow-def-refused"), "set_flow_def(%s) = %d", def, err);
        if (!ubase_check(upipe_set_output(p, tsl_sink_upipe(sink))))
            vh_violation(key(c, "set-output-failed"), "set_output failed");
    } else {
        if (!ubase_check(upipe_set_output(p, tsl_sink_upipe(sink))))
            vh_violation(key(c, "set-output-failed"), "set_output failed");
        if (c->size != 188 && !ubase_check(upipe_set_output_size(p, c->size)))
            vh_violation(key(c, "set-size-failed"), "set_output_size(%u) failed", c->size);
        if (c->kind == K_SYNC && c->nsync != 2 && !ubase_check(upipe_ts_sync_set_sync(p, c->nsync)))
            vh_violation(key(c, "set-sync-failed"), "set_sync(%d) failed", c->nsync);
        int err = upipe_set_flow_def(p, fd);
        uref_free(fd);
        if (!ubase_check(err)) vh_violation(key(c, "flow-def-refused"), "set_flow_def(%s) = %d", def, err);
    }
    return p;
}

/* checks unit invariants of recs [from, sink->n) */
static void check_units(const struct cfg *c, struct tsl_sink *sink, size_t from, unsigned size, bool need_sync)
{
    for (size_t i = from; i < sink->n; i++) {
        struct tsl_rec *r = &sink->recs[i];
        if (r->size != size)
            vh_violation(key(c, "unit-size"), "%s: output unit %zu has %zu octets, configured packet size %u",
                         kind_name[c->kind], i, r->size, size);
        if (need_sync && r->data[0] != 0x47)
            vh_violation(key(c, "unit-sync"), "%s: output unit %zu starts with 0x%02x: %s",
                         kind_name[c->kind], i, r->data[0], tsl_hex(r->data, r->size, 12));
        VH_COUNT("units.checked");
    }
}

/* outputs must be in-order, non-overlapping slices of the input (greedy
 * earliest matching is complete for this question) */
static void check_conservation(const struct cfg *c, struct tsl_sink *sink, const uint8_t *s, size_t n)
{
    size_t pos = 0;
    for (size_t i = 0; i < sink->n; i++) {
        struct tsl_rec *r = &sink->recs[i];
        if (r->size == 0) continue;
        const uint8_t *q = pos <= n ? memmem(s + pos, n - pos, r->data, r->size) : NULL;
        if (!q)
            vh_violation(key(c, "bytes-not-from-input"),
                         "%s: output unit %zu (%zu octets, %s) is not a slice of the input after offset %zu (input %zu octets)",
                         kind_name[c->kind], i, r->size, tsl_hex(r->data, r->size, 8), pos, n);
        pos = (size_t)(q - s) + r->size;
    }
    VH_COUNT("conservation.checked");
}

static struct tsl_sink *run_cutting(const struct cfg *c, const uint8_t *s, size_t n,
                                    enum tsl_cut_style style, uint64_t *hash_p)
{
    static size_t sizes[MAX_PIECES];
    struct vh_rng *r = tsl_rng;
    struct tsl_sink *sink = tsl_sink_new("out");
    struct upipe *p = make_pipe(c, sink);
    int np = tsl_cut(r, style, n, c->size, sizes, MAX_PIECES);
    size_t off = 0;
    vh_tr("cut=%s pieces=%d", tsl_cut_name(style), np);
    for (int i = 0; i < np; i++) {
        struct uref *u = tsl_uref_from_bytes_rnd(r, s + off, sizes[i]);
        if (sizes[i] == 0) VH_COUNT("input.empty_urefs");
        if (sizes[i] == 1) VH_COUNT("input.one_byte_urefs");
        off += sizes[i];
        tsl_guard_begin(kind_guard[c->kind], 16 + 4 * (uint64_t)n);
        upipe_input(p, u, NULL);
        tsl_guard_end();
        if (hash_p) *hash_p = vh_hash_mix(*hash_p, sizes[i]);
    }
    char what[64];
    snprintf(what, sizeof(what), "%s:release", kind_guard[c->kind]);
    tsl_guard_begin(what, 16 + 4 * (uint64_t)n);
    tsl_release(&p);
    tsl_guard_end();
    VH_COUNT("release.terminated");
    return sink;
}

/* ---- case kinds ---- */

static void case_scanner(struct vh_rng *r, enum kind kind)
{
    struct cfg c = { .kind = kind, .size = 188, .nsync = 2 };
    if (kind == K_SYNC) {
        static const unsigned sz[] = { 188, 188, 192, 204 };
        c.size = sz[vh_below(r, 4)];
        c.nsync = 2 + vh_below(r, 4);
    }
    struct tsl_buf *b = tsl_buf_new();
    bool clean;
    int npk = gen_stream(r, b, c.size, &clean);
    vh_tr("%s size=%u nsync=%d stream=%zu packets=%d", kind_name[kind], c.size, c.nsync, b->n, npk);
    uint64_t h = vh_hash_bytes(kind * 131 + c.size + c.nsync * 7, b->p, b->n);

    int ncut = 3 + vh_below(r, 4);
    struct tsl_sink *first = NULL;
    enum tsl_cut_style first_style = TSL_CUT_WHOLE;
    for (int k = 0; k < ncut; k++) {
        enum tsl_cut_style style = k == 0 ? TSL_CUT_WHOLE : k == 1 ? TSL_CUT_BYTES :
                                   (enum tsl_cut_style)(2 + vh_below(r, TSL_CUT_NB - 2));
        if (k == 1 && b->n > 3000) style = TSL_CUT_TINY;
        struct tsl_sink *sink = run_cutting(&c, b->p, b->n, style, &h);
        check_units(&c, sink, 0, c.size, true);
        check_conservation(&c, sink, b->p, b->n);
        vh_count_dyn("cut.%s", tsl_cut_name(style));
        if (!first) { first = sink; first_style = style; continue; }
        /* metamorphic comparison */
        if (sink->n != first->n)
            vh_violation(key(&c, "cutting-dependent"),
                         "%s size=%u nsync=%d: %zu units with cutting '%s' but %zu with '%s' (stream %zu octets)",
                         kind_name[kind], c.size, c.nsync, first->n, tsl_cut_name(first_style),
                         sink->n, tsl_cut_name(style), b->n);
        for (size_t i = 0; i < sink->n; i++)
            if (sink->recs[i].size != first->recs[i].size ||
                memcmp(sink->recs[i].data, first->recs[i].data, sink->recs[i].size))
                vh_violation(key(&c, "cutting-dependent"),
                             "%s: unit %zu differs between cuttings '%s' and '%s'", kind_name[kind], i,
                             tsl_cut_name(first_style), tsl_cut_name(style));
        VH_COUNT("cuttings.compared");
    }
    /* diagnostic: documented scanner */
    static size_t starts[4096];
    size_t nref = ref_sync(b->p, b->n, c.size, c.nsync, starts, 4096);
    bool same = nref == first->n;
    for (size_t i = 0; same && i < nref && i < 4096; i++)
        if (memcmp(first->recs[i].data, b->p + starts[i], c.size)) same = false;
    if (!same)
        vh_diag(key(&c, "ref-scanner-differs"), "%s size=%u nsync=%d: pipe found %zu packets, reference scanner %zu",
                kind_name[kind], c.size, c.nsync, first->n, nref);
    else VH_COUNT("ref_scanner.agrees");
    if (clean && first->n == (size_t)npk) VH_COUNT("clean_stream.all_packets_output");
    if (first->n > 0) {
        VH_COUNT("case.with_output");
        vh_nontrivial(h);
    }
    if (vh_want_sample())
        vh_sample("%s size=%u nsync=%d stream=%zu octets (%d true packets) -> %zu units under %d cuttings",
                  kind_name[kind], c.size, c.nsync, b->n, npk, first->n, ncut);
}

/* non-metamorphic run: discontinuity-flagged urefs, option changes mid-stream */
static void case_sync_hostile(struct vh_rng *r)
{
    struct cfg c = { .kind = K_SYNC, .size = 188, .nsync = 2 + (int)vh_below(r, 3) };
    struct tsl_buf *b = tsl_buf_new();
    bool clean;
    gen_stream(r, b, c.size, &clean);
    static size_t sizes[MAX_PIECES];
    struct tsl_sink *sink = tsl_sink_new("out");
    struct upipe *p = make_pipe(&c, sink);
    int np = tsl_cut(r, (enum tsl_cut_style)(2 + vh_below(r, TSL_CUT_NB - 2)), b->n, c.size, sizes, MAX_PIECES);
    size_t off = 0;
    uint64_t h = vh_hash_bytes(99, b->p, b->n);
    unsigned cur = c.size;
    vh_tr("hostile ts_sync stream=%zu pieces=%d", b->n, np);
    for (int i = 0; i < np; i++) {
        struct uref *u = tsl_uref_from_bytes_rnd(r, b->p + off, sizes[i]);
        off += sizes[i];
        if (vh_chance(r, 1, 12)) { uref_flow_set_discontinuity(u); VH_COUNT("input.discontinuity_urefs"); vh_tr("disc@%d", i); h = vh_hash_mix(h, i); }
        if (vh_chance(r, 1, 25)) {
            int ns = 2 + vh_below(r, 4);
            if (!ubase_check(upipe_ts_sync_set_sync(p, ns)))
                vh_violation("c14:ts_sync:set-sync-failed", "set_sync(%d) refused mid-stream", ns);
            VH_COUNT("option.sync_changed_midstream");
            vh_tr("nsync=%d@%d", ns, i);
        }
        size_t before = sink->n;
        tsl_guard_begin("upipe_ts_sync", 16 + 4 * (uint64_t)b->n);
        upipe_input(p, u, NULL);
        tsl_guard_end();
        check_units(&c, sink, before, cur, true);
    }
    size_t before = sink->n;
    tsl_guard_begin("upipe_ts_sync:release", 16 + 4 * (uint64_t)b->n);
    tsl_release(&p);
    tsl_guard_end();
    VH_COUNT("release.terminated");
    check_units(&c, sink, before, cur, true);
    check_conservation(&c, sink, b->p, b->n);
    VH_COUNT("hostile.cases");
    if (sink->n) vh_nontrivial(h);
}

/* ts_check / ts_align(check) / ts_align(idem): aligned input buffers */
static void case_check(struct vh_rng *r, enum kind kind)
{
    struct cfg c = { .kind = kind, .size = 188, .nsync = 0 };
    if (kind == K_CHECK) {
        static const unsigned sz[] = { 188, 188, 192, 204 };
        c.size = sz[vh_below(r, 4)];
    }
    struct tsl_sink *sink = tsl_sink_new("out");
    struct upipe *p = make_pipe(&c, sink);
    struct tsl_buf *all = tsl_buf_new();
    int nb = 1 + vh_below(r, 12);
    uint64_t h = kind * 977 + c.size;
    size_t expected_min = 0;    /* packets the documented behaviour keeps */
    vh_tr("%s size=%u buffers=%d", kind_name[kind], c.size, nb);
    for (int i = 0; i < nb; i++) {
        struct tsl_buf *b = tsl_buf_new();
        int npk = vh_below(r, 5);
        bool stop = false;
        size_t good_prefix = 0;
        for (int j = 0; j < npk; j++) {
            bool good = !vh_chance(r, 1, 6);
            gen_packet(r, b, c.size, good);
            if (!good) { stop = true; VH_COUNT("check.bad_packet"); }
            if (!stop) good_prefix++;
        }
        uint32_t t = vh_below(r, 6);
        if (t == 0 && b->n) { b->n -= 1 + vh_below(r, 3); if (!stop && good_prefix) good_prefix--; VH_COUNT("check.short_buffer"); }
        else if (t == 1) { gen_garbage(r, b, 1 + vh_below(r, 5)); VH_COUNT("check.trailing_octets"); }
        expected_min += good_prefix;
        h = vh_hash_bytes(h, b->p, b->n);
        tsl_buf_put(all, b->p, b->n);
        if (b->n == 0) VH_COUNT("input.empty_urefs");
        struct uref *u = tsl_uref_from_bytes_rnd(r, b->p, b->n);
        size_t before = sink->n;
        tsl_guard_begin(kind_guard[kind], 16 + 4 * (uint64_t)b->n);
        upipe_input(p, u, NULL);
        tsl_guard_end();
        if (kind != K_ALIGN_IDEM)
            check_units(&c, sink, before, c.size, true);
    }
    char what[64];
    snprintf(what, sizeof(what), "%s:release", kind_guard[kind]);
    tsl_guard_begin(what, 64);
    tsl_release(&p);
    tsl_guard_end();
    VH_COUNT("release.terminated");
    check_conservation(&c, sink, all->p, all->n);
    if (kind != K_ALIGN_IDEM) {
        if (sink->n == expected_min) VH_COUNT("check.ref_agrees");
        else vh_diag(key(&c, "ref-check-differs"), "%s: %zu packets output, reference keeps %zu",
                     kind_name[kind], sink->n, expected_min);
    }
    vh_count_dyn("cases.%s", kind_name[kind]);
    if (sink->n) vh_nontrivial(h);
    if (vh_want_sample())
        vh_sample("%s size=%u: %d aligned buffers (%zu octets) -> %zu packets", kind_name[kind], c.size, nb, all->n, sink->n);
}

/* ts_check followed by the aggregator (the usual sender chain): the packets
 * kept by ts_check alone and those found in the aggregates are the same, every
 * aggregate is made of whole packets and respects the MTU */
static void case_check_agg(struct vh_rng *r)
{
    struct cfg c = { .kind = K_CHECK, .size = 188, .nsync = 0 };
    unsigned mtu = 188 * (1 + vh_below(r, 7)) + (vh_chance(r, 1, 2) ? vh_below(r, 188) : 0);
    struct tsl_sink *alone = tsl_sink_new("alone"), *sink = tsl_sink_new("agg");
    struct upipe *p1 = make_pipe(&c, alone);
    struct upipe *p2 = make_pipe(&c, sink);
    struct upipe_mgr *am = upipe_agg_mgr_alloc();
    struct upipe *agg = tsl_track(upipe_void_alloc(am, uprobe_use(tsl_probe)));
    upipe_mgr_release(am);
    if (!agg) vh_violation("tslab:alloc-failed", "cannot allocate the aggregator");
    upipe_set_output_size(agg, mtu);
    upipe_set_output(agg, tsl_sink_upipe(sink));
    upipe_set_output(p2, agg);
    int nb = 1 + vh_below(r, 10);
    uint64_t h = 0xa66 + mtu;
    vh_tr("ts_check->agg mtu=%u buffers=%d", mtu, nb);
    for (int i = 0; i < nb; i++) {
        struct tsl_buf *b = tsl_buf_new();
        int npk = vh_below(r, 9);
        for (int j = 0; j < npk; j++) gen_packet(r, b, 188, !vh_chance(r, 1, 12));
        if (vh_chance(r, 1, 8) && b->n) b->n -= 1 + vh_below(r, 3);
        h = vh_hash_bytes(h, b->p, b->n);
        /* the same octets, independently segmented, to both chains */
        for (int k = 0; k < 2; k++) {
            struct uref *u = tsl_uref_from_bytes_rnd(r, b->p, b->n);
            tsl_guard_begin("ts_check->agg", 16 + 4 * (uint64_t)b->n);
            upipe_input(k ? p2 : p1, u, NULL);
            tsl_guard_end();
        }
    }
    tsl_guard_begin("ts_check->agg:release", 64);
    tsl_release(&p1);
    tsl_release(&p2);
    tsl_release(&agg);
    tsl_guard_end();
    struct tsl_buf *a = tsl_sink_concat(alone), *g = tsl_sink_concat(sink);
    for (size_t i = 0; i < sink->n; i++) {
        struct tsl_rec *rec = &sink->recs[i];
        if (rec->size == 0 || rec->size > mtu || rec->size % 188)
            vh_violation("c14:ts_check+agg:unit-size", "aggregate %zu has %zu octets (MTU %u, packets of 188)", i, rec->size, mtu);
        for (size_t o = 0; o < rec->size; o += 188)
            if (rec->data[o] != 0x47)
                vh_violation("c14:ts_check+agg:unit-sync", "aggregate %zu: the packet at offset %zu starts with 0x%02x", i, o, rec->data[o]);
        VH_COUNT("agg.units_checked");
    }
    if (a->n != g->n || (a->n && memcmp(a->p, g->p, a->n)))
        vh_violation("c14:ts_check+agg:octets-lost-or-invented", "ts_check alone outputs %zu octets, the aggregates hold %zu octets (or different ones)", a->n, g->n);
    VH_COUNT("cases.ts_check+agg");
    if (sink->n) vh_nontrivial(h);
    if (vh_want_sample()) vh_sample("ts_check->agg mtu=%u: %d buffers -> %zu packets in %zu aggregates", mtu, nb, alone->n, sink->n);
}

static void run_case(struct vh_rng *r)
{
    tsl_case_begin(r);
    const char *m = vh_opts.mode;
    uint32_t c = vh_below(r, 100);
    if (!strcmp(m, "sync")) c = vh_below(r, 55);
    else if (!strcmp(m, "check")) c = 70 + vh_below(r, 15);
    else if (!strcmp(m, "align")) c = vh_chance(r, 1, 2) ? 55 + vh_below(r, 15) : 85 + vh_below(r, 15);
    if (c < 40) { case_scanner(r, K_SYNC); VH_COUNT("cases.ts_sync"); }
    else if (c < 55) case_sync_hostile(r);
    else if (c < 70) { case_scanner(r, K_ALIGN_SYNC); VH_COUNT("cases.ts_align(sync)"); }
    else if (c < 78) case_check(r, K_CHECK);
    else if (c < 85) case_check_agg(r);
    else if (c < 95) case_check(r, K_ALIGN_CHECK);
    else case_check(r, K_ALIGN_IDEM);
    if (tsl_ev.fatal) VH_ADD("probe.fatal_events", tsl_ev.fatal);
}

static const struct vh_lab lab = { .name = "ts_chunk", .init = tsl_init, .run_case = run_case, .fini = tsl_fini };

int main(int argc, char **argv)
{
    return vh_main(argc, argv, &lab);
}
