#!/bin/sh
# usage: harness/tslab/run.sh <bindir> <bin> <cases> <seed> [mode]  — development runner: restarts after crashes like the driver
BIN=$1/$2; CASES=$3; SEED=$4; MODE=$5
export ASAN_OPTIONS=abort_on_error=1:detect_leaks=0
START=0
while [ $START -lt $CASES ]; do
  OUT=$($BIN --cases $((CASES-START)) --start $START --seed $SEED ${MODE:+--mode $MODE} 2>/tmp/tslab-run-stderr.$$)
  echo "$OUT"
  C=$(echo "$OUT" | grep -a '"t":"crash"' | tail -1 | sed 's/.*"case":\([0-9]*\).*/\1/')
  if [ -z "$C" ]; then break; fi
  grep -a "Assertion\|ERROR: AddressSanitizer\|VH-ABORT-KEY" /tmp/tslab-run-stderr.$$ | head -3
  START=$((C+1))
done
rm -f /tmp/tslab-run-stderr.$$
