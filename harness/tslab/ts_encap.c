/* C15 — TS and PES packetisation round-trips payload, timing and continuity.
 *
 * Modes (--mode):
 *   encaps   access units -> ts_encaps (the harness plays the mux: status
 *            events, splice loop, eos) -> reference TS/PES parser (188 octets,
 *            sync byte, PID, continuity counter, unit start, random access,
 *            PTS/DTS, payload) -> ts_decaps -> ts_pes_decaps -> comparison
 *            with the access units
 *   pes      stand-alone ts_pes_encaps -> reference parser -> ts_pes_decaps
 *   decaps   reference packets (every adaptation field configuration,
 *            stuffing, duplicates, payload-less packets, drops) -> ts_decaps;
 *            multi-PID sequences -> ts_split / ts_pid_filter
 *   corrupt  bit flips, truncated / oversize packets, af_length > 183, random
 *            octets, corrupt PES headers -> ts_decaps -> ts_pes_decaps,
 *            ts_split, ts_pid_filter in exact-size (and segmented) buffers:
 *            AddressSanitizer + "outputs only contain input octets"
 *   ""       mixture
 */
#include "tslab_common.h"

#include "upipe/ubuf_block.h"
#include "upipe-ts/upipe_ts_decaps.h"
#include "upipe-ts/upipe_ts_encaps.h"
#include "upipe-ts/upipe_ts_pes_decaps.h"
#include "upipe-ts/upipe_ts_pes_encaps.h"
#include "upipe-ts/upipe_ts_split.h"
#include "upipe-ts/upipe_ts_pid_filter.h"
#include "upipe-ts/upipe_ts_mux.h"
#include "upipe-ts/uref_ts_flow.h"

#include <stdlib.h>
#include <string.h>
#include <inttypes.h>

#define POW2_33 UINT64_C(8589934592)

static struct upipe *alloc_pipe(struct upipe_mgr *mgr, const char *what)
{
    struct upipe *p = tsl_track(upipe_void_alloc(mgr, uprobe_use(tsl_probe)));
    upipe_mgr_release(mgr);
    if (!p) vh_violation("tslab:alloc-failed", "cannot allocate %s", what);
    return p;
}

static void set_flow_def(struct upipe *p, const char *suffix, const char *what)
{
    struct uref *fd = uref_block_flow_alloc_def(tsl_uref_mgr, suffix);
    int err = upipe_set_flow_def(p, fd);
    uref_free(fd);
    if (!ubase_check(err))
        vh_violation("tslab:flow-def-refused", "%s refused flow def block.%s (%d)", what, suffix, err);
}

static void fill_payload(struct vh_rng *r, uint8_t *p, size_t n)
{
    int style = vh_below(r, 4);
    uint8_t c = (uint8_t)vh_rand(r);
    for (size_t i = 0; i < n; i++)
        p[i] = style == 0 ? (uint8_t)vh_rand(r) :
               style == 1 ? (uint8_t)(c + i) :
               style == 2 ? (uint8_t)(vh_chance(r, 1, 5) ? 0x47 : vh_below(r, 3)) :   /* sync / start-code look-alikes */
               (uint8_t)(vh_chance(r, 1, 3) ? 0xff : vh_rand(r));
}

/* ==================================================================== */
/* decaps mode: reference packets -> ts_decaps                          */

struct gpkt {
    uint8_t b[TSR_SIZE];
    struct tsr_pkt d;
    bool dup;
};

static const char *af_class(const struct tsr_pkt *d)
{
    if (!d->has_af) return "none";
    if (!d->has_payload) return d->af_pcr ? "only+pcr" : "only";
    if (d->af_len == 0) return "len0";
    if (d->af_len == 182) return "len182";
    if (d->af_pcr) return "pcr";
    if (d->af_opcr || d->af_splice || d->af_priv || d->af_ext) return "ext-fields";
    if (d->af_len == 1) return "flags";
    return "stuffing";
}

/* one random well-formed packet of the PID; cc handling by the caller */
static void gen_packet(struct vh_rng *r, struct gpkt *g, uint16_t pid, bool payload)
{
    struct tsr_pkt *d = &g->d;
    memset(g, 0, sizeof(*g));
    d->pid = pid;
    d->has_payload = payload;
    d->pusi = payload && vh_chance(r, 1, 5);
    d->prio = vh_chance(r, 1, 20);
    d->scrambling = vh_chance(r, 1, 30) ? 1 + vh_below(r, 3) : 0;
    if (!payload) {
        d->has_af = true;
        d->af_pcr = vh_chance(r, 1, 2);
        d->af_rai = vh_chance(r, 1, 10);
        d->af_len = 183;
    } else {
        uint32_t c = vh_below(r, 100);
        if (c < 40) d->has_af = false;
        else {
            d->has_af = true;
            if (c < 45) d->af_len = 0;
            else {
                if (c >= 55 && c < 70) d->af_pcr = true;
                if (c >= 90) {
                    d->af_opcr = vh_chance(r, 1, 2);
                    d->af_splice = vh_chance(r, 1, 2);
                    d->af_priv = vh_chance(r, 1, 2);
                    d->af_ext = vh_chance(r, 1, 2);
                    d->af_pcr = vh_chance(r, 1, 2);
                    if (d->af_priv) { d->priv_len = vh_below(r, 9); for (int i = 0; i < d->priv_len; i++) d->priv[i] = (uint8_t)vh_rand(r); }
                    d->splice_countdown = (uint8_t)vh_rand(r);
                }
                d->af_rai = vh_chance(r, 1, 4);
                d->af_espi = vh_chance(r, 1, 10);
                int min = tsr_af_min_len(d);
                if (min < 1) min = 1;
                if (c >= 70 && c < 85) d->af_len = min + vh_below(r, 182 - min + 1);   /* stuffing, any length */
                else if (c >= 85 && c < 90) d->af_len = 182;                           /* 1 payload octet */
                else d->af_len = min;
            }
        }
    }
    if (d->af_pcr) { d->pcr_base = vh_rand(r) & (POW2_33 - 1); d->pcr_ext = vh_below(r, 300); }
    if (d->af_opcr) { d->opcr_base = vh_rand(r) & (POW2_33 - 1); d->opcr_ext = vh_below(r, 300); }
    uint8_t pl[184];
    fill_payload(r, pl, sizeof(pl));
    int plen = payload ? 184 - (d->has_af ? 1 + d->af_len : 0) : 0;
    d->payload_len = plen;
    d->payload_off = TSR_SIZE - plen;
    tsr_build(g->b, d, pl);
}

static void self_check_packet(const struct gpkt *g)
{
    struct tsr_pkt q;
    int e = tsr_parse(g->b, TSR_SIZE, &q);
    if (e || q.pid != g->d.pid || q.cc != g->d.cc || q.payload_len != g->d.payload_len ||
        q.af_pcr != g->d.af_pcr || (q.af_pcr && (q.pcr_base != g->d.pcr_base || q.pcr_ext != g->d.pcr_ext))) {
        fprintf(stderr, "tslab: reference TS builder/parser disagree (%d)\n", e);
        exit(2);
    }
}

static uint64_t pcr_seen[4096];
static int pcr_seen_n;
static bool decaps_hook(struct upipe *upipe, int event, va_list args)
{
    if (event == UPROBE_CLOCK_REF) {
        (void)va_arg(args, struct uref *);
        uint64_t v = va_arg(args, uint64_t);
        if (pcr_seen_n < 4096) pcr_seen[pcr_seen_n++] = v;
    }
    return false;
}

static void case_decaps(struct vh_rng *r)
{
    uint16_t pid = (uint16_t)vh_below(r, 8192);
    int n = 1 + vh_below(r, 60);
    bool lossy = vh_chance(r, 2, 5);
    struct gpkt *g = tsl_alloc(sizeof(*g) * (size_t)(2 * n + 2));
    int ng = 0;
    uint8_t cc = (uint8_t)vh_below(r, 16);
    uint64_t h = pid;
    int ndup = 0;
    /* generation of the well-formed sequence */
    for (int i = 0; i < n; i++) {
        bool payload = !vh_chance(r, 1, 7);
        gen_packet(r, &g[ng], pid, payload);
        if (payload) cc = (cc + 1) & 0xf;
        g[ng].d.cc = cc;
        g[ng].b[3] = (uint8_t)((g[ng].b[3] & 0xf0) | cc);
        self_check_packet(&g[ng]);
        vh_count_dyn("gen.af.%s", af_class(&g[ng].d));
        h = vh_hash_bytes(h, g[ng].b, 12);
        ng++;
        if (payload && g[ng - 1].d.payload_len > 0 && vh_chance(r, 1, 12)) {
            /* duplicate: sent twice, only the PCR may differ (2.4.3.3) */
            g[ng] = g[ng - 1];
            g[ng].dup = true;
            if (g[ng].d.af_pcr && vh_chance(r, 1, 2)) {
                g[ng].d.pcr_base = (g[ng].d.pcr_base + 1 + vh_below(r, 1000)) & (POW2_33 - 1);
                tsr_build(g[ng].b, &g[ng].d, g[ng - 1].b + g[ng - 1].d.payload_off);
                VH_COUNT("gen.duplicate_with_new_pcr");
            }
            ng++; ndup++;
            VH_COUNT("gen.duplicates");
        }
    }
    /* loss */
    bool *fed = tsl_alloc((size_t)ng);
    int nfed = 0, ndrop = 0;
    for (int i = 0; i < ng; i++) {
        fed[i] = !(lossy && vh_chance(r, 1, 10));
        if (fed[i]) nfed++; else { ndrop++; VH_COUNT("gen.dropped_packets"); h = vh_hash_mix(h, i); }
    }
    vh_tr("decaps pid=%u packets=%d dups=%d dropped=%d", pid, ng, ndup, ndrop);

    struct tsl_sink *sink = tsl_sink_new("payload");
    struct upipe *dec = alloc_pipe(upipe_ts_decaps_mgr_alloc(), "ts_decaps");
    set_flow_def(dec, "mpegts.", "ts_decaps");
    upipe_set_output(dec, tsl_sink_upipe(sink));
    pcr_seen_n = 0;
    tsl_event_hook = decaps_hook;

    /* model */
    int last_cc = -1;                    /* continuity counter of the last packet seen */
    const struct gpkt *last_pl = NULL;   /* last payload packet delivered */
    bool pending_gap = false, pending_may_disc = false;
    int pending_masked = 0;     /* 1: counter jumped, 2: counter advanced by one on a payload-less packet */
    size_t expect_idx = 0;
    int exp_pcr = 0;
    for (int i = 0; i < ng; i++) {
        if (!fed[i]) continue;
        const struct gpkt *k = &g[i];
        const struct tsr_pkt *d = &k->d;
        bool expect_out = false, gap = false, may_disc = false;
        if (d->af_pcr) exp_pcr++;
        if (!d->has_payload) {
            /* the counter is not incremented on payload-less packets */
            if (d->af_disc) {
                /* announced discontinuity: the counter may jump here; flagging
                 * the next payload is allowed (the payload flow is broken) but
                 * not demanded */
                if (last_cc != -1 && d->cc != last_cc) pending_may_disc = true;
            } else if (last_cc != -1 && d->cc != last_cc) {
                /* 2.4.3.3: the counter is not incremented without payload, so
                 * any other value than the previous one reveals a loss */
                pending_gap = true;
                pending_masked = d->cc == ((last_cc + 1) & 0xf) ? 2 : 1;
                VH_COUNT("model.gap_seen_on_payloadless_packet");
            }
            last_cc = d->cc;
        } else {
            bool is_dup = last_cc != -1 && d->cc == last_cc && last_pl != NULL &&
                          last_pl->d.payload_len == d->payload_len &&
                          !memcmp(last_pl->b + last_pl->d.payload_off, k->b + d->payload_off, (size_t)d->payload_len);
            if (is_dup) { VH_COUNT("model.duplicates_to_remove"); }
            else {
                expect_out = true;
                if (d->af_disc) may_disc = true;
                else if (last_cc != -1 && d->cc != ((last_cc + 1) & 0xf)) { gap = true; VH_COUNT("model.gaps"); }
                last_cc = d->cc;
                last_pl = k;
            }
        }
        size_t before = sink->n;
        struct uref *u = tsl_uref_from_bytes_rnd(r, k->b, TSR_SIZE);
        if (vh_opts.verbose) vh_tr("#%d cc%u %s%s%s", i, d->cc, d->has_payload ? "P" : "-", k->dup ? "dup" : "", d->af_disc ? "D" : "");
        upipe_input(dec, u, NULL);
        size_t got = sink->n - before;
        if (!expect_out) {
            if (got)
                vh_violation(k->dup ? "c15:decaps:duplicate-not-removed" : "c15:decaps:payload-extra",
                             "packet %d (cc %u, %s%s) produced an output of %zu octets", i, d->cc,
                             d->has_payload ? "payload" : "payload-less", k->dup ? ", duplicate" : "", sink->recs[before].size);
            continue;
        }
        if (got != 1)
            vh_violation(got ? "c15:decaps:payload-extra" : "c15:decaps:payload-lost",
                         "packet %d (pid %u cc %u af=%s payload %d octets, previous cc %d) gave %zu outputs",
                         i, pid, d->cc, af_class(d), d->payload_len, last_cc, got);
        struct tsl_rec *o = &sink->recs[before];
        if (o->size != (size_t)d->payload_len || memcmp(o->data, k->b + d->payload_off, o->size))
            vh_violation("c15:decaps:payload-mismatch",
                         "packet %d af=%s af_len=%d: carried payload %d octets [%s], output %zu octets [%s]",
                         i, af_class(d), d->af_len, d->payload_len, tsl_hex(k->b + d->payload_off, (size_t)d->payload_len, 8),
                         o->size, tsl_hex(o->data, o->size, 8));
        vh_count_dyn("decaps.payload_ok.af.%s", af_class(d));
        if (!!(o->flags & TSL_F_START) != d->pusi)
            vh_violation("c15:decaps:unit-start-flag", "packet %d: payload_unit_start_indicator %d, output start flag %d",
                         i, d->pusi, !!(o->flags & TSL_F_START));
        if (!!(o->flags & TSL_F_RANDOM) != (d->has_af && d->af_len > 0 && d->af_rai))
            vh_violation("c15:decaps:random-access-flag", "packet %d: random_access_indicator %d, output random flag %d",
                         i, d->af_rai, !!(o->flags & TSL_F_RANDOM));
        bool disc = !!(o->flags & TSL_F_DISC);
        if ((gap || pending_gap) && !disc) {
            if (!gap && pending_masked == 1)
                vh_violation("c15:decaps:gap-not-flagged:jump-seen-on-payloadless-packet",
                             "packet %d (cc %u): a preceding payload-less packet carried a counter that was neither the previous value "
                             "nor its successor (packets lost), but no output carries the discontinuity flag", i, d->cc);
            if (!gap && pending_masked == 2)
                vh_violation("c15:decaps:gap-not-flagged:payloadless-packet-with-advanced-counter",
                             "packet %d (cc %u): a preceding payload-less packet carried the successor of the previous counter instead of "
                             "repeating it (2.4.3.3: a payload packet was lost), but no output carries the discontinuity flag", i, d->cc);
            vh_violation("c15:decaps:gap-not-flagged", "packet %d (cc %u): counter gap but no discontinuity flag", i, d->cc);
        }
        if (gap || pending_gap) VH_COUNT("decaps.discontinuity_flagged_on_gap");
        if (disc && !gap && !pending_gap && !may_disc && !pending_may_disc && expect_idx > 0)
            vh_violation("c15:decaps:spurious-discontinuity",
                         "packet %d (cc %u after %d): discontinuity flagged without counter gap", i, d->cc, last_cc);
        pending_gap = false; pending_masked = 0; pending_may_disc = false;
        expect_idx++;
    }
    tsl_event_hook = NULL;
    /* PCR: not part of the statement; shim/reference cross-check as diagnostic */
    if (pcr_seen_n == exp_pcr) {
        int j = 0;
        bool ok = true;
        for (int i = 0; i < ng && ok; i++) {
            if (!fed[i] || !g[i].d.af_pcr) continue;
            uint64_t v = g[i].d.pcr_base * 300 + g[i].d.pcr_ext;
            if (pcr_seen[j++] != v) ok = false;
        }
        if (ok) VH_ADD("decaps.pcr_values_ok", exp_pcr);
        else vh_diag("c15:decaps:pcr-value", "a clock reference event carries a value different from the reference parser");
    } else
        vh_diag("c15:decaps:pcr-count", "%d clock references for %d packets with PCR", pcr_seen_n, exp_pcr);
    uint64_t lost = 0;
    upipe_ts_decaps_get_packets_lost(dec, &lost);
    tsl_release(&dec);
    vh_count_dyn("%s", lossy ? "decaps.cases_lossy" : "decaps.cases_lossfree");
    VH_ADD("decaps.packets_fed", nfed);
    if (expect_idx) vh_nontrivial(h);
    if (vh_want_sample())
        vh_sample("decaps: %d reference packets of pid %u (%d duplicates, %d dropped) -> %zu payloads, %d PCR events, lost counter %" PRIu64,
                  ng, pid, ndup, ndrop, sink->n, pcr_seen_n, lost);
}

/* ---- ts_split / ts_pid_filter ---- */

static void case_split(struct vh_rng *r)
{
    int npid = 2 + vh_below(r, 3);
    uint16_t pids[4];
    uint8_t cc[4];
    for (int i = 0; i < npid; i++) {
        bool again;
        do {
            pids[i] = vh_chance(r, 1, 4) ? (uint16_t)(vh_chance(r, 1, 2) ? 0 : 8191) : (uint16_t)vh_below(r, 8192);
            again = false;
            for (int j = 0; j < i; j++) if (pids[j] == pids[i]) again = true;
        } while (again);
        cc[i] = (uint8_t)vh_below(r, 16);
    }
    bool use_pidf = vh_chance(r, 1, 3);
    int n = 5 + vh_below(r, 60);
    struct gpkt *g = tsl_alloc(sizeof(*g) * (size_t)n);
    int *which = tsl_alloc(sizeof(int) * (size_t)n);
    uint64_t h = npid + use_pidf * 100;
    for (int i = 0; i < n; i++) {
        int w = vh_below(r, npid);
        which[i] = w;
        gen_packet(r, &g[i], pids[w], !vh_chance(r, 1, 10));
        if (g[i].d.has_payload) cc[w] = (cc[w] + 1) & 0xf;
        g[i].d.cc = cc[w];
        g[i].b[3] = (uint8_t)((g[i].b[3] & 0xf0) | cc[w]);
        h = vh_hash_bytes(h, g[i].b, 8);
    }
    if (!use_pidf) {
        struct upipe *split = alloc_pipe(upipe_ts_split_mgr_alloc(), "ts_split");
        set_flow_def(split, "mpegts.", "ts_split");
        /* outputs: a subset of the PIDs, sometimes two outputs for one PID */
        struct tsl_sink *sinks[6];
        struct upipe *outs[6];
        int out_pid[6], nout = 0;
        for (int i = 0; i < npid && nout < 5; i++) {
            if (i > 0 && vh_chance(r, 1, 4)) continue;      /* PID without output */
            int copies = vh_chance(r, 1, 5) ? 2 : 1;
            for (int c = 0; c < copies; c++) {
                struct uref *fd = uref_block_flow_alloc_def(tsl_uref_mgr, "mpegts.");
                uref_ts_flow_set_pid(fd, pids[i]);
                sinks[nout] = tsl_sink_new("split-out");
                outs[nout] = tsl_track(upipe_flow_alloc_sub(split, uprobe_use(tsl_probe), fd));
                uref_free(fd);
                if (!outs[nout]) vh_violation("tslab:alloc-failed", "cannot allocate ts_split output");
                upipe_set_output(outs[nout], tsl_sink_upipe(sinks[nout]));
                out_pid[nout] = i;
                nout++;
            }
        }
        vh_tr("split pids=%d outputs=%d packets=%d", npid, nout, n);
        size_t *expect = tsl_alloc(sizeof(size_t) * 6);
        for (int i = 0; i < n; i++) {
            struct uref *u = tsl_uref_from_bytes_rnd(r, g[i].b, TSR_SIZE);
            upipe_input(split, u, NULL);
            for (int o = 0; o < nout; o++) {
                bool want = out_pid[o] == which[i];
                if (want) {
                    if (sinks[o]->n != expect[o] + 1)
                        vh_violation("c15:split:packet-lost", "packet %d of pid %u not delivered to its output (%zu received, %zu expected)",
                                     i, g[i].d.pid, sinks[o]->n, expect[o] + 1);
                    struct tsl_rec *rec = &sinks[o]->recs[expect[o]];
                    if (rec->size != TSR_SIZE || memcmp(rec->data, g[i].b, TSR_SIZE))
                        vh_violation("c15:split:packet-modified", "packet %d of pid %u was modified on its way", i, g[i].d.pid);
                    expect[o]++;
                    VH_COUNT("split.delivered");
                } else if (sinks[o]->n != expect[o])
                    vh_violation("c15:split:wrong-output", "packet %d of pid %u delivered to the output of pid %u",
                                 i, g[i].d.pid, pids[out_pid[o]]);
            }
            /* outputs may disappear at any time */
            if (nout > 1 && vh_chance(r, 1, 40)) {
                int o = vh_below(r, nout);
                tsl_release(&outs[o]);
                for (int j = o; j < nout - 1; j++) { outs[j] = outs[j + 1]; sinks[j] = sinks[j + 1]; out_pid[j] = out_pid[j + 1]; expect[j] = expect[j + 1]; }
                nout--;
                VH_COUNT("split.output_removed_midstream");
            }
        }
        for (int o = 0; o < nout; o++) tsl_release(&outs[o]);
        tsl_release(&split);
        VH_COUNT("split.cases");
    } else {
        struct upipe *pf = alloc_pipe(upipe_ts_pidf_mgr_alloc(), "ts_pid_filter");
        set_flow_def(pf, "mpegts.", "ts_pid_filter");
        struct tsl_sink *sink = tsl_sink_new("pidf-out");
        upipe_set_output(pf, tsl_sink_upipe(sink));
        bool en[4] = { false, false, false, false };
        size_t expect = 0;
        for (int i = 0; i < n; i++) {
            if (i == 0 || vh_chance(r, 1, 8)) {
                int w = vh_below(r, npid);
                en[w] = !en[w];
                int err = en[w] ? upipe_ts_pidf_add_pid(pf, pids[w]) : upipe_ts_pidf_del_pid(pf, pids[w]);
                if (!ubase_check(err)) vh_violation("c15:pidf:control-failed", "add/del pid failed");
                VH_COUNT("pidf.filter_changes");
            }
            struct uref *u = tsl_uref_from_bytes_rnd(r, g[i].b, TSR_SIZE);
            upipe_input(pf, u, NULL);
            if (en[which[i]]) {
                if (sink->n != expect + 1)
                    vh_violation("c15:pidf:packet-lost", "packet %d of enabled pid %u not output", i, g[i].d.pid);
                if (sink->recs[expect].size != TSR_SIZE || memcmp(sink->recs[expect].data, g[i].b, TSR_SIZE))
                    vh_violation("c15:pidf:packet-modified", "packet %d modified", i);
                expect++;
                VH_COUNT("pidf.passed");
            } else {
                if (sink->n != expect)
                    vh_violation("c15:pidf:wrong-packet", "packet %d of disabled pid %u was output", i, g[i].d.pid);
                VH_COUNT("pidf.blocked");
            }
        }
        tsl_release(&pf);
        VH_COUNT("pidf.cases");
    }
    vh_nontrivial(h);
}

/* ==================================================================== */
/* access units                                                         */

struct au {
    uint8_t *data;
    size_t size;
    bool random, disc;
    int tsmode;                 /* 0 none, 1 PTS only, 2 DTS + PTS */
    uint64_t pts_prog, dts_prog;
    uint64_t cr_sys, cr_dts_delay, duration;
    size_t off;                 /* offset in the concatenation of all AUs */
};

static uint64_t ts33(uint64_t prog) { return (prog / 300) % POW2_33; }

static size_t gen_au_size(struct vh_rng *r, bool allow_huge)
{
    uint32_t c = vh_below(r, 100);
    if (c < 10) return 1 + vh_below(r, 8);
    if (c < 40) { size_t k = 1 + vh_below(r, 6); return 184 * k + vh_below(r, 41) - 20; }    /* around packet multiples */
    if (c < 90) return 1 + vh_below(r, 3000);
    if (allow_huge && c < 93) { VH_COUNT("gen.au_over_65535"); return 65500 + vh_below(r, 4500); }   /* PES_packet_length 0 rule */
    return 1 + vh_below(r, 12000);
}

static struct au *gen_aus(struct vh_rng *r, int n, bool need_dts, bool allow_huge, uint64_t *hash_p)
{
    struct au *a = tsl_alloc(sizeof(*a) * (size_t)n);
    uint64_t dur = 27000000 / (12 + vh_below(r, 50));
    uint64_t t0;
    switch (vh_below(r, 4)) {
        case 0: t0 = POW2_33 * 300 - dur * (1 + vh_below(r, 5)) - vh_below(r, 300); VH_COUNT("gen.timestamps_near_2^33_wrap"); break;
        case 1: t0 = 27000000ull * (10 + vh_below(r, 100)); break;
        case 2: t0 = POW2_33 * 300 * (1 + vh_below(r, 3)) + vh_rand(r) % (POW2_33 * 300); break;   /* beyond 33 bits */
        default: t0 = 27000000ull * 10 + vh_rand(r) % (POW2_33 * 300); break;
    }
    uint64_t sys0 = (UINT64_C(1) << 33) + vh_below(r, 1000000);
    int mode = need_dts ? 2 : (int)vh_below(r, 4);     /* stream-wide tendency */
    size_t off = 0;
    for (int i = 0; i < n; i++) {
        a[i].size = gen_au_size(r, allow_huge);
        a[i].data = tsl_alloc(a[i].size);
        fill_payload(r, a[i].data, a[i].size);
        a[i].off = off;
        off += a[i].size;
        a[i].random = vh_chance(r, 1, 4);
        a[i].disc = vh_chance(r, 1, 12);
        a[i].tsmode = mode == 3 ? (int)vh_below(r, 3) : mode;
        a[i].dts_prog = t0 + (uint64_t)i * dur;
        uint64_t delay;
        switch (vh_below(r, 5)) {
            case 0: delay = 0; break;
            case 1: delay = vh_below(r, 300); break;            /* may vanish in the 90 kHz rounding */
            case 2: delay = 300 + vh_below(r, 300); break;
            default: delay = dur * (1 + vh_below(r, 4)); break;
        }
        a[i].pts_prog = a[i].dts_prog + delay;
        a[i].cr_sys = sys0 + (uint64_t)i * dur;
        a[i].cr_dts_delay = dur * (1 + vh_below(r, 10));
        a[i].duration = dur;
        vh_count_dyn("gen.au_timestamps.%s", a[i].tsmode == 0 ? "none" : a[i].tsmode == 1 ? "pts" : "pts+dts");
        *hash_p = vh_hash_mix(vh_hash_bytes(*hash_p, a[i].data, a[i].size < 16 ? a[i].size : 16), a[i].size * 4 + a[i].tsmode);
    }
    return a;
}

static struct uref *au_uref(struct vh_rng *r, const struct au *a, bool sys_dates)
{
    struct uref *u = tsl_uref_from_bytes_rnd(r, a->data, a->size);
    if (sys_dates) {
        uref_clock_set_cr_sys(u, a->cr_sys);
        uref_clock_set_cr_dts_delay(u, a->cr_dts_delay);
    }
    if (a->tsmode == 2) {
        uref_clock_set_dts_prog(u, a->dts_prog);
        uref_clock_set_dts_pts_delay(u, a->pts_prog - a->dts_prog);
    } else if (a->tsmode == 1)
        uref_clock_set_pts_prog(u, a->pts_prog);
    if (a->random) uref_flow_set_random(u);
    if (a->disc) uref_flow_set_discontinuity(u);
    uref_clock_set_duration(u, a->duration);
    return u;
}

/* expected coded timestamps of an AU */
static void au_expected_ts(const struct au *a, bool has_opt, int *flags_p, uint64_t *pts_p, uint64_t *dts_p)
{
    *flags_p = 0; *pts_p = *dts_p = 0;
    if (!has_opt || a->tsmode == 0) return;
    *pts_p = ts33(a->pts_prog);
    *dts_p = *pts_p;
    *flags_p = 2;
    if (a->tsmode == 2) {
        *dts_p = ts33(a->dts_prog);
        if (*dts_p != *pts_p) *flags_p = 3;
    }
}

static uint8_t gen_stream_id(struct vh_rng *r, bool video_only)
{
    if (video_only) return (uint8_t)(0xe0 + vh_below(r, 16));
    switch (vh_below(r, 6)) {
        case 0: return 0xbd;                            /* private_stream_1 */
        case 1: return 0xbf;                            /* private_stream_2: no optional header */
        case 2: return (uint8_t)(0xc0 + vh_below(r, 32));   /* audio */
        case 3: return 0xfd;                            /* extended_stream_id */
        default: return (uint8_t)(0xe0 + vh_below(r, 16));  /* video */
    }
}

/* checks a PES header produced by an encapsulation pipe against the AU */
static void check_pes_header(const char *who, const struct pesr_hdr *h, const struct au *a, uint8_t sid,
                             size_t pes_payload, int min_header, bool check_ts)
{
    char key[96];
#define KEY(x) (snprintf(key, sizeof(key), "c15:%s:%s", who, x), key)
    if (h->stream_id != sid)
        vh_violation(KEY("stream-id"), "stream_id 0x%02x, configured 0x%02x", h->stream_id, sid);
    size_t total = (size_t)h->header_size + pes_payload - 6;
    if (h->packet_length != (total > 65535 ? 0 : total))
        vh_violation(KEY("pes-length"), "PES_packet_length %u, header %d + payload %zu octets", h->packet_length, h->header_size, pes_payload);
    if (h->header_size < min_header)
        vh_violation(KEY("pes-header-size"), "PES header %d octets, configured minimum %d", h->header_size, min_header);
    if (check_ts && a) {
        int ef; uint64_t ep, ed;
        au_expected_ts(a, h->has_opt, &ef, &ep, &ed);
        if (ef && !(h->pts_dts_flags & 2))
            vh_violation(KEY("pts-missing"), "AU has a PTS (%" PRIu64 ") but the PES header carries none", a->pts_prog);
        if (!ef && h->pts_dts_flags)
            vh_violation(KEY("pts-invented"), "AU has no timestamp but the PES header carries PTS_DTS_flags %d", h->pts_dts_flags);
        if (ef && h->pts != ep)
            vh_violation(KEY("pts-value"), "PTS coded %" PRIu64 ", expected (pts_prog %" PRIu64 " / 300) mod 2^33 = %" PRIu64, h->pts, a->pts_prog, ep);
        if (ef == 3 && h->pts_dts_flags != 3)
            vh_violation(KEY("dts-missing"), "DTS (%" PRIu64 ") differs from PTS (%" PRIu64 ") in 90 kHz units but is not coded", ed, ep);
        if (h->pts_dts_flags == 3 && h->dts != ed)
            vh_violation(KEY("dts-value"), "DTS coded %" PRIu64 ", expected %" PRIu64, h->dts, ed);
        if (ef == 2 && h->pts_dts_flags == 3)
            vh_diag(KEY("dts-coded-although-equal"), "DTS coded although equal to the PTS in 90 kHz units");
        vh_count_dyn("pes.timestamps_checked.%s", ef == 0 ? "none" : ef == 2 ? "pts" : "pts+dts");
    }
#undef KEY
}

/* decapsulated chunk groups (one group per unit start) against the AUs */
struct group { size_t first, n; size_t size; };

static size_t group_chunks(struct tsl_sink *s, struct group *g, size_t max)
{
    size_t ng = 0;
    for (size_t i = 0; i < s->n; i++) {
        if ((s->recs[i].flags & TSL_F_START) || ng == 0) {
            if (ng == max) break;
            g[ng].first = i; g[ng].n = 0; g[ng].size = 0;
            ng++;
        }
        g[ng - 1].n++;
        g[ng - 1].size += s->recs[i].size;
    }
    return ng;
}

static void check_recovered_au(const char *who, struct tsl_sink *s, const struct group *g, const struct au *a,
                               bool has_opt, bool check_random, int idx)
{
    char key[96];
#define KEY(x) (snprintf(key, sizeof(key), "c15:%s:%s", who, x), key)
    struct tsl_rec *f = &s->recs[g->first];
    if (!(f->flags & TSL_F_START))
        vh_violation(KEY("unit-start-lost"), "AU %d: first recovered chunk has no start flag", idx);
    if (g->size != a->size)
        vh_violation(KEY("au-size"), "AU %d: %zu octets in, %zu octets recovered", idx, a->size, g->size);
    size_t o = 0;
    for (size_t i = 0; i < g->n; i++) {
        struct tsl_rec *c = &s->recs[g->first + i];
        if (memcmp(c->data, a->data + o, c->size))
            vh_violation(KEY("au-bytes"), "AU %d: recovered octets differ at offset %zu..%zu", idx, o, o + c->size);
        if (i > 0 && (c->flags & TSL_F_START))
            vh_violation(KEY("unit-start-misplaced"), "AU %d: start flag on chunk %zu", idx, i);
        o += c->size;
    }
    int ef; uint64_t ep, ed;
    au_expected_ts(a, has_opt, &ef, &ep, &ed);
    if (ef) {
        if (f->dts_orig == UINT64_MAX || f->pts_orig == UINT64_MAX)
            vh_violation(KEY("timestamp-lost"), "AU %d: PTS/DTS not recovered (dts_orig %s, pts_orig %s)", idx,
                         f->dts_orig == UINT64_MAX ? "unset" : "set", f->pts_orig == UINT64_MAX ? "unset" : "set");
        if (f->dts_orig != ed * 300)
            vh_violation(KEY("dts-recovered"), "AU %d: recovered DTS %" PRIu64 " != coded value %" PRIu64 " * 300", idx, f->dts_orig, ed);
        if ((f->pts_orig / 300) % POW2_33 != ep || f->pts_orig % 300)
            vh_violation(KEY("pts-recovered"), "AU %d: recovered PTS %" PRIu64 " != coded value %" PRIu64 " * 300 (mod 2^33)", idx, f->pts_orig, ep);
        VH_COUNT("roundtrip.timestamps_recovered");
    } else if (f->dts_orig != UINT64_MAX || f->pts_orig != UINT64_MAX)
        vh_violation(KEY("timestamp-invented"), "AU %d carries no timestamp but one was recovered", idx);
    if (check_random && !!(f->flags & TSL_F_RANDOM) != a->random)
        vh_violation(KEY("random-access-marker"), "AU %d: random access %d in, %d recovered", idx, a->random, !!(f->flags & TSL_F_RANDOM));
    VH_COUNT("roundtrip.au_recovered");
#undef KEY
}

/* ==================================================================== */
/* pes mode: ts_pes_encaps -> reference parser -> ts_pes_decaps         */

static void case_pes(struct vh_rng *r)
{
    uint64_t h = 0x9e5;
    int n = 1 + vh_below(r, 6);
    uint8_t sid = gen_stream_id(r, false);
    bool has_opt = pesr_streamid_has_opt(sid);
    struct au *a = gen_aus(r, n, false, (sid & 0xf0) == 0xe0, &h);
    int min_header = has_opt && vh_chance(r, 1, 3) ? (int)vh_below(r, 60) : 0;
    vh_tr("pes sid=%02x aus=%d min_header=%d", sid, n, min_header);

    struct tsl_sink *mid = tsl_sink_new("pes");
    struct upipe *enc = alloc_pipe(upipe_ts_pese_mgr_alloc(), "ts_pes_encaps");
    upipe_set_output(enc, tsl_sink_upipe(mid));
    struct uref *fd = uref_block_flow_alloc_def(tsl_uref_mgr, "es.");
    uref_ts_flow_set_pes_id(fd, sid);
    if (min_header) uref_ts_flow_set_pes_header(fd, (uint8_t)min_header);
    int err = upipe_set_flow_def(enc, fd);
    uref_free(fd);
    if (!ubase_check(err)) vh_violation("tslab:flow-def-refused", "ts_pes_encaps refused its flow def (%d)", err);

    struct tsl_sink *out = tsl_sink_new("es");
    struct upipe *dec = alloc_pipe(upipe_ts_pesd_mgr_alloc(), "ts_pes_decaps");
    set_flow_def(dec, "mpegtspes.", "ts_pes_decaps");
    upipe_set_output(dec, tsl_sink_upipe(out));

    for (int i = 0; i < n; i++) {
        size_t before = mid->n;
        upipe_input(enc, au_uref(r, &a[i], false), NULL);
        if (mid->n != before + 1)
            vh_violation("c15:pes_encaps:output-count", "AU %d produced %zu PES buffers", i, mid->n - before);
        struct tsl_rec *p = &mid->recs[before];
        struct pesr_hdr hd;
        int e = pesr_parse(p->data, p->size, &hd);
        if (e)
            vh_violation("c15:pes_encaps:header-malformed", "AU %d: reference PES parser error %d on [%s]", i, e, tsl_hex(p->data, p->size, 24));
        size_t pl = p->size - (size_t)hd.header_size;
        if (pl != a[i].size || memcmp(p->data + hd.header_size, a[i].data, pl))
            vh_violation("c15:pes_encaps:payload-mismatch", "AU %d: PES payload (%zu octets) differs from the AU (%zu octets)", i, pl, a[i].size);
        check_pes_header("pes_encaps", &hd, &a[i], sid, pl, min_header, true);
        if (!(p->flags & TSL_F_START))
            vh_violation("c15:pes_encaps:unit-start-flag", "AU %d: PES buffer without start flag", i);
        VH_COUNT("pes.packets_checked");
        /* cut the PES like TS payloads and decapsulate */
        size_t off = 0;
        bool first = true;
        size_t gfirst = out->n;
        while (off < p->size) {
            size_t c = vh_chance(r, 1, 3) ? 184 : 1 + vh_below(r, 184);
            if (vh_chance(r, 1, 10)) c = 1 + vh_below(r, 6);     /* header split over several payloads */
            if (c > p->size - off) c = p->size - off;
            struct uref *u = tsl_uref_from_bytes_rnd(r, p->data + off, c);
            if (first) { uref_block_set_start(u); if (a[i].random) uref_flow_set_random(u); if (c < (size_t)hd.header_size) VH_COUNT("pes.header_split_over_payloads"); }
            first = false;
            upipe_input(dec, u, NULL);
            off += c;
        }
        struct group g = { gfirst, out->n - gfirst, 0 };
        for (size_t k = 0; k < g.n; k++) g.size += out->recs[gfirst + k].size;
        if (g.n == 0)
            vh_violation("c15:pes_decaps:au-lost", "AU %d (%zu octets, sid 0x%02x, header %d octets): nothing recovered", i, a[i].size, sid, hd.header_size);
        check_recovered_au("pes_decaps", out, &g, &a[i], has_opt, true, i);
        if (hd.packet_length && !(out->recs[out->n - 1].flags & TSL_F_END))
            vh_diag("c15:pes_decaps:end-flag", "bounded PES: last chunk without end flag");
        /* a padding_stream PES (stream_id 0xBE: no optional header, stuffing
         * octets) between two PES packets of the stream, cut into TS payloads
         * like them: it carries no payload of the elementary stream */
        if (vh_chance(r, 1, 3)) {
            size_t plen = vh_chance(r, 1, 2) ? vh_below(r, 179) : 179 + vh_below(r, 1800);
            uint8_t *pad = malloc(6 + plen);
            pad[0] = 0; pad[1] = 0; pad[2] = 1; pad[3] = 0xbe; pad[4] = (uint8_t)(plen >> 8); pad[5] = (uint8_t)plen;
            memset(pad + 6, 0xff, plen);
            size_t nbefore = out->n, poff = 0;
            bool pfirst = true;
            while (poff < 6 + plen) {
                size_t c = vh_chance(r, 2, 3) ? 184 : 1 + vh_below(r, 184);
                if (c > 6 + plen - poff) c = 6 + plen - poff;
                struct uref *u = tsl_uref_from_bytes_rnd(r, pad + poff, c);
                if (pfirst) uref_block_set_start(u);
                pfirst = false;
                upipe_input(dec, u, NULL);
                poff += c;
            }
            free(pad);
            if (out->n != nbefore) {
                size_t got = 0;
                for (size_t k = nbefore; k < out->n; k++) got += out->recs[k].size;
                vh_violation("c15:pes_decaps:padding-stream-output-as-payload", "a padding_stream PES of %zu stuffing octets after AU %d came out as %zu chunks (%zu octets) of elementary stream", plen, i, out->n - nbefore, got);
            }
            VH_COUNT("pes.padding_packets");
            if (plen > 178) VH_COUNT("pes.padding_packets_spanning_payloads");
        }
    }
    tsl_release(&enc);
    tsl_release(&dec);
    vh_count_dyn("pes.stream_id.%s", sid == 0xbf ? "private_2" : sid == 0xbd ? "private_1" : sid == 0xfd ? "extended" : (sid & 0xe0) == 0xc0 ? "audio" : "video");
    VH_COUNT("pes.cases");
    vh_nontrivial(h);
    if (vh_want_sample())
        vh_sample("pes: %d AUs, stream_id 0x%02x, min header %d -> ts_pes_encaps -> reference parser -> ts_pes_decaps, all recovered", n, sid, min_header);
}

/* ==================================================================== */
/* encaps mode                                                          */

static struct {
    uint64_t cr_sys, dts_sys, pcr_sys;
    bool ready;
    unsigned updates;
    int last_cc_event;
} st;

static bool encaps_hook(struct upipe *upipe, int event, va_list args)
{
    if (event == UPROBE_TS_ENCAPS_STATUS) {
        unsigned sig = va_arg(args, unsigned);
        if (sig != UPIPE_TS_ENCAPS_SIGNATURE) return false;
        st.cr_sys = va_arg(args, uint64_t);
        st.dts_sys = va_arg(args, uint64_t);
        st.pcr_sys = va_arg(args, uint64_t);
        st.ready = !!va_arg(args, int);
        st.updates++;
        return true;
    }
    if (event == UPROBE_TS_MUX_LAST_CC) {
        unsigned sig = va_arg(args, unsigned);
        if (sig != UPIPE_TS_MUX_SIGNATURE) return false;
        st.last_cc_event = (int)va_arg(args, unsigned);
        return true;
    }
    return false;
}

struct opk { uint8_t b[TSR_SIZE]; struct tsr_pkt d; };

static void case_encaps(struct vh_rng *r)
{
    uint64_t h = 0xe9ca;
    int n = 1 + vh_below(r, 7);
    uint16_t pid = (uint16_t)(16 + vh_below(r, 8175));
    bool aligned = !vh_chance(r, 1, 4);             /* 1 AU = 1 PES (main workload) */
    uint64_t pcr_interval = vh_chance(r, 1, 2) ? 27000000 / (5 + vh_below(r, 60)) : 0;
    uint8_t sid = gen_stream_id(r, false);
    bool has_opt = pesr_streamid_has_opt(sid);
    bool video = (sid & 0xf0) == 0xe0;
    struct au *a = gen_aus(r, n, pcr_interval != 0, video && aligned, &h);
    int min_header = has_opt && vh_chance(r, 1, 4) ? (int)vh_below(r, 50) : 0;
    uint64_t min_duration = !aligned && vh_chance(r, 1, 2) ? a[0].duration * (1 + vh_below(r, 3)) : 0;
    size_t total = a[n - 1].off + a[n - 1].size;
    uint64_t octetrate = 1000 + vh_below(r, 2000000);
    uint64_t tb_rate = octetrate + vh_below(r, 2000000);
    unsigned cc0 = vh_below(r, 16);

    vh_tr("encaps pid=%u sid=%02x aus=%d aligned=%d pcr_interval=%" PRIu64 " min_header=%d min_duration=%" PRIu64,
          pid, sid, n, aligned, pcr_interval, min_header, min_duration);

    memset(&st, 0, sizeof(st));
    st.cr_sys = st.dts_sys = st.pcr_sys = UINT64_MAX;
    st.last_cc_event = -1;
    tsl_event_hook = encaps_hook;

    struct tsl_sink *fdsink = tsl_sink_new("encaps-flowdef");
    struct upipe *enc = alloc_pipe(upipe_ts_encaps_mgr_alloc(), "ts_encaps");
    upipe_set_output(enc, tsl_sink_upipe(fdsink));
    struct uref *fd = uref_block_flow_alloc_def(tsl_uref_mgr, "es.");
    uref_block_flow_set_octetrate(fd, octetrate);
    uref_ts_flow_set_tb_rate(fd, tb_rate);
    uref_ts_flow_set_pid(fd, pid);
    uref_ts_flow_set_pes_id(fd, sid);
    if (aligned) uref_ts_flow_set_pes_alignment(fd);
    if (min_header) uref_ts_flow_set_pes_header(fd, (uint8_t)min_header);
    if (min_duration) uref_ts_flow_set_pes_min_duration(fd, min_duration);
    if (vh_chance(r, 1, 4)) uref_ts_flow_set_max_delay(fd, 27000000ull / (1 + vh_below(r, 10)));
    int err = upipe_set_flow_def(enc, fd);
    uref_free(fd);
    if (!ubase_check(err)) vh_violation("tslab:flow-def-refused", "ts_encaps refused its flow def (%d)", err);
    if (pcr_interval && !ubase_check(upipe_ts_mux_set_pcr_interval(enc, pcr_interval)))
        vh_violation("c15:encaps:control-failed", "set_pcr_interval failed");
    if (!ubase_check(upipe_ts_mux_set_cc(enc, cc0)))
        vh_violation("c15:encaps:control-failed", "set_cc failed");

    /* the mux */
    size_t maxpk = total / 150 + (size_t)n * 4 + 400;
    struct opk *pk = tsl_alloc(sizeof(*pk) * maxpk);
    size_t npk = 0;
    uint64_t mux_sys = a[0].cr_sys - 27000000;
    int fed = 0, paddings = 0;
    bool eos = false;
    for (;;) {
        bool can_splice = st.cr_sys != UINT64_MAX && st.ready;
        if (!can_splice) {
            if (fed < n) {
                int k = 1 + vh_below(r, 3);
                while (k-- && fed < n) { upipe_input(enc, au_uref(r, &a[fed], true), NULL); fed++; }
                continue;
            }
            if (!eos) { upipe_ts_encaps_eos(enc); eos = true; continue; }
            break;
        }
        struct ubuf *ub = NULL;
        uint64_t dts = 0;
        bool want_padding = false;
        if (st.cr_sys > mux_sys) {
            /* nothing due yet: either jump to the due date or ask for a
             * payload-less packet (PCR only when one is due) */
            uint64_t step = 1 + vh_below(r, 27000000 / 50);
            if (paddings < 6 && vh_chance(r, 1, 4) && mux_sys + step < st.cr_sys &&
                (st.dts_sys == UINT64_MAX || mux_sys + step + 1000 < st.dts_sys)) {
                mux_sys += step;
                want_padding = true;
                paddings++;
            } else mux_sys = st.cr_sys;
        } else mux_sys += 1 + vh_below(r, 2000);
        uint64_t max = want_padding ? mux_sys + 1000 : mux_sys + 27000000 / 100;
        err = upipe_ts_encaps_splice(enc, mux_sys, max, &ub, &dts);
        if (!ubase_check(err) || !ub)
            vh_violation("c15:encaps:splice-failed", "splice returned %d (ubuf %s) after %zu packets", err, ub ? "set" : "NULL", npk);
        size_t sz = 0;
        ubuf_block_size(ub, &sz);
        if (sz != TSR_SIZE) {
            ubuf_free(ub);
            vh_violation("c15:encaps:packet-size", "packet %zu has %zu octets", npk, sz);
        }
        if (npk == maxpk) { ubuf_free(ub); vh_violation("c15:encaps:too-many-packets", "more than %zu packets for %zu payload octets", maxpk, total); }
        ubuf_block_extract(ub, 0, TSR_SIZE, pk[npk].b);
        ubuf_free(ub);
        npk++;
    }
    unsigned cc_end = 99;
    upipe_ts_mux_get_cc(enc, &cc_end);
    tsl_release(&enc);
    tsl_event_hook = NULL;

    /* ---- reference parser over the emitted packets ---- */
    struct tsl_buf *pes = tsl_buf_new();       /* current PES */
    struct tsl_buf *esall = tsl_buf_new();     /* all PES payloads */
    uint8_t cc = (uint8_t)cc0;
    int npes = 0, nload = 0, nnoload = 0;
    bool in_pes = false;
    /* per PES bookkeeping */
    size_t pes_es_start[64];
    struct pesr_hdr pes_hdr[64];
    bool pes_rai[64], pes_disc[64];
    size_t cur_hdr_need = 0;
    bool hdr_done = false;
    for (size_t i = 0; i < npk; i++) {
        struct tsr_pkt *d = &pk[i].d;
        if (pk[i].b[0] != 0x47)
            vh_violation("c15:encaps:sync-byte", "packet %zu starts with 0x%02x", i, pk[i].b[0]);
        int e = tsr_parse(pk[i].b, TSR_SIZE, d);
        if (e)
            vh_violation("c15:encaps:packet-malformed", "packet %zu: reference parser error %d: %s", i, e, tsl_hex(pk[i].b, TSR_SIZE, 16));
        if (d->pid != pid)
            vh_violation("c15:encaps:pid", "packet %zu carries pid %u, configured %u", i, d->pid, pid);
        if (d->has_payload && d->payload_len > 0) { cc = (cc + 1) & 0xf; nload++; }
        else { nnoload++; VH_COUNT("encaps.payloadless_packets"); if (d->af_pcr) VH_COUNT("encaps.payloadless_with_pcr"); }
        if (d->cc != cc)
            vh_violation(d->has_payload ? "c15:encaps:continuity-counter" : "c15:encaps:continuity-counter-payloadless",
                         "packet %zu (%s): continuity_counter %u, expected %u", i, d->has_payload ? "payload" : "no payload", d->cc, cc);
        vh_count_dyn("encaps.af.%s", af_class(d));
        if (d->tei || d->scrambling)
            vh_violation("c15:encaps:header-bits", "packet %zu: transport_error %d scrambling %d", i, d->tei, d->scrambling);
        if (!d->has_payload) {
            if (d->pusi) vh_violation("c15:encaps:unit-start-misplaced", "payload-less packet %zu with payload_unit_start_indicator", i);
            continue;
        }
        const uint8_t *pl = pk[i].b + d->payload_off;
        if (d->pusi) {
            if (in_pes && !hdr_done)
                vh_violation("c15:encaps:pes-header-truncated", "new unit start at packet %zu before the previous PES header was complete", i);
            if (npes == 64) vh_violation("c15:encaps:too-many-packets", "more than 64 PES packets");
            tsl_buf_reset(pes);
            in_pes = true; hdr_done = false; cur_hdr_need = 6;
            pes_rai[npes] = d->af_rai;
            pes_disc[npes] = d->af_disc;
            npes++;
        } else {
            if (!in_pes) vh_violation("c15:encaps:unit-start-missing", "payload packet %zu before any unit start", i);
            if (aligned && (d->af_rai || d->af_disc))
                vh_violation("c15:encaps:marker-misplaced", "packet %zu (not a unit start) carries random_access %d discontinuity %d",
                             i, d->af_rai, d->af_disc);
        }
        tsl_buf_put(pes, pl, (size_t)d->payload_len);
        if (!hdr_done) {
            struct pesr_hdr *hd = &pes_hdr[npes - 1];
            int pe = pesr_parse(pes->p, pes->n, hd);
            if (pe == -1) continue;     /* header not complete yet */
            if (pe)
                vh_violation("c15:encaps:pes-header-malformed", "PES %d: reference parser error %d on [%s]", npes - 1, pe, tsl_hex(pes->p, pes->n, 24));
            hdr_done = true;
            pes_es_start[npes - 1] = esall->n;
            tsl_buf_put(esall, pes->p + hd->header_size, pes->n - (size_t)hd->header_size);
        } else
            tsl_buf_put(esall, pl, (size_t)d->payload_len);
    }
    (void)cur_hdr_need;
    if (in_pes && !hdr_done)
        vh_violation("c15:encaps:pes-header-truncated", "stream ends inside a PES header");
    if (cc_end != cc)
        vh_violation("c15:encaps:continuity-counter", "get_cc reports %u after the last packet, last counter emitted %u", cc_end, cc);
    if (st.last_cc_event != -1 && (unsigned)st.last_cc_event != cc_end)
        vh_diag("c15:encaps:last-cc-event", "LAST_CC event %d, get_cc %u", st.last_cc_event, cc_end);
    VH_ADD("encaps.packets_checked", npk);
    VH_ADD("encaps.payload_packets", nload);

    /* payload conservation */
    if (esall->n != total)
        vh_violation("c15:encaps:es-size", "%zu octets of access units in, %zu octets of PES payload in the packets", total, esall->n);
    for (int i = 0; i < n; i++)
        if (memcmp(esall->p + a[i].off, a[i].data, a[i].size))
            vh_violation("c15:encaps:es-bytes", "AU %d: octets differ in the emitted packets", i);
    /* PES level */
    if (aligned && npes != n)
        vh_violation("c15:encaps:pes-count", "%d AUs with PES alignment but %d unit starts", n, npes);
    for (int p = 0; p < npes; p++) {
        size_t start = pes_es_start[p];
        size_t end = p + 1 < npes ? pes_es_start[p + 1] : esall->n;
        /* first AU commencing in this PES */
        const struct au *fa = NULL;
        for (int i = 0; i < n; i++) if (a[i].off >= start && a[i].off < end) { fa = &a[i]; break; }
        if (aligned) {
            if (!fa || fa->off != start || fa != &a[p])
                vh_violation("c15:encaps:pes-alignment", "PES %d does not start at the beginning of AU %d", p, p);
            check_pes_header("encaps", &pes_hdr[p], fa, sid, end - start, min_header, true);
            if (pes_hdr[p].has_opt && !pes_hdr[p].alignment)
                vh_violation("c15:encaps:alignment-flag", "PES %d: data_alignment_indicator not set although PES alignment is configured", p);
            if (pes_rai[p] != fa->random)
                vh_violation("c15:encaps:random-access-marker", "AU %d random=%d but random_access_indicator=%d on its first packet", p, fa->random, pes_rai[p]);
            if (pes_disc[p] != fa->disc)
                vh_violation("c15:encaps:discontinuity-marker", "AU %d discontinuity=%d but discontinuity_indicator=%d on its first packet", p, fa->disc, pes_disc[p]);
            VH_COUNT("encaps.aligned_pes_checked");
        } else {
            check_pes_header("encaps", &pes_hdr[p], NULL, sid, end - start, min_header, false);
            if (pes_hdr[p].pts_dts_flags && fa && fa->tsmode) {
                int ef; uint64_t ep, ed;
                au_expected_ts(fa, true, &ef, &ep, &ed);
                if (pes_hdr[p].pts != ep)
                    vh_violation("c15:encaps:pts-value", "PES %d (no alignment): PTS %" PRIu64 " is not the PTS %" PRIu64 " of the first AU commencing in it",
                                 p, pes_hdr[p].pts, ep);
                VH_COUNT("encaps.unaligned_pts_checked");
            }
            if (fa && fa->off != start) VH_COUNT("encaps.pes_starting_inside_an_au");
            VH_COUNT("encaps.unaligned_pes_checked");
        }
    }

    /* ---- real decapsulation chain ---- */
    struct tsl_sink *out = tsl_sink_new("es");
    struct upipe *dec = alloc_pipe(upipe_ts_decaps_mgr_alloc(), "ts_decaps");
    struct upipe *pesd = alloc_pipe(upipe_ts_pesd_mgr_alloc(), "ts_pes_decaps");
    set_flow_def(pesd, "mpegtspes.", "ts_pes_decaps");
    upipe_set_output(pesd, tsl_sink_upipe(out));
    set_flow_def(dec, "mpegts.mpegtspes.", "ts_decaps");
    upipe_set_output(dec, pesd);
    for (size_t i = 0; i < npk; i++)
        upipe_input(dec, tsl_uref_from_bytes_rnd(r, pk[i].b, TSR_SIZE), NULL);
    tsl_release(&dec);
    tsl_release(&pesd);
    struct group g[65];
    size_t ng = group_chunks(out, g, 65);
    if (aligned) {
        if (ng != (size_t)n)
            vh_violation("c15:roundtrip:au-count", "%d AUs in, %zu units recovered by ts_decaps + ts_pes_decaps (%d PES, %zu packets)", n, ng, npes, npk);
        for (int i = 0; i < n; i++)
            check_recovered_au("roundtrip", out, &g[i], &a[i], has_opt, true, i);
    } else {
        struct tsl_buf *rec = tsl_sink_concat(out);
        if (rec->n != total || memcmp(rec->p, esall->p, total))
            vh_violation("c15:roundtrip:es-bytes", "%zu octets in, %zu octets recovered by the decapsulation chain (no PES alignment)", total, rec->n);
        VH_COUNT("roundtrip.unaligned_streams_recovered");
    }
    for (size_t i = 1; i < out->n; i++)
        if (out->recs[i].flags & TSL_F_DISC) {
            /* the only legitimate source is the AU discontinuity marker */
            bool ok = false;
            for (int k = 0; k < n; k++) if (a[k].disc) ok = true;
            if (!ok) vh_violation("c15:roundtrip:spurious-discontinuity", "chunk %zu flagged discontinuous on a loss-free stream", i);
        }
    vh_count_dyn("encaps.stream_id.%s", sid == 0xbf ? "private_2" : sid == 0xbd ? "private_1" : sid == 0xfd ? "extended" : (sid & 0xe0) == 0xc0 ? "audio" : "video");
    vh_count_dyn("%s", aligned ? "encaps.cases_aligned" : "encaps.cases_unaligned");
    if (pcr_interval) VH_COUNT("encaps.cases_with_pcr");
    vh_nontrivial(h);
    if (vh_want_sample())
        vh_sample("encaps: %d AUs (%zu octets) pid %u stream_id 0x%02x aligned=%d pcr=%d -> %zu packets (%d payload-less), %d PES, recovered by ts_decaps+ts_pes_decaps",
                  n, total, pid, sid, aligned, pcr_interval != 0, npk, nnoload, npes);
}

/* ==================================================================== */
/* corrupt mode                                                         */

static void case_corrupt(struct vh_rng *r)
{
    uint64_t h = 0xc0;
    uint16_t pid = (uint16_t)vh_below(r, 8192);
    int n = 1 + vh_below(r, 30);
    struct tsl_sink *tsout = tsl_sink_new("ts-payload");
    struct tsl_sink *out = tsl_sink_new("es");
    struct upipe *dec = alloc_pipe(upipe_ts_decaps_mgr_alloc(), "ts_decaps");
    struct upipe *dec2 = alloc_pipe(upipe_ts_decaps_mgr_alloc(), "ts_decaps");
    struct upipe *pesd = alloc_pipe(upipe_ts_pesd_mgr_alloc(), "ts_pes_decaps");
    struct upipe *split = alloc_pipe(upipe_ts_split_mgr_alloc(), "ts_split");
    struct upipe *pf = alloc_pipe(upipe_ts_pidf_mgr_alloc(), "ts_pid_filter");
    set_flow_def(pesd, "mpegtspes.", "ts_pes_decaps");
    upipe_set_output(pesd, tsl_sink_upipe(out));
    set_flow_def(dec, "mpegts.mpegtspes.", "ts_decaps");
    upipe_set_output(dec, pesd);
    set_flow_def(dec2, "mpegts.", "ts_decaps");
    upipe_set_output(dec2, tsl_sink_upipe(tsout));
    set_flow_def(split, "mpegts.", "ts_split");
    set_flow_def(pf, "mpegts.", "ts_pid_filter");
    struct tsl_sink *so = tsl_sink_new("split-out"), *po = tsl_sink_new("pidf-out");
    struct uref *fd = uref_block_flow_alloc_def(tsl_uref_mgr, "mpegts.");
    uref_ts_flow_set_pid(fd, pid);
    struct upipe *sub = tsl_track(upipe_flow_alloc_sub(split, uprobe_use(tsl_probe), fd));
    uref_free(fd);
    if (sub) upipe_set_output(sub, tsl_sink_upipe(so));
    upipe_set_output(pf, tsl_sink_upipe(po));
    upipe_ts_pidf_add_pid(pf, pid);
    upipe_ts_pidf_add_pid(pf, (uint16_t)vh_below(r, 8192));

    struct tsl_buf *payloads = tsl_buf_new();   /* everything ts_decaps gave to ts_pes_decaps is a slice of the fed packets */
    struct tsl_buf *allin = tsl_buf_new();
    uint8_t cc = 0;
    vh_tr("corrupt pid=%u packets=%d", pid, n);
    for (int i = 0; i < n; i++) {
        struct gpkt g;
        gen_packet(r, &g, pid, !vh_chance(r, 1, 8));
        if (g.d.has_payload) cc = (cc + 1) & 0xf;
        g.b[3] = (uint8_t)((g.b[3] & 0xf0) | cc);
        /* something PES-like at unit starts */
        if (g.d.pusi && g.d.payload_len >= 20) {
            struct pesr_hdr ph = { .stream_id = gen_stream_id(r, false), .packet_length = vh_below(r, 400),
                                   .pts_dts_flags = (uint8_t)(vh_below(r, 3) == 0 ? 0 : 1 + vh_below(r, 2) + 0) };
            if (ph.pts_dts_flags == 1) ph.pts_dts_flags = 2;
            ph.pts = vh_rand(r) & (POW2_33 - 1); ph.dts = vh_rand(r) & (POW2_33 - 1);
            uint8_t tmp[300];
            int hs = pesr_build(tmp, &ph, vh_below(r, 4));
            if (hs <= g.d.payload_len) memcpy(g.b + g.d.payload_off, tmp, (size_t)hs);
        }
        uint8_t buf[400];
        size_t len = TSR_SIZE;
        memcpy(buf, g.b, TSR_SIZE);
        uint32_t c = vh_below(r, 100);
        const char *what;
        if (c < 15) { what = "wellformed"; }
        else if (c < 35) { tsl_corrupt(r, TSL_COR_BITFLIP, buf, 12); what = "header-bitflip"; }
        else if (c < 45) { tsl_corrupt(r, (enum tsl_corrupt)vh_below(r, TSL_COR_NB), buf, len); what = "any-corruption"; }
        else if (c < 60) { len = vh_below(r, TSR_SIZE); what = "truncated"; }
        else if (c < 65) { len = TSR_SIZE + 1 + vh_below(r, 200); fill_payload(r, buf + TSR_SIZE, len - TSR_SIZE); what = "oversize"; }
        else if (c < 80) { buf[3] |= 0x20; buf[4] = (uint8_t)(184 + vh_below(r, 72)); what = "af_length>183"; }
        else if (c < 85) { buf[3] |= 0x20; buf[4] = (uint8_t)vh_below(r, 184); buf[5] |= 0x10; if (vh_chance(r, 1, 2)) len = 6 + vh_below(r, 8); what = "pcr-flag-short-af"; }
        else if (c < 95) { /* PES header corruption */
            if (g.d.has_payload && g.d.payload_len > 9) {
                uint8_t *p = buf + g.d.payload_off;
                buf[1] |= 0x40;
                p[0] = 0; p[1] = 0; p[2] = 1; p[3] = gen_stream_id(r, false);
                p[4] = (uint8_t)vh_below(r, 2); p[5] = (uint8_t)vh_rand(r);
                p[6] = 0x80; p[7] = (uint8_t)(vh_below(r, 4) << 6); p[8] = (uint8_t)vh_rand(r);   /* header_data_length arbitrary */
            }
            what = "pes-header-lengths";
        } else { tsl_corrupt(r, TSL_COR_RANDOM_ALL, buf, len); if (vh_chance(r, 1, 2)) buf[0] = 0x47; what = "random"; }
        vh_count_dyn("corrupt.fed.%s", what);
        h = vh_hash_bytes(h, buf, len < 16 ? len : 16) + len;
        tsl_buf_put(allin, buf, len);
        size_t before = tsout->n;
        upipe_input(dec2, tsl_uref_from_bytes_rnd(r, buf, len), NULL);
        upipe_input(dec, tsl_uref_from_bytes_rnd(r, buf, len), NULL);
        upipe_input(split, tsl_uref_from_bytes_rnd(r, buf, len), NULL);
        upipe_input(pf, tsl_uref_from_bytes_rnd(r, buf, len), NULL);
        if (tsout->n > before + 1)
            vh_violation("c15:decaps:payload-extra", "one corrupt packet (%s) gave %zu outputs", what, tsout->n - before);
        if (tsout->n == before + 1) {
            struct tsl_rec *o = &tsout->recs[before];
            /* ts_decaps only removes a prefix: the output must be a suffix of the fed buffer */
            if (o->size > len || memcmp(o->data, buf + (len - o->size), o->size))
                vh_violation("c15:decaps:bytes-not-from-packet", "corrupt packet (%s, %zu octets): output of %zu octets is not a suffix of it", what, len, o->size);
            tsl_buf_put(payloads, o->data, o->size);
            VH_COUNT("corrupt.decaps_outputs_checked");
        }
    }
    tsl_release(&dec); tsl_release(&dec2); tsl_release(&pesd);
    tsl_release(&sub); tsl_release(&split); tsl_release(&pf);
    /* ts_pes_decaps outputs: in-order slices of the TS payloads */
    size_t pos = 0;
    for (size_t i = 0; i < out->n; i++) {
        struct tsl_rec *o = &out->recs[i];
        if (!o->size) continue;
        const uint8_t *q = memmem(payloads->p + pos, payloads->n - pos, o->data, o->size);
        if (!q)
            vh_violation("c15:pes_decaps:bytes-not-from-input", "chunk %zu (%zu octets) is not an in-order slice of the TS payloads", i, o->size);
        pos = (size_t)(q - payloads->p) + o->size;
        VH_COUNT("corrupt.pesd_outputs_checked");
    }
    for (size_t i = 0; i < so->n; i++)
        if (!tsl_contains(allin->p, allin->n, so->recs[i].data, so->recs[i].size))
            vh_violation("c15:split:packet-modified", "ts_split output %zu is not one of the fed buffers", i);
    for (size_t i = 0; i < po->n; i++)
        if (!tsl_contains(allin->p, allin->n, po->recs[i].data, po->recs[i].size))
            vh_violation("c15:pidf:packet-modified", "ts_pid_filter output %zu is not one of the fed buffers", i);
    VH_ADD("corrupt.packets_fed", n);
    VH_COUNT("corrupt.cases");
    vh_nontrivial(h);
}

/* PES bytes (well-formed or not) straight into ts_pes_decaps */
static void case_corrupt_pes(struct vh_rng *r)
{
    uint64_t h = 0xc1;
    struct tsl_sink *out = tsl_sink_new("es");
    struct upipe *pesd = alloc_pipe(upipe_ts_pesd_mgr_alloc(), "ts_pes_decaps");
    set_flow_def(pesd, "mpegtspes.", "ts_pes_decaps");
    upipe_set_output(pesd, tsl_sink_upipe(out));
    struct tsl_buf *allin = tsl_buf_new();
    int n = 1 + vh_below(r, 12);
    for (int i = 0; i < n; i++) {
        uint8_t buf[600];
        struct pesr_hdr ph = { .stream_id = vh_chance(r, 1, 8) ? (uint8_t)vh_rand(r) : gen_stream_id(r, false),
                               .pts_dts_flags = (uint8_t)(vh_below(r, 3) == 0 ? 0 : 2 + vh_below(r, 2)) };
        ph.pts = vh_rand(r) & (POW2_33 - 1); ph.dts = vh_rand(r) & (POW2_33 - 1);
        ph.alignment = vh_chance(r, 1, 2);
        size_t pl = vh_below(r, 300);
        int hs = pesr_build(buf, &ph, vh_below(r, 20));
        size_t len = (size_t)hs + pl;
        fill_payload(r, buf + hs, pl);
        uint32_t c = vh_below(r, 100);
        uint32_t plen = (uint32_t)(len - 6);
        if (c < 20) plen = 0;                                            /* unbounded */
        else if (c < 40) plen = vh_below(r, 20);                         /* shorter than the header */
        else if (c < 50) plen = (uint32_t)len + vh_below(r, 100);        /* longer than the data */
        buf[4] = (uint8_t)(plen >> 8); buf[5] = (uint8_t)plen;
        if (c >= 50 && c < 70 && hs >= 9) buf[8] = (uint8_t)vh_rand(r);  /* header_data_length arbitrary */
        if (c >= 70 && c < 80) tsl_corrupt(r, TSL_COR_BITFLIP, buf, (size_t)hs);
        if (c >= 80 && c < 85) tsl_corrupt(r, TSL_COR_RANDOM_ALL, buf, len);
        if (c >= 85 && c < 90) len = vh_below(r, (uint32_t)hs + 1);      /* truncated inside the header */
        VH_COUNT("corrupt.pes_units_fed");
        h = vh_hash_bytes(h, buf, len < 24 ? len : 24);
        tsl_buf_put(allin, buf, len);
        size_t off = 0;
        bool first = true;
        do {
            size_t k = vh_chance(r, 1, 3) ? len - off : vh_below(r, 190);
            if (k > len - off) k = len - off;
            struct uref *u = tsl_uref_from_bytes_rnd(r, buf + off, k);
            if (first && !vh_chance(r, 1, 15)) uref_block_set_start(u);
            if (vh_chance(r, 1, 30)) uref_flow_set_discontinuity(u);
            first = false;
            upipe_input(pesd, u, NULL);
            off += k;
        } while (off < len);
    }
    tsl_release(&pesd);
    size_t pos = 0;
    for (size_t i = 0; i < out->n; i++) {
        struct tsl_rec *o = &out->recs[i];
        if (!o->size) continue;
        const uint8_t *q = memmem(allin->p + pos, allin->n - pos, o->data, o->size);
        if (!q)
            vh_violation("c15:pes_decaps:bytes-not-from-input", "chunk %zu (%zu octets) is not an in-order slice of the input", i, o->size);
        pos = (size_t)(q - allin->p) + o->size;
        VH_COUNT("corrupt.pesd_outputs_checked");
    }
    VH_COUNT("corrupt.pes_cases");
    vh_nontrivial(h);
}

/* ==================================================================== */

static void run_case(struct vh_rng *r)
{
    tsl_case_begin(r);
    tsl_event_hook = NULL;
    const char *m = vh_opts.mode;
    uint32_t c = vh_below(r, 100);
    if (!strcmp(m, "encaps")) c = 0;
    else if (!strcmp(m, "pes")) c = 30;
    else if (!strcmp(m, "decaps")) c = 45 + vh_below(r, 35);
    else if (!strcmp(m, "corrupt")) c = 80 + vh_below(r, 20);
    if (c < 30) case_encaps(r);
    else if (c < 45) case_pes(r);
    else if (c < 70) case_decaps(r);
    else if (c < 80) case_split(r);
    else if (c < 94) case_corrupt(r);
    else case_corrupt_pes(r);
    if (tsl_ev.fatal) VH_ADD("probe.fatal_events", tsl_ev.fatal);
}

static const struct vh_lab lab = { .name = "ts_encap", .init = tsl_init, .run_case = run_case, .fini = tsl_fini };

int main(int argc, char **argv)
{
    return vh_main(argc, argv, &lab);
}
