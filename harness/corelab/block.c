/* C03 (segmented blocks behave like byte strings) and the block part of C02
 * (copy-on-write isolation between handles sharing memory).
 *
 * Every live handle has a private byte-vector model.  After every operation
 * all handles are compared with their models (isolation), the handles the
 * operation touched additionally run the full accessor battery. */
#include "vh.h"

#include "upipe/ubase.h"
#include "upipe/umem.h"
#include "upipe/umem_alloc.h"
#include "upipe/umem_pool.h"
#include "upipe/udict.h"
#include "upipe/udict_inline.h"
#include "upipe/uref.h"
#include "upipe/uref_std.h"
#include "upipe/ubuf.h"
#include "upipe/ubuf_block.h"
#include "upipe/ubuf_block_mem.h"
#include "upipe/ubuf_block_stream.h"
#include "upipe/uref_block.h"

#include <stdlib.h>
#include <string.h>
#include <sys/uio.h>

#define MAXH 8
#define MAXN 8192

struct hnd {
    struct uref *uref;
    uint8_t *m;         /* model */
    int n;
    bool fresh;         /* memory known to be owned by this handle only */
    int mgr;
};

static struct hnd H[MAXH];
static int nh;
static struct umem_mgr *umem_mgr;
static struct udict_mgr *udict_mgr;
static struct uref_mgr *uref_mgr;
#define NMGR 8
static struct ubuf_mgr *mgrs[NMGR];
static struct vh_rng *R;
static bool mode_c02;
static uint64_t case_hash;
static int case_maxseg;
static uint8_t next_fill;

#define UB(h) ((h)->uref->ubuf)

static const char *opname = "";

/* ---------- helpers ---------- */

static void fill_random(uint8_t *p, int n)
{
    /* few distinct values so that scan/find hit often, with some structure */
    int style = vh_below(R, 3);
    for (int i = 0; i < n; i++) {
        if (style == 0) p[i] = (uint8_t)vh_below(R, 4);
        else if (style == 1) p[i] = next_fill++;
        else p[i] = (uint8_t)vh_rand(R);
    }
}

static struct ubuf *alloc_filled(int mgr, const uint8_t *src, int n)
{
    struct ubuf *u = ubuf_block_alloc(mgrs[mgr], n);
    if (!u) vh_violation("c03:alloc-failed", "ubuf_block_alloc(%d) failed", n);
    if (n) {
        size_t lin = 0;
        if (!ubase_check(ubuf_block_size_linear(u, 0, &lin)) || (int)lin != n) {
            ubuf_free(u);
            vh_violation("c03:fresh-not-contiguous", "fresh block of %d octets has linear size %zu at 0", n, lin);
        }
        uint8_t *w; int ws = -1;
        if (!ubase_check(ubuf_block_write(u, 0, &ws, &w)) || ws != n) {
            ubuf_free(u);
            vh_violation("c02:fresh-write-refused", "write mapping refused on a fresh block (size %d, got %d)", n, ws);
        }
        memcpy(w, src, n);
        ubuf_block_unmap(u, 0);
    }
    return u;
}

static struct hnd *new_handle(struct ubuf *ubuf, const uint8_t *m, int n, bool fresh, int mgr)
{
    if (nh >= MAXH) abort();
    struct hnd *h = &H[nh++];
    h->uref = uref_alloc(uref_mgr);
    uref_attach_ubuf(h->uref, ubuf);
    h->m = malloc(n ? n : 1);
    memcpy(h->m, m, n);
    h->n = n;
    h->fresh = fresh;
    h->mgr = mgr;
    return h;
}

static void drop_handle(int i)
{
    uref_free(H[i].uref);
    free(H[i].m);
    H[i] = H[--nh];
}

static void model_set(struct hnd *h, const uint8_t *m, int n)
{
    uint8_t *nm = malloc(n ? n : 1);
    memcpy(nm, m, n);
    free(h->m);
    h->m = nm;
    h->n = n;
}

static int nsegs(struct hnd *h)
{
    if (h->n == 0) return 1;
    return ubuf_block_iovec_count(UB(h), 0, -1);
}

/* segment boundaries seen through size_linear (black box) */
static int boundaries(struct hnd *h, int *b, int max)
{
    int nb = 0, off = 0;
    while (off < h->n && nb < max) {
        size_t lin;
        if (!ubase_check(ubuf_block_size_linear(UB(h), off, &lin)) || lin == 0)
            break;
        off += (int)lin;
        b[nb++] = off;
    }
    return nb;
}

/* offset generator; classes per DESIGN: interior, boundary +-1, 0, n, n+-1,
 * negative-from-end, far out of range */
static int gen_off(struct hnd *h, bool allow_far)
{
    int n = h->n;
    int c = vh_below(R, allow_far ? 14 : 12);
    if (c >= 12 && vh_chance(R, 1, 2)) c = 0;
    switch (c) {
        case 0: case 1: case 2: case 3:
            return n ? (int)vh_below(R, n) : 0;
        case 4: case 5: {
            int b[32];
            int nb = boundaries(h, b, 32);
            if (!nb) return 0;
            return b[vh_below(R, nb)] + (int)vh_below(R, 3) - 1;
        }
        case 6: return 0;
        case 7: return n;
        case 8: return n - 1;
        case 9: return n ? -(int)(1 + vh_below(R, n)) : -1;
        case 10: return -n;
        case 11: return n ? n / 2 : 0;
        case 12: return n + 1 + (int)vh_below(R, 40);
        default: return -(n + 1 + (int)vh_below(R, 40));
    }
}

/* normalise a documented offset (negative = from end); returns false when the
 * offset does not designate a position inside [0, n) */
static bool norm_off(int n, int off, int *abs_p)
{
    if (off < 0) off += n;
    *abs_p = off;
    return off >= 0 && off < n;
}

static int gen_size(int avail, bool allow_over)
{
    int c = vh_below(R, allow_over ? 10 : 8);
    if (c >= 8 && vh_chance(R, 1, 2)) c = 4;
    if (avail < 0) avail = 0;
    switch (c) {
        case 0: return -1;
        case 1: return avail;
        case 2: return avail ? 1 : 0;
        case 3: return 0;
        case 8: return avail + 1;
        case 9: return avail + 2 + (int)vh_below(R, 60);
        default: return avail ? (int)vh_below(R, avail + 1) : 0;
    }
}

/* ---------- content check through extract (cheap; run on all handles) ---- */

static void check_content(struct hnd *h, const char *why)
{
    size_t sz = (size_t)-1;
    if (!ubase_check(ubuf_block_size(UB(h), &sz)) || (int)sz != h->n)
        vh_violation(mode_c02 ? "c02:sibling-size-changed" : "c03:size",
                     "after %s (%s): size %zu, model %d", opname, why, sz, h->n);
    if (!h->n) return;
    uint8_t *buf = malloc(h->n);
    int err = ubuf_block_extract(UB(h), 0, -1, buf);
    if (!ubase_check(err)) {
        free(buf);
        vh_violation("c03:extract-failed", "after %s (%s): extract(0,-1) of %d octets failed (%d)", opname, why, h->n, err);
    }
    if (memcmp(buf, h->m, h->n)) {
        int k = 0; while (buf[k] == h->m[k]) k++;
        uint8_t got = buf[k];
        free(buf);
        vh_violation(!strcmp(why, "sibling") ? "c02:sibling-content-changed" : "c03:content",
                     "after %s (%s): octet %d/%d is %02x, model %02x", opname, why, k, h->n, got, h->m[k]);
    }
    free(buf);
}

/* ---------- the accessor battery ---------- */

static void battery(struct hnd *h)
{
    struct ubuf *u = UB(h);
    int n = h->n;
    const uint8_t *m = h->m;
    VH_COUNT("battery.runs");
    /* the first accesses after a mutation are at random offsets: a linear
     * walk from 0 would repair a stale lookup cache before it is observed */
    int segs = 1;

    for (int rep = 0; rep < 3; rep++) {
        int off = gen_off(h, true), a;
        bool in = norm_off(n, off, &a);
        /* size_linear */
        size_t lin = 0;
        int err = ubuf_block_size_linear(u, off, &lin);
        if (in) {
            if (!ubase_check(err) || lin == 0 || (int)lin > n - a)
                vh_violation("c03:size_linear", "after %s: size_linear(%d) on %d octets -> err %d lin %zu", opname, off, n, err, lin);
        } else if (ubase_check(err))
            vh_violation(off < 0 ? "c03:oob-accepted:negative-offset" : "c03:oob-accepted:size_linear", "after %s: size_linear(%d) accepted on %d octets", opname, off, n);
        /* read */
        int want = gen_size(in ? n - a : 0, true);
        int rs = want;
        const uint8_t *p = NULL;
        err = ubuf_block_read(u, off, &rs, &p);
        if (in) {
            int lim = want == -1 ? n - a : want;
            if (lim > n - a) lim = n - a;
            if (!ubase_check(err) || rs > lim || (lim > 0 && rs <= 0) || rs > (int)lin)
                vh_violation("c03:read", "after %s: read(%d,%d) on %d octets -> err %d size %d (lin %zu)", opname, off, want, n, err, rs, lin);
            if (rs > 0 && memcmp(p, m + a, rs))
                vh_violation("c03:read-content", "after %s: read(%d,%d) returns wrong octets", opname, off, want);
            if (!ubase_check(ubuf_block_unmap(u, off)))
                vh_violation("c03:unmap", "after %s: unmap(%d) failed", opname, off);
            VH_COUNT("acc.read");
        } else if (ubase_check(err))
            vh_violation(off < 0 ? "c03:oob-accepted:negative-offset" : "c03:oob-accepted:read", "after %s: read(%d,%d) accepted on %d octets", opname, off, want, n);
        /* peek */
        {
            int sz = gen_size(in ? n - a : 0, true);
            int eff = sz == -1 ? (off < 0 ? -off : n - off) : sz;
            uint8_t *bounce = malloc(eff > 0 ? eff : 1);
            memset(bounce, 0xEE, eff > 0 ? eff : 1);
            if (eff >= 1 && eff <= MAXN) {
                const uint8_t *q = ubuf_block_peek(u, off, sz, bounce);
                bool ok = in && a + eff <= n;
                if (ok) {
                    if (!q || memcmp(q, m + a, eff)) { free(bounce);
                        vh_violation("c03:peek", "after %s: peek(%d,%d) on %d octets -> %s", opname, off, sz, n, q ? "wrong octets" : "NULL"); }
                    if (q == bounce) VH_COUNT("acc.peek_bounce"); else VH_COUNT("acc.peek_inplace");
                    ubuf_block_peek_unmap(u, off, bounce, q);
                } else if (q) { free(bounce);
                    vh_violation((off < 0 && !in) ? "c03:oob-accepted:negative-offset" : "c03:oob-accepted:peek", "after %s: peek(%d,%d) accepted on %d octets", opname, off, sz, n); }
            }
            free(bounce);
        }
        /* extract */
        {
            int sz = gen_size(in ? n - a : 0, true);
            int eff = sz == -1 ? (off < 0 ? -off : n - off) : sz;
            if (eff >= 0 && eff <= MAXN) {
                uint8_t *out = malloc(eff ? eff : 1);
                err = ubuf_block_extract(u, off, sz, out);
                bool ok = (in && a + eff <= n) || (eff == 0);
                if (ok) {
                    if (!ubase_check(err) || (eff && memcmp(out, m + a, eff))) { free(out);
                        vh_violation("c03:extract", "after %s: extract(%d,%d) on %d octets -> err %d", opname, off, sz, n, err); }
                    VH_COUNT("acc.extract");
                } else if (ubase_check(err)) { free(out);
                    vh_violation((off < 0 && !in) ? "c03:oob-accepted:negative-offset" : "c03:oob-accepted:extract", "after %s: extract(%d,%d) accepted on %d octets", opname, off, sz, n); }
                free(out);
            }
        }
        /* iovec */
        if (in) {
            int sz = gen_size(n - a, false);
            int eff = sz == -1 ? n - a : sz;
            int cnt = ubuf_block_iovec_count(u, off, sz);
            if (cnt < 0 || (eff > 0 && cnt < 1) || cnt > eff + 1)
                vh_violation("c03:iovec_count", "after %s: iovec_count(%d,%d) on %d octets = %d", opname, off, sz, n, cnt);
            struct iovec *iov = calloc(cnt + 1, sizeof(*iov));
            err = ubuf_block_iovec_read(u, off, sz, iov);
            if (!ubase_check(err)) { free(iov); vh_violation("c03:iovec_read", "after %s: iovec_read(%d,%d) failed", opname, off, sz); }
            int pos = 0;
            for (int i = 0; i < cnt; i++) {
                if (pos + (int)iov[i].iov_len > eff || memcmp(iov[i].iov_base, m + a + pos, iov[i].iov_len)) { free(iov);
                    vh_violation("c03:iovec-content", "after %s: iovec %d of %d wrong (off %d size %d)", opname, i, cnt, off, sz); }
                pos += iov[i].iov_len;
            }
            if (pos != eff) { free(iov); vh_violation("c03:iovec-total", "after %s: iovecs cover %d octets, wanted %d", opname, pos, eff); }
            ubuf_block_iovec_unmap(u, off, sz, iov);
            free(iov);
            VH_COUNT("acc.iovec");
        }
    }
    check_content(h, "self");
    segs = nsegs(h);
    if (segs > case_maxseg) case_maxseg = segs;
    if (segs >= 3) VH_COUNT("battery.on_3plus_segments");
    if (segs < 0) vh_violation("c03:iovec_count", "after %s: iovec_count(0,-1) = %d on %d octets", opname, segs, n);
    /* scan */
    if (n) {
        size_t from = vh_below(R, n + 1);
        uint8_t w = vh_chance(R, 3, 4) ? m[vh_below(R, n)] : (uint8_t)vh_rand(R);
        size_t exp = from; while (exp < (size_t)n && m[exp] != w) exp++;
        size_t o = from;
        int err = ubuf_block_scan(u, &o, w);
        if (o != exp || ubase_check(err) != (exp < (size_t)n))
            vh_violation("c03:scan", "after %s: scan(from %zu, %02x) on %d octets -> err %d off %zu, expected %zu", opname, from, w, n, err, o, exp);
        VH_COUNT("acc.scan");
        /* find 2-4 octets */
        int k = 2 + vh_below(R, 3);
        uint8_t wd[4];
        if (vh_chance(R, 3, 4)) {
            int at = vh_below(R, n);
            for (int i = 0; i < k; i++) wd[i] = at + i < n ? m[at + i] : (uint8_t)vh_rand(R);
        } else for (int i = 0; i < k; i++) wd[i] = (uint8_t)vh_below(R, 4);
        from = vh_below(R, n + 1);
        /* reference */
        size_t i = from; bool found = false;
        for (;;) {
            while (i < (size_t)n && m[i] != wd[0]) i++;
            if (i >= (size_t)n) { i = n; break; }
            if (i + k > (size_t)n) break;          /* first candidate, not enough octets */
            if (!memcmp(m + i, wd, k)) { found = true; break; }
            i++;
        }
        o = from;
        if (k == 2) err = ubuf_block_find(u, &o, 2, wd[0], wd[1]);
        else if (k == 3) err = ubuf_block_find(u, &o, 3, wd[0], wd[1], wd[2]);
        else err = ubuf_block_find(u, &o, 4, wd[0], wd[1], wd[2], wd[3]);
        if (o != i || ubase_check(err) != found)
            vh_violation("c03:find", "after %s: find(from %zu, %d octets) on %d octets -> err %d off %zu, expected %s at %zu", opname, from, k, n, err, o, found ? "found" : "not found", i);
        VH_COUNT("acc.find");
    }
    /* match */
    {
        int k = 1 + vh_below(R, 6);
        uint8_t f[8], mk[8];
        bool expect = k <= n;
        for (int i = 0; i < k; i++) {
            mk[i] = vh_chance(R, 1, 3) ? 0xff : (uint8_t)vh_rand(R);
            if (i < n && vh_chance(R, 7, 8)) f[i] = m[i] & mk[i];
            else f[i] = (uint8_t)vh_rand(R) & mk[i];
            if (i < n && (m[i] & mk[i]) != f[i]) expect = false;
        }
        int err = ubuf_block_match(u, f, mk, k);
        if (ubase_check(err) != expect)
            vh_violation("c03:match", "after %s: match(size %d) on %d octets -> %d, expected %s", opname, k, n, err, expect ? "match" : "no match");
        VH_COUNT("acc.match");
    }
    /* compare / equal against a freshly built small block */
    {
        int off = n ? vh_below(R, n + 1) : 0;
        int len = gen_size(n - off, true);
        if (len < 0) len = n - off;
        if (len > MAXN) len = MAXN;
        uint8_t *tmp = malloc(len ? len : 1);
        for (int i = 0; i < len; i++) tmp[i] = off + i < n ? m[off + i] : 0x5a;
        bool expect = off + len <= n;
        if (len && vh_chance(R, 1, 3)) { int at = vh_below(R, len); tmp[at] ^= 0x40; if (off + at < n) expect = false; }
        struct ubuf *small = alloc_filled(vh_below(R, NMGR), tmp, len);
        if (len > 2 && vh_chance(R, 1, 2)) {
            /* segment it */
            struct ubuf *tail = ubuf_block_split(small, 1 + vh_below(R, len - 1));
            if (tail) ubuf_block_append(small, tail);
        }
        int err = ubuf_block_compare(u, off, small);
        if (ubase_check(err) != expect) { ubuf_free(small); free(tmp);
            vh_violation("c03:compare", "after %s: compare(off %d, small %d) on %d octets -> %d, expected %s", opname, off, len, n, err, expect ? "equal" : "different"); }
        bool eq_expect = len == n && !memcmp(tmp, m, n);
        err = ubuf_block_equal(u, small);
        if (ubase_check(err) != eq_expect) { ubuf_free(small); free(tmp);
            vh_violation("c03:equal", "after %s: equal(small %d) on %d octets -> %d, expected %d", opname, len, n, err, eq_expect); }
        ubuf_free(small);
        free(tmp);
        VH_COUNT("acc.compare");
    }
    /* octet stream walk */
    if (n) {
        int off = vh_below(R, n);
        struct ubuf_block_stream s;
        if (!ubase_check(ubuf_block_stream_init(&s, u, off)))
            vh_violation("c03:stream-init", "after %s: stream_init(%d) failed on %d octets", opname, off, n);
        for (int i = off; i < n; i++) {
            uint8_t o;
            if (!ubase_check(ubuf_block_stream_get(&s, &o)) || o != m[i]) {
                ubuf_block_stream_clean(&s);
                vh_violation("c03:stream-get", "after %s: stream octet %d/%d wrong", opname, i, n);
            }
        }
        uint8_t o;
        if (ubase_check(ubuf_block_stream_get(&s, &o)))
            vh_violation("c03:stream-past-end", "after %s: stream returned an octet past the end (%d)", opname, n);
        ubuf_block_stream_clean(&s);
        VH_COUNT("acc.stream");
    }
}

static void check_all_others(struct hnd *a, struct hnd *b)
{
    for (int i = 0; i < nh; i++)
        if (&H[i] != a && &H[i] != b)
            check_content(&H[i], "sibling");
}

/* After an operation outside the documented argument domain: an error must
 * leave the block unchanged; a success must leave a consistent byte string,
 * which the model adopts. */
static void judge_out_of_domain(struct hnd *h, bool success, const char *op)
{
    if (!success) {
        VH_COUNT("ood.error");
        size_t sz = 0;
        ubuf_block_size(UB(h), &sz);
        uint8_t *buf = malloc(h->n ? h->n : 1);
        bool same = (int)sz == h->n &&
            (h->n == 0 || (ubase_check(ubuf_block_extract(UB(h), 0, -1, buf)) && !memcmp(buf, h->m, h->n)));
        free(buf);
        if (!same) {
            char key[96];
            snprintf(key, sizeof(key), "c03:error-but-changed:%s", op);
            vh_violation(key, "%s reported an error but the block changed (size %zu, model %d)", opname, sz, h->n);
        }
        return;
    }
    VH_COUNT("ood.success");
    size_t sz = 0;
    ubuf_block_size(UB(h), &sz);
    if (sz > MAXN * 4) {
        char key[96];
        snprintf(key, sizeof(key), "c03:inconsistent-after:%s", op);
        vh_violation(key, "%s succeeded and left size %zu", opname, sz);
    }
    uint8_t *buf = malloc(sz ? sz : 1);
    if (sz && !ubase_check(ubuf_block_extract(UB(h), 0, -1, buf))) {
        free(buf);
        char key[96];
        snprintf(key, sizeof(key), "c03:inconsistent-after:%s", op);
        vh_violation(key, "%s succeeded but the block is no longer a byte string: size %zu, extract(0,-1) fails", opname, sz);
    }
    model_set(h, buf, (int)sz);
    free(buf);
}

/* ---------- operations ---------- */

static char opbuf[200];
#define OP(...) do { snprintf(opbuf, sizeof(opbuf), __VA_ARGS__); opname = opbuf; vh_tr("%s", opbuf); case_hash = vh_hash_bytes(case_hash, opbuf, strlen(opbuf)); } while (0)

static int idx(struct hnd *h) { return (int)(h - H); }

static struct hnd *pick(void) { return &H[vh_below(R, nh)]; }

static void op_alloc(void)
{
    if (nh >= MAXH) return;
    int mgr = vh_below(R, NMGR);
    int n = vh_chance(R, 1, 40) ? 4096 : vh_chance(R, 1, 10) ? 0 : (int)vh_below(R, 97);
    uint8_t *tmp = malloc(n ? n : 1);
    fill_random(tmp, n);
    /* alloc_from_opaque(0) cannot map a zero-size block and reports failure:
     * not generated (noted in DESIGN.md) */
    bool opaque = n > 0 && vh_chance(R, 1, 3);
    OP("h%d=%s(mgr%d,%d)", nh, opaque ? "alloc_from_opaque" : "alloc", mgr, n);
    struct ubuf *u;
    if (opaque) {
        u = ubuf_block_alloc_from_opaque(mgrs[mgr], tmp, n);
        if (!u) { free(tmp); vh_violation("c03:alloc-failed", "alloc_from_opaque(%d) failed", n); }
    } else
        u = alloc_filled(mgr, tmp, n);
    struct hnd *h = new_handle(u, tmp, n, true, mgr);
    free(tmp);
    VH_COUNT("op.alloc");
    battery(h);
}

static void op_free(void)
{
    if (nh <= 1) return;
    int i = vh_below(R, nh);
    OP("free(h%d)", i);
    drop_handle(i);
    VH_COUNT("op.free");
    check_all_others(NULL, NULL);
}

static void op_dup(void)
{
    if (nh >= MAXH) return;
    struct hnd *h = pick();
    bool via_uref = vh_chance(R, 1, 2);
    OP("h%d=%s(h%d)", nh, via_uref ? "uref_dup" : "ubuf_dup", idx(h));
    struct ubuf *d;
    if (via_uref) {
        struct uref *nu = uref_dup(h->uref);
        if (!nu) vh_violation("c03:dup-failed", "uref_dup failed");
        d = uref_detach_ubuf(nu);
        uref_free(nu);
    } else
        d = ubuf_dup(UB(h));
    if (!d) vh_violation("c03:dup-failed", "ubuf_dup failed");
    struct hnd *nhd = new_handle(d, h->m, h->n, false, h->mgr);
    h->fresh = false;
    VH_COUNT("op.dup");
    /* a handle with a live duplicate and no operation since must be refused
     * a write mapping */
    if (h->n && vh_chance(R, 1, 2)) {
        struct hnd *t = vh_chance(R, 1, 2) ? h : nhd;
        int off = vh_below(R, t->n);
        int ws = -1; uint8_t *w;
        int err = ubuf_block_write(UB(t), off, &ws, &w);
        if (ubase_check(err)) {
            ubuf_block_unmap(UB(t), off);
            vh_violation("c02:write-granted-on-shared", "write(%d) granted on h%d right after dup (both handles alive)", off, idx(t));
        }
        VH_COUNT("c02.refusal_checked");
    }
    battery(nhd);
    check_content(h, "self");
}

static void op_write(void)
{
    struct hnd *h = pick();
    if (!h->n) return;
    int off = gen_off(h, false), a;
    if (!norm_off(h->n, off, &a)) return;
    int want = gen_size(h->n - a, false);
    OP("write(h%d,%d,%d)", idx(h), off, want);
    int ws = want; uint8_t *w = NULL;
    int err = ubuf_block_write(UB(h), off, &ws, &w);
    if (!ubase_check(err)) {
        VH_COUNT("c02.write_refused");
        if (h->fresh)
            vh_violation("c02:fresh-write-refused", "write(%d,%d) refused (%d) on a handle whose memory was never shared", off, want, err);
        check_content(h, "self");
        return;
    }
    int lim = want == -1 ? h->n - a : want;
    if (ws > lim || ws > h->n - a || (lim > 0 && ws <= 0)) {
        ubuf_block_unmap(UB(h), off);
        vh_violation("c03:write-size", "write(%d,%d) on %d octets granted %d", off, want, h->n, ws);
    }
    for (int i = 0; i < ws; i++) { w[i] = (uint8_t)vh_rand(R); h->m[a + i] = w[i]; }
    ubuf_block_unmap(UB(h), off);
    VH_COUNT("c02.write_granted");
    check_content(h, "self");
    check_all_others(h, NULL);
}

static void op_append(void)
{
    if (nh < 2) return;
    int i = vh_below(R, nh), j = vh_below(R, nh);
    if (i == j) return;
    struct hnd *a = &H[i], *b = &H[j];
    if (a->n + b->n > MAXN) return;
    bool via = vh_chance(R, 1, 2);
    OP("%s(h%d,h%d)", via ? "uref_block_append" : "append", i, j);
    struct ubuf *bu = uref_detach_ubuf(b->uref);
    int err = via ? uref_block_append(a->uref, bu) : ubuf_block_append(UB(a), bu);
    if (!ubase_check(err)) { ubuf_free(bu); vh_violation("c03:append-failed", "append failed %d", err); }
    uint8_t *nm = malloc(a->n + b->n + 1);
    memcpy(nm, a->m, a->n); memcpy(nm + a->n, b->m, b->n);
    int nn = a->n + b->n;
    bool fresh = a->fresh && b->fresh;
    free(a->m); a->m = nm; a->n = nn; a->fresh = fresh;
    /* b is consumed */
    drop_handle(j);
    a = (i == nh) ? &H[j] : &H[i];
    VH_COUNT("op.append");
    battery(a);
    check_all_others(a, NULL);
}

static void op_insert(void)
{
    if (nh < 2) return;
    int i = vh_below(R, nh), j = vh_below(R, nh);
    if (i == j) return;
    struct hnd *a = &H[i], *b = &H[j];
    if (a->n + b->n > MAXN) return;
    int off = gen_off(a, true);
    bool via = vh_chance(R, 1, 2);
    OP("%s(h%d,%d,h%d)", via ? "uref_block_insert" : "insert", i, off, j);
    bool documented = off >= 0 && off < a->n;
    struct ubuf *bu = uref_detach_ubuf(b->uref);
    int err = via ? uref_block_insert(a->uref, off, bu) : ubuf_block_insert(UB(a), off, bu);
    VH_COUNT("op.insert");
    if (!ubase_check(err)) {
        uref_attach_ubuf(b->uref, bu); /* still ours */
        if (documented)
            vh_violation("c03:insert-failed", "insert at %d in %d octets failed (%d)", off, a->n, err);
        judge_out_of_domain(a, false, "insert");
        check_content(b, "self");
        return;
    }
    int bn = b->n;
    uint8_t *bm = malloc(bn + 1); memcpy(bm, b->m, bn);
    bool bfresh = b->fresh;
    drop_handle(j);
    a = (i == nh) ? &H[j] : &H[i];
    if (documented) {
        uint8_t *nm = malloc(a->n + bn + 1);
        memcpy(nm, a->m, off); memcpy(nm + off, bm, bn); memcpy(nm + off + bn, a->m + off, a->n - off);
        free(a->m); a->m = nm; a->n += bn;
    } else
        judge_out_of_domain(a, true, "insert");
    free(bm);
    a->fresh = false; (void)bfresh; /* slicing makes two segments share one area */
    battery(a);
    check_all_others(a, NULL);
}

static void op_delete(void)
{
    struct hnd *h = pick();
    int off = gen_off(h, true), a;
    bool in = norm_off(h->n, off, &a);
    int sz = gen_size(in ? h->n - a : 5, true);
    bool via = vh_chance(R, 1, 2);
    OP("%s(h%d,%d,%d)", via ? "uref_block_delete" : "delete", idx(h), off, sz);
    int eff = sz == -1 ? h->n - a : sz;
    bool documented = off >= 0 && in && eff >= 0 && a + eff <= h->n;
    int err = via ? uref_block_delete(h->uref, off, sz) : ubuf_block_delete(UB(h), off, sz);
    VH_COUNT("op.delete");
    if (documented) {
        if (!ubase_check(err))
            vh_violation("c03:delete-failed", "delete(%d,%d) on %d octets failed (%d)", off, sz, h->n, err);
        memmove(h->m + a, h->m + a + eff, h->n - a - eff);
        h->n -= eff;
        h->fresh = false; /* deleting may slice a segment in two */
    } else {
        judge_out_of_domain(h, ubase_check(err), "delete");
        h->fresh = false;
    }
    battery(h);
    check_all_others(h, NULL);
}

static void op_truncate(void)
{
    struct hnd *h = pick();
    int off;
    int c = vh_below(R, 8);
    if (c == 0) off = h->n + 1 + vh_below(R, 20);
    else if (c == 1) off = h->n;
    else if (c == 2) off = 0;
    else { off = gen_off(h, false); if (off < 0) off += h->n; if (off < 0) off = 0; }
    bool via = vh_chance(R, 1, 2);
    OP("%s(h%d,%d)", via ? "uref_block_truncate" : "truncate", idx(h), off);
    bool documented = off >= 0 && off <= h->n;
    int err = via ? uref_block_truncate(h->uref, off) : ubuf_block_truncate(UB(h), off);
    VH_COUNT("op.truncate");
    if (documented) {
        if (!ubase_check(err))
            vh_violation("c03:truncate-failed", "truncate(%d) on %d octets failed (%d)", off, h->n, err);
        h->n = off;
    } else
        judge_out_of_domain(h, ubase_check(err), "truncate");
    battery(h);
    check_all_others(h, NULL);
}

static void op_resize(void)
{
    struct hnd *h = pick();
    int off = gen_off(h, true);
    int a = off < 0 ? off + h->n : off;
    int ns = gen_size(h->n - a, true);
    bool via = vh_chance(R, 1, 2);
    OP("%s(h%d,%d,%d)", via ? "uref_block_resize" : "resize", idx(h), off, ns);
    bool documented = a >= 0 && a <= h->n && (ns == -1 || (ns >= 0 && a + ns <= h->n));
    int err = via ? uref_block_resize(h->uref, off, ns) : ubuf_block_resize(UB(h), off, ns);
    VH_COUNT("op.resize");
    if (documented) {
        if (!ubase_check(err))
            vh_violation("c03:resize-failed", "resize(%d,%d) on %d octets failed (%d)", off, ns, h->n, err);
        int eff = ns == -1 ? h->n - a : ns;
        memmove(h->m, h->m + a, eff);
        h->n = eff;
    } else
        judge_out_of_domain(h, ubase_check(err), "resize");
    battery(h);
    check_all_others(h, NULL);
}

static void op_prepend(void)
{
    struct hnd *h = pick();
    int p = vh_chance(R, 1, 6) ? 0 : vh_chance(R, 1, 4) ? 33 + (int)vh_below(R, 40) : 1 + (int)vh_below(R, 12);
    if (h->n + p > MAXN) return;
    bool via = vh_chance(R, 1, 2);
    OP("%s(h%d,%d)", via ? "uref_block_prepend" : "prepend", idx(h), p);
    int err = via ? uref_block_prepend(h->uref, p) : ubuf_block_prepend(UB(h), p);
    VH_COUNT("op.prepend");
    if (!ubase_check(err)) {
        VH_COUNT("op.prepend_refused");
        judge_out_of_domain(h, false, "prepend");
        return;
    }
    VH_COUNT("op.prepend_ok");
    /* new leading octets are unspecified: size must be n+p, tail must be the
     * old content; the model adopts the revealed octets */
    if (h->n) {
        /* probe a former octet first, at a random position */
        int at = vh_below(R, h->n);
        int rs = 1; const uint8_t *q;
        if (!ubase_check(ubuf_block_read(UB(h), p + at, &rs, &q)) || rs != 1 || *q != h->m[at])
            vh_violation("c03:prepend-content", "after prepend(%d) on %d octets, octet %d does not read back as former octet %d", p, h->n, p + at, at);
        ubuf_block_unmap(UB(h), p + at);
    }
    size_t sz = 0;
    ubuf_block_size(UB(h), &sz);
    if ((int)sz != h->n + p)
        vh_violation("c03:prepend-size", "prepend(%d) on %d octets gives size %zu", p, h->n, sz);
    uint8_t *nm = malloc(sz ? sz : 1);
    if (sz && !ubase_check(ubuf_block_extract(UB(h), 0, -1, nm))) { free(nm);
        vh_violation("c03:prepend-content", "after prepend(%d) on %d octets extract(0,-1) fails", p, h->n); }
    if (memcmp(nm + p, h->m, h->n)) { free(nm);
        vh_violation("c03:prepend-content", "after prepend(%d) the former %d octets changed or moved", p, h->n); }
    free(h->m); h->m = nm; h->n = (int)sz;
    if (p) h->fresh = false; /* revealed octets may belong to a parent buffer */
    battery(h);
    check_all_others(h, NULL);
}

static void op_splice(void)
{
    if (nh >= MAXH) return;
    struct hnd *h = pick();
    int off = gen_off(h, true), a;
    bool in = norm_off(h->n, off, &a);
    int sz = gen_size(in ? h->n - a : 3, true);
    bool via = vh_chance(R, 1, 2);
    OP("h%d=%s(h%d,%d,%d)", nh, via ? "uref_block_splice" : "splice", idx(h), off, sz);
    int eff = sz == -1 ? h->n - a : sz;
    bool documented = in && eff >= 0 && a + eff <= h->n;
    struct ubuf *s;
    if (via) {
        struct uref *nu = uref_block_splice(h->uref, off, sz);
        s = nu ? uref_detach_ubuf(nu) : NULL;
        if (nu) uref_free(nu);
    } else
        s = ubuf_block_splice(UB(h), off, sz);
    VH_COUNT("op.splice");
    if (documented) {
        if (!s) vh_violation("c03:splice-failed", "splice(%d,%d) on %d octets failed", off, sz, h->n);
        struct hnd *nhd = new_handle(s, h->m + a, eff, false, h->mgr);
        h->fresh = false;
        battery(nhd);
        check_content(h, "self");
    } else if (s) {
        if (!in && off < 0) { ubuf_free(s); vh_violation("c03:oob-accepted:negative-offset", "splice(%d,%d) accepted on %d octets", off, sz, h->n); }
        struct hnd *nhd = new_handle(s, h->m, 0, false, h->mgr);
        h->fresh = false;
        judge_out_of_domain(nhd, true, "splice");
        /* whatever it is, it can only contain octets of the source range */
        if (in && (nhd->n > h->n - a || memcmp(nhd->m, h->m + a, nhd->n)))
            vh_violation("c03:inconsistent-after:splice", "splice(%d,%d) on %d octets returned %d octets that are not the source range", off, sz, h->n, nhd->n);
        battery(nhd);
        check_content(h, "self");
    } else {
        VH_COUNT("ood.error");
        check_content(h, "self");
    }
}

static void op_split(void)
{
    if (nh >= MAXH) return;
    struct hnd *h = pick();
    int off = gen_off(h, true), a;
    bool in = norm_off(h->n, off, &a);
    bool via = vh_chance(R, 1, 2);
    OP("h%d=%s(h%d,%d)", nh, via ? "uref_block_split" : "split", idx(h), off);
    struct ubuf *s;
    if (via) {
        struct uref *nu = uref_block_split(h->uref, off);
        s = nu ? uref_detach_ubuf(nu) : NULL;
        if (nu) uref_free(nu);
    } else
        s = ubuf_block_split(UB(h), off);
    VH_COUNT("op.split");
    if (in) {
        if (!s) vh_violation("c03:split-failed", "split(%d) on %d octets failed", off, h->n);
        struct hnd *nhd = new_handle(s, h->m + a, h->n - a, false, h->mgr);
        h->n = a;
        h->fresh = false;
        battery(nhd);
        battery(h);
        check_all_others(h, nhd);
    } else if (s) {
        if (off < 0) { ubuf_free(s); vh_violation("c03:oob-accepted:negative-offset", "split(%d) accepted on %d octets", off, h->n); }
        struct hnd *nhd = new_handle(s, h->m, 0, false, h->mgr);
        judge_out_of_domain(nhd, true, "split");
        judge_out_of_domain(h, true, "split");
        h->fresh = false;
    } else
        judge_out_of_domain(h, false, "split");
}

static void op_copy_merge(void)
{
    struct hnd *h = pick();
    bool merge = vh_chance(R, 1, 2);
    if (!merge && nh >= MAXH) return;
    int mgr = vh_below(R, NMGR);
    int skip;
    int c = vh_below(R, 8);
    if (c == 0) skip = -(int)(1 + vh_below(R, 12));
    else if (c == 1) skip = h->n + 1 + vh_below(R, 10);
    else if (c == 2) skip = h->n;
    else if (c == 3) skip = 0;
    else skip = h->n ? (int)vh_below(R, h->n + 1) : 0;
    int ns;
    c = vh_below(R, 8);
    if (c == 0) ns = -1;
    else if (c == 1) ns = (h->n - skip) + 1 + (int)vh_below(R, 20);   /* extend at the end */
    else if (c == 2) ns = skip < 0 ? -skip - 1 : 0;
    else { int av = h->n - skip; ns = av > 0 ? (int)vh_below(R, av + 1) : 0; }
    bool via = merge && vh_chance(R, 1, 2);
    OP("%s%s(mgr%d,h%d,%d,%d)", merge ? "" : "hN=", merge ? (via ? "uref_block_merge" : "merge") : "copy", mgr, idx(h), skip, ns);
    int eff = ns == -1 ? h->n - skip : ns;
    /* a zero-size result cannot be mapped by the implementation and is
     * reported as an error: judged by the weak rule only */
    bool in_domain = skip <= h->n && (ns == -1 || (ns >= -skip && ns >= 0));
    /* ... and so is a copy that takes no octet from the source */
    bool documented = in_domain && eff > 0 &&
        (eff - (skip < 0 ? -skip : 0)) > 0 && h->n - (skip < 0 ? 0 : skip) > 0;
    if (eff > MAXN) return;
    struct ubuf *nu = NULL;
    int err = UBASE_ERR_NONE;
    if (merge) {
        if (via) err = uref_block_merge(h->uref, mgrs[mgr], skip, ns);
        else err = ubuf_block_merge(mgrs[mgr], &h->uref->ubuf, skip, ns);
    } else {
        nu = ubuf_block_copy(mgrs[mgr], UB(h), skip, ns);
        err = nu ? UBASE_ERR_NONE : UBASE_ERR_INVALID;
    }
    VH_COUNT("op.copy_merge");
    if (!ubase_check(err)) {
        if (documented)
            vh_violation("c03:copy-failed", "%s(skip %d,size %d) on %d octets failed", merge ? "merge" : "copy", skip, ns, h->n);
        judge_out_of_domain(h, false, merge ? "merge" : "copy");
        return;
    }
    if (!in_domain) {
        if (nu) ubuf_free(nu);
        vh_violation("c03:oob-accepted:copy", "%s(skip %d,size %d) accepted on %d octets", merge ? "merge" : "copy", skip, ns, h->n);
    }
    /* expected content: copied range known, the rest unspecified */
    struct ubuf *res = merge ? UB(h) : nu;
    size_t sz = 0;
    ubuf_block_size(res, &sz);
    size_t lin = 0;
    if ((int)sz != eff || (sz && (!ubase_check(ubuf_block_size_linear(res, 0, &lin)) || lin != sz))) {
        if (nu) ubuf_free(nu);
        vh_violation("c03:copy-size", "%s(skip %d,size %d) on %d octets gives size %zu linear %zu (expected %d, contiguous)", merge ? "merge" : "copy", skip, ns, h->n, sz, lin, eff);
    }
    uint8_t *nm = malloc(sz ? sz : 1);
    if (sz && !ubase_check(ubuf_block_extract(res, 0, -1, nm))) { free(nm); if (nu) ubuf_free(nu);
        vh_violation("c03:copy-content", "extract of the copy failed"); }
    int dst = skip < 0 ? -skip : 0, src = skip < 0 ? 0 : skip;
    int cp = eff - dst; if (cp > h->n - src) cp = h->n - src; if (cp < 0) cp = 0;
    if (cp && memcmp(nm + dst, h->m + src, cp)) { free(nm); if (nu) ubuf_free(nu);
        vh_violation("c03:copy-content", "%s(skip %d,size %d): copied range differs from source", merge ? "merge" : "copy", skip, ns); }
    if (merge) {
        free(h->m); h->m = nm; h->n = (int)sz; h->fresh = true; h->mgr = mgr;
        battery(h);
        check_all_others(h, NULL);
    } else {
        struct hnd *nhd = new_handle(nu, nm, (int)sz, true, mgr);
        free(nm);
        battery(nhd);
        check_content(h, "self");
    }
}

static void run_case(struct vh_rng *r)
{
    R = r;
    case_hash = 0;
    case_maxseg = 0;
    /* leftovers of an aborted case */
    while (nh) drop_handle(0);
    int nops = mode_c02 ? 25 : 30;
    op_alloc();
    if (vh_chance(R, 1, 2)) op_alloc();
    for (int i = 0; i < nops; i++) {
        int c = vh_below(R, 100);
        if (mode_c02) {
            if (c < 10) op_alloc();
            else if (c < 28) op_dup();
            else if (c < 48) op_write();
            else if (c < 58) op_splice();
            else if (c < 64) op_split();
            else if (c < 72) op_insert();
            else if (c < 78) op_append();
            else if (c < 84) op_delete();
            else if (c < 88) op_resize();
            else if (c < 91) op_prepend();
            else if (c < 94) op_copy_merge();
            else op_free();
        } else {
            if (c < 8) op_alloc();
            else if (c < 14) op_dup();
            else if (c < 18) op_write();
            else if (c < 28) op_splice();
            else if (c < 36) op_split();
            else if (c < 47) op_insert();
            else if (c < 56) op_append();
            else if (c < 67) op_delete();
            else if (c < 73) op_truncate();
            else if (c < 80) op_resize();
            else if (c < 86) op_prepend();
            else if (c < 94) op_copy_merge();
            else op_free();
        }
    }
    if (case_maxseg >= 3 || mode_c02)
        vh_nontrivial(case_hash);
    if (vh_want_sample())
        vh_sample("%s", vh_trace);
    while (nh) drop_handle(0);
}

static void init(void)
{
    mode_c02 = !strcmp(vh_opts.mode, "c02");
    umem_mgr = vh_arg_int("umem-pool", 0) ? umem_pool_mgr_alloc_simple(4) : umem_alloc_mgr_alloc();
    udict_mgr = udict_inline_mgr_alloc(2, umem_mgr, -1, -1);
    uref_mgr = uref_std_mgr_alloc(2, udict_mgr, 0);
    /* (pool depths, prepend, append, align, align_offset) */
    static const int cfg[NMGR][6] = {
        { 0, 0, -1, 0, -1, 0 },     /* defaults: prepend 32, align 16 */
        { 4, 4, -1, 0, -1, 0 },
        { 0, 0, 0, 0, 0, 0 },
        { 4, 4, 1, 5, 0, 0 },
        { 0, 0, 8, 0, 16, -3 },
        { 4, 4, 32, 5, 64, 2 },
        { 0, 0, 8, 5, 64, 0 },
        { 4, 4, 0, 0, 16, 2 },
    };
    for (int i = 0; i < NMGR; i++)
        mgrs[i] = ubuf_block_mem_mgr_alloc(cfg[i][0], cfg[i][1], umem_mgr, cfg[i][2], cfg[i][3], cfg[i][4], cfg[i][5]);
}

static void fini(void)
{
    while (nh) drop_handle(0);
    for (int i = 0; i < NMGR; i++) ubuf_mgr_release(mgrs[i]);
    uref_mgr_release(uref_mgr);
    udict_mgr_release(udict_mgr);
    umem_mgr_release(umem_mgr);
}

static const struct vh_lab lab = { "block", init, run_case, fini };
int main(int argc, char **argv) { return vh_main(argc, argv, &lab); }
