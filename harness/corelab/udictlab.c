/* C10 — attribute dictionaries behave as typed key-value maps.
 * Ordered-map model {(type, name) -> value}; after every operation every key
 * of the model is read back through the typed getter, absent keys are probed,
 * and iteration must visit exactly the model's keys once. */
#include "vh.h"

#include "upipe/ubase.h"
#include "upipe/umem.h"
#include "upipe/umem_alloc.h"
#include "upipe/umem_pool.h"
#include "upipe/udict.h"
#include "upipe/udict_inline.h"
#include "upipe/uref.h"
#include "upipe/uref_std.h"
#include "upipe/uref_attr.h"
#include "upipe/uref_flow.h"
#include "upipe/uref_clock.h"
#include "upipe/uref_pic.h"

#include <stdlib.h>
#include <string.h>
#include <inttypes.h>

#define MAXE 48
#define MAXD 4
#define NMGR 6

struct ent {
    int type;               /* udict type (base or shorthand) */
    int base;
    char name[64];          /* "" for shorthands */
    uint8_t *v;             /* canonical value octets */
    size_t n;
};

struct dct {
    struct uref *uref;      /* the dictionary lives in uref->udict */
    struct ent e[MAXE];
    int ne;
    int mgr;
};

static struct dct D[MAXD];
static int nd;
static struct vh_rng *R;
static struct umem_mgr *umem_mgr;
static struct udict_mgr *dmgr[NMGR];
static struct uref_mgr *umgr[NMGR];
static uint64_t case_hash;
static bool grew, big_value;
static char opbuf[256];
static const char *opname = "";
#define OP(...) do { snprintf(opbuf, sizeof(opbuf), __VA_ARGS__); opname = opbuf; vh_tr("%s", opbuf); case_hash = vh_hash_bytes(case_hash, opbuf, strlen(opbuf)); } while (0)

static int nb_shorthand;
static struct { int type; int base; const char *name; } sh[80];

static const char *names[] = {
    "a", "ab", "abc", "abcd", "a.b", "a.b.c", "x", "xy", "x.y", "f.def", "k.duration",
    "p.num", "", "n", "name_with_a_rather_long_suffix_0123456789_0123456789", "t.x[0]", "t.x[1]", "t.x[10]",
};
#define NNAMES (sizeof(names) / sizeof(names[0]))

static size_t base_size(int base)
{
    switch (base) {
        case UDICT_TYPE_VOID: return 0;
        case UDICT_TYPE_BOOL: case UDICT_TYPE_SMALL_UNSIGNED: case UDICT_TYPE_SMALL_INT: return 1;
        case UDICT_TYPE_UNSIGNED: case UDICT_TYPE_INT: case UDICT_TYPE_FLOAT: return 8;
        case UDICT_TYPE_RATIONAL: return 16;
        default: return (size_t)-1;
    }
}

static struct ent *find(struct dct *d, int type, const char *name)
{
    for (int i = 0; i < d->ne; i++)
        if (d->e[i].type == type && !strcmp(d->e[i].name, name))
            return &d->e[i];
    return NULL;
}

static void ent_free(struct ent *e) { free(e->v); e->v = NULL; }

static void model_set(struct dct *d, int type, int base, const char *name, const uint8_t *v, size_t n)
{
    struct ent *e = find(d, type, name);
    if (!e) {
        e = &d->e[d->ne++];
        e->type = type; e->base = base;
        snprintf(e->name, sizeof(e->name), "%s", name);
        e->v = NULL;
    }
    free(e->v);
    e->v = malloc(n ? n : 1);
    memcpy(e->v, v, n);
    e->n = n;
}

static void model_del(struct dct *d, struct ent *e)
{
    ent_free(e);
    *e = d->e[--d->ne];
}

static const char *api_name(struct ent *e) { return e->type > UDICT_TYPE_SHORTHAND ? NULL : e->name; }

/* read one key through the typed getter, compare with canonical octets */
static void check_key(struct dct *d, struct ent *e, const char *why)
{
    struct udict *u = d->uref->udict;
    const char *nm = api_name(e);
    bool via_uref = vh_chance(R, 1, 2);
    int err = UBASE_ERR_NONE;
    bool ok = true;
    char detail[200] = "";
    switch (e->base) {
        case UDICT_TYPE_OPAQUE: {
            struct udict_opaque o = { NULL, 0 };
            err = via_uref ? uref_attr_get_opaque(d->uref, &o, e->type, nm) : udict_get_opaque(u, &o, e->type, nm);
            ok = ubase_check(err) && o.size == e->n && (!e->n || !memcmp(o.v, e->v, e->n));
            snprintf(detail, sizeof(detail), "size %zu expected %zu", o.size, e->n);
            break;
        }
        case UDICT_TYPE_STRING: {
            const char *s = NULL;
            err = via_uref ? uref_attr_get_string(d->uref, &s, e->type, nm) : udict_get_string(u, &s, e->type, nm);
            ok = ubase_check(err) && s && strlen(s) + 1 == e->n && !memcmp(s, e->v, e->n);
            snprintf(detail, sizeof(detail), "len %zu expected %zu", s ? strlen(s) : 0, e->n - 1);
            break;
        }
        case UDICT_TYPE_VOID:
            err = via_uref ? uref_attr_get_void(d->uref, NULL, e->type, nm) : udict_get_void(u, NULL, e->type, nm);
            ok = ubase_check(err);
            break;
        case UDICT_TYPE_BOOL: {
            bool b = false;
            err = via_uref ? uref_attr_get_bool(d->uref, &b, e->type, nm) : udict_get_bool(u, &b, e->type, nm);
            ok = ubase_check(err) && b == (bool)e->v[0];
            break;
        }
        case UDICT_TYPE_SMALL_UNSIGNED: {
            uint8_t x = 0;
            err = via_uref ? uref_attr_get_small_unsigned(d->uref, &x, e->type, nm) : udict_get_small_unsigned(u, &x, e->type, nm);
            ok = ubase_check(err) && x == e->v[0];
            break;
        }
        case UDICT_TYPE_SMALL_INT: {
            int8_t x = 0;
            err = via_uref ? uref_attr_get_small_int(d->uref, &x, e->type, nm) : udict_get_small_int(u, &x, e->type, nm);
            ok = ubase_check(err) && x == (int8_t)e->v[0];
            break;
        }
        case UDICT_TYPE_UNSIGNED: {
            uint64_t x = 0, w; memcpy(&w, e->v, 8);
            err = via_uref ? uref_attr_get_unsigned(d->uref, &x, e->type, nm) : udict_get_unsigned(u, &x, e->type, nm);
            ok = ubase_check(err) && x == w;
            snprintf(detail, sizeof(detail), "got %" PRIu64 " expected %" PRIu64, x, w);
            break;
        }
        case UDICT_TYPE_INT: {
            int64_t x = 0, w; memcpy(&w, e->v, 8);
            err = via_uref ? uref_attr_get_int(d->uref, &x, e->type, nm) : udict_get_int(u, &x, e->type, nm);
            ok = ubase_check(err) && x == w;
            snprintf(detail, sizeof(detail), "got %" PRId64 " expected %" PRId64, x, w);
            break;
        }
        case UDICT_TYPE_FLOAT: {
            double x = 0; uint64_t xb, w; memcpy(&w, e->v, 8);
            err = via_uref ? uref_attr_get_float(d->uref, &x, e->type, nm) : udict_get_float(u, &x, e->type, nm);
            memcpy(&xb, &x, 8);
            ok = ubase_check(err) && xb == w;   /* bit-wise, NaN payloads included */
            break;
        }
        case UDICT_TYPE_RATIONAL: {
            struct urational x = { 0, 0 }, w; memcpy(&w.num, e->v, 8); memcpy(&w.den, e->v + 8, 8);
            err = via_uref ? uref_attr_get_rational(d->uref, &x, e->type, nm) : udict_get_rational(u, &x, e->type, nm);
            ok = ubase_check(err) && x.num == w.num && x.den == w.den;
            break;
        }
    }
    VH_COUNT("get.present");
    if (!ok)
        vh_violation("c10:lookup", "after %s (%s): key (type %d, \"%s\") of d%d: err %d %s", opname, why, e->type, e->name, (int)(d - D), err, detail);
}

static void check_dict(struct dct *d, const char *why)
{
    struct udict *u = d->uref->udict;
    if (!u) {
        if (d->ne) vh_violation("c10:lookup", "after %s: dictionary vanished", opname);
        return;
    }
    for (int i = 0; i < d->ne; i++)
        check_key(d, &d->e[i], why);
    /* absent keys */
    for (int k = 0; k < 4; k++) {
        int type; const char *nm;
        if (vh_chance(R, 1, 2)) { int s = vh_below(R, nb_shorthand); type = sh[s].type; nm = ""; }
        else { type = 1 + vh_below(R, 10); nm = names[vh_below(R, NNAMES)]; }
        if (find(d, type, nm)) continue;
        size_t sz; const uint8_t *p;
        int err = udict_get(u, type > UDICT_TYPE_SHORTHAND ? NULL : nm, type, &sz, &p);
        VH_COUNT("get.absent");
        if (ubase_check(err))
            vh_violation("c10:phantom", "after %s (%s): absent key (type %d, \"%s\") reported present in d%d", opname, why, type, nm, (int)(d - D));
    }
    /* iteration: each present attribute exactly once, nothing else */
    bool seen[MAXE] = { false };
    int count = 0;
    const char *name = NULL;
    enum udict_type type = UDICT_TYPE_END;
    while (ubase_check(udict_iterate(u, &name, &type)) && type != UDICT_TYPE_END) {
        struct ent *e = find(d, type, name ? name : "");
        if (!e)
            vh_violation("c10:iterate-phantom", "after %s (%s): iteration visits (type %d, \"%s\") which is not in the model of d%d", opname, why, type, name ? name : "(sh)", (int)(d - D));
        if (seen[e - d->e])
            vh_violation("c10:iterate-twice", "after %s (%s): iteration visits (type %d, \"%s\") twice", opname, why, type, e->name);
        seen[e - d->e] = true;
        if (++count > MAXE + 2) break;
    }
    if (count != d->ne)
        vh_violation("c10:iterate-missing", "after %s (%s): iteration visited %d attributes, model has %d", opname, why, count, d->ne);
    VH_COUNT("iterate.full");
}

static void check_all(void)
{
    for (int i = 0; i < nd; i++) check_dict(&D[i], "all");
}

static bool models_equal(struct dct *a, struct dct *b)
{
    if (a->ne != b->ne) return false;
    for (int i = 0; i < a->ne; i++) {
        struct ent *o = find(b, a->e[i].type, a->e[i].name);
        if (!o || o->n != a->e[i].n || memcmp(o->v, a->e[i].v, o->n)) return false;
    }
    return true;
}

static struct dct *new_dict(int mgr)
{
    struct dct *d = &D[nd++];
    memset(d, 0, sizeof(*d));
    d->mgr = mgr;
    d->uref = uref_alloc(umgr[mgr]);
    if (vh_chance(R, 1, 2)) {
        size_t sz = vh_chance(R, 1, 2) ? 0 : vh_below(R, 300);
        d->uref->udict = udict_alloc(dmgr[mgr], sz);
    }
    return d;
}

static void drop_dict(int i)
{
    uref_free(D[i].uref);
    for (int k = 0; k < D[i].ne; k++) ent_free(&D[i].e[k]);
    D[i] = D[--nd];
}

static uint64_t gen_u64(void)
{
    static const uint64_t sp[] = { 0, 1, 127, 128, 255, 256, 0x7fffffffffffffffULL, 0x8000000000000000ULL, UINT64_MAX, UINT64_MAX - 1, 27000000 };
    return vh_chance(R, 1, 2) ? sp[vh_below(R, 11)] : vh_rand(R);
}

static int64_t gen_i64(void)
{
    int64_t v = (int64_t)gen_u64();
    if (v == INT64_MIN) v = INT64_MIN + 1;    /* asserted precondition of udict_set_int64 */
    return v;
}

static size_t gen_len(size_t max)
{
    static const size_t sp[] = { 0, 1, 2, 3, 127, 128, 129, 255, 256, 4096 };
    size_t l;
    int c = vh_below(R, 20);
    if (c < 10) l = sp[vh_below(R, 10)];
    else if (c == 10) { l = max; big_value = true; }
    else if (c == 11) { l = max > 3 ? max - 1 - vh_below(R, 3) : max; big_value = true; }
    else l = vh_below(R, 40);
    return l > max ? max : l;
}

static void op_set(void)
{
    struct dct *d = &D[vh_below(R, nd)];
    int type, base; const char *nm;
    if (d->ne && vh_chance(R, 2, 5)) {            /* overwrite an existing key */
        struct ent *e = &d->e[vh_below(R, d->ne)];
        type = e->type; base = e->base; nm = e->name;
    } else if (vh_chance(R, 1, 2)) {
        int s = vh_below(R, nb_shorthand);
        type = sh[s].type; base = sh[s].base; nm = "";
    } else {
        type = base = 1 + vh_below(R, 10);
        nm = names[vh_below(R, NNAMES)];
    }
    if (!find(d, type, nm) && d->ne >= MAXE) return;
    const char *an = type > UDICT_TYPE_SHORTHAND ? NULL : nm;
    bool via_uref = vh_chance(R, 1, 2);
    if (!via_uref && !d->uref->udict) via_uref = true;
    size_t namelen = strlen(nm);
    uint8_t small[16];
    uint8_t *val = small; size_t n = 0;
    uint8_t *heap = NULL;
    int err = UBASE_ERR_INVALID;
    size_t before = 0;
    switch (base) {
        case UDICT_TYPE_OPAQUE: case UDICT_TYPE_STRING: {
            size_t max = 65535 - (type > UDICT_TYPE_SHORTHAND ? 0 : namelen + 1);
            bool alias = false;
            struct ent *src = NULL;
            if (d->ne && vh_chance(R, 1, 6)) {
                /* value aliasing the dictionary's own storage */
                for (int k = 0; k < d->ne; k++)
                    if (d->e[k].base == base && d->e[k].n > 0 && d->e[k].n <= max) { src = &d->e[k]; break; }
                alias = src != NULL;
            }
            if (base == UDICT_TYPE_STRING) {
                size_t l = alias ? src->n - 1 : gen_len(max - 1);
                heap = malloc(l + 1);
                if (alias) memcpy(heap, src->v, l + 1);
                else { for (size_t i = 0; i < l; i++) heap[i] = 'a' + vh_below(R, 26); heap[l] = 0; }
                val = heap; n = l + 1;
                OP("set_string(d%d,type %d,\"%s\",len %zu%s%s)", (int)(d - D), type, nm, l, alias ? ",aliased" : "", via_uref ? ",uref" : "");
                const char *arg = (const char *)heap;
                if (alias) udict_get_string(d->uref->udict, &arg, src->type, api_name(src));
                err = via_uref ? uref_attr_set_string(d->uref, arg, type, an) : udict_set_string(d->uref->udict, arg, type, an);
            } else {
                size_t l = alias ? src->n : gen_len(max);
                heap = malloc(l ? l : 1);
                if (alias) memcpy(heap, src->v, l);
                else for (size_t i = 0; i < l; i++) heap[i] = (uint8_t)vh_rand(R);
                val = heap; n = l;
                OP("set_opaque(d%d,type %d,\"%s\",size %zu%s%s)", (int)(d - D), type, nm, l, alias ? ",aliased" : "", via_uref ? ",uref" : "");
                struct udict_opaque o = { heap, l };
                if (alias) udict_get_opaque(d->uref->udict, &o, src->type, api_name(src));
                err = via_uref ? uref_attr_set_opaque(d->uref, o, type, an) : udict_set_opaque(d->uref->udict, o, type, an);
            }
            if (alias) VH_COUNT("set.aliased");
            break;
        }
        case UDICT_TYPE_VOID:
            OP("set_void(d%d,type %d,\"%s\")", (int)(d - D), type, nm);
            err = via_uref ? uref_attr_set_void(d->uref, NULL, type, an) : udict_set_void(d->uref->udict, NULL, type, an);
            break;
        case UDICT_TYPE_BOOL: {
            bool b = vh_chance(R, 1, 2);
            small[0] = b; n = 1;
            OP("set_bool(d%d,type %d,\"%s\",%d)", (int)(d - D), type, nm, b);
            err = via_uref ? uref_attr_set_bool(d->uref, b, type, an) : udict_set_bool(d->uref->udict, b, type, an);
            break;
        }
        case UDICT_TYPE_SMALL_UNSIGNED: {
            uint8_t x = (uint8_t)gen_u64();
            small[0] = x; n = 1;
            OP("set_small_unsigned(d%d,type %d,\"%s\",%u)", (int)(d - D), type, nm, x);
            err = via_uref ? uref_attr_set_small_unsigned(d->uref, x, type, an) : udict_set_small_unsigned(d->uref->udict, x, type, an);
            break;
        }
        case UDICT_TYPE_SMALL_INT: {
            int8_t x = (int8_t)gen_u64();
            small[0] = (uint8_t)x; n = 1;
            OP("set_small_int(d%d,type %d,\"%s\",%d)", (int)(d - D), type, nm, x);
            err = via_uref ? uref_attr_set_small_int(d->uref, x, type, an) : udict_set_small_int(d->uref->udict, x, type, an);
            break;
        }
        case UDICT_TYPE_UNSIGNED: {
            uint64_t x = gen_u64();
            memcpy(small, &x, 8); n = 8;
            OP("set_unsigned(d%d,type %d,\"%s\",%" PRIu64 ")", (int)(d - D), type, nm, x);
            err = via_uref ? uref_attr_set_unsigned(d->uref, x, type, an) : udict_set_unsigned(d->uref->udict, x, type, an);
            break;
        }
        case UDICT_TYPE_INT: {
            int64_t x = gen_i64();
            memcpy(small, &x, 8); n = 8;
            OP("set_int(d%d,type %d,\"%s\",%" PRId64 ")", (int)(d - D), type, nm, x);
            err = via_uref ? uref_attr_set_int(d->uref, x, type, an) : udict_set_int(d->uref->udict, x, type, an);
            break;
        }
        case UDICT_TYPE_FLOAT: {
            uint64_t bits = gen_u64();
            double x; memcpy(&x, &bits, 8);
            memcpy(small, &bits, 8); n = 8;
            OP("set_float(d%d,type %d,\"%s\",bits %" PRIx64 ")", (int)(d - D), type, nm, bits);
            err = via_uref ? uref_attr_set_float(d->uref, x, type, an) : udict_set_float(d->uref->udict, x, type, an);
            break;
        }
        case UDICT_TYPE_RATIONAL: {
            struct urational q = { gen_i64(), gen_u64() };
            memcpy(small, &q.num, 8); memcpy(small + 8, &q.den, 8); n = 16;
            OP("set_rational(d%d,type %d,\"%s\",%" PRId64 "/%" PRIu64 ")", (int)(d - D), type, nm, q.num, q.den);
            err = via_uref ? uref_attr_set_rational(d->uref, q, type, an) : udict_set_rational(d->uref->udict, q, type, an);
            break;
        }
    }
    (void)before;
    VH_COUNT("op.set");
    if (!ubase_check(err)) { free(heap);
        vh_violation("c10:set-failed", "%s failed (%d)", opname, err); }
    model_set(d, type, base, nm, val, n);
    free(heap);
    if (n > 200) grew = true;
    check_dict(d, "self");
}

static void op_delete(void)
{
    struct dct *d = &D[vh_below(R, nd)];
    if (!d->uref->udict) return;
    int type; const char *nm; struct ent *e = NULL;
    if (d->ne && vh_chance(R, 3, 4)) { e = &d->e[vh_below(R, d->ne)]; type = e->type; nm = e->name; }
    else if (vh_chance(R, 1, 2)) { int s = vh_below(R, nb_shorthand); type = sh[s].type; nm = ""; e = find(d, type, nm); }
    else { type = 1 + vh_below(R, 10); nm = names[vh_below(R, NNAMES)]; e = find(d, type, nm); }
    bool via_uref = vh_chance(R, 1, 2);
    OP("delete(d%d,type %d,\"%s\"%s)", (int)(d - D), type, nm, via_uref ? ",uref" : "");
    const char *an = type > UDICT_TYPE_SHORTHAND ? NULL : nm;
    int err = via_uref ? uref_attr_delete(d->uref, type, an) : udict_delete(d->uref->udict, type, an);
    VH_COUNT("op.delete");
    if (e) {
        if (!ubase_check(err)) vh_violation("c10:delete-failed", "%s of a present key failed (%d)", opname, err);
        model_del(d, e);
    } else if (ubase_check(err))
        vh_violation("c10:delete-phantom", "%s of an absent key succeeded", opname);
    check_dict(d, "self");
}

static void copy_model(struct dct *dst, struct dct *src)
{
    for (int i = 0; i < src->ne; i++)
        model_set(dst, src->e[i].type, src->e[i].base, src->e[i].name, src->e[i].v, src->e[i].n);
}

static void op_dup(void)
{
    if (nd >= MAXD) return;
    struct dct *s = &D[vh_below(R, nd)];
    int kind = vh_below(R, 3);
    int mgr = kind == 2 ? (int)vh_below(R, NMGR) : s->mgr;
    OP("d%d=%s(d%d)", nd, kind == 0 ? "uref_dup" : kind == 1 ? "udict_dup" : "udict_copy", (int)(s - D));
    struct dct *d = &D[nd++];
    memset(d, 0, sizeof(*d));
    d->mgr = mgr;
    if (kind == 0)
        d->uref = uref_dup(s->uref);
    else {
        d->uref = uref_alloc(umgr[mgr]);
        if (s->uref->udict) {
            d->uref->udict = kind == 1 ? udict_dup(s->uref->udict) : udict_copy(dmgr[mgr], s->uref->udict);
            if (!d->uref->udict) vh_violation("c10:dup-failed", "%s failed", opname);
        }
    }
    if (!d->uref) vh_violation("c10:dup-failed", "%s failed", opname);
    copy_model(d, s);
    VH_COUNT("op.dup");
    check_dict(d, "self");
    if (d->uref->udict && s->uref->udict && udict_cmp(d->uref->udict, s->uref->udict) != 0)
        vh_violation("c10:cmp", "a fresh duplicate compares different from its original");
}

static void op_import(void)
{
    if (nd < 2) return;
    int i = vh_below(R, nd), j = vh_below(R, nd);
    if (i == j) return;
    struct dct *dst = &D[i], *src = &D[j];
    if (dst->ne + src->ne > MAXE) return;
    bool via_uref = vh_chance(R, 1, 2);
    if (!via_uref && (!dst->uref->udict || !src->uref->udict)) via_uref = true;
    OP("import(d%d<-d%d%s)", i, j, via_uref ? ",uref" : "");
    int err = via_uref ? uref_attr_import(dst->uref, src->uref) : udict_import(dst->uref->udict, src->uref->udict);
    if (!ubase_check(err)) vh_violation("c10:import-failed", "%s failed (%d)", opname, err);
    copy_model(dst, src);
    VH_COUNT("op.import");
    check_dict(dst, "self");
    check_dict(src, "source");
}

static void op_cmp(void)
{
    if (nd < 2) return;
    int i = vh_below(R, nd), j = vh_below(R, nd);
    if (i == j) return;
    if (!D[i].uref->udict || !D[j].uref->udict) return;
    OP("cmp(d%d,d%d)", i, j);
    int c = udict_cmp(D[i].uref->udict, D[j].uref->udict);
    bool eq = models_equal(&D[i], &D[j]);
    VH_COUNT("op.cmp");
    if (eq) VH_COUNT("op.cmp_equal");
    if ((c == 0) != eq)
        vh_violation("c10:cmp", "cmp(d%d,d%d) = %d but the models are %s", i, j, c, eq ? "equal" : "different");
}

static void run_case(struct vh_rng *r)
{
    R = r;
    case_hash = 0;
    grew = big_value = false;
    while (nd) drop_dict(0);
    new_dict(vh_below(R, NMGR));
    for (int i = 0; i < 40; i++) {
        int c = vh_below(R, 100);
        if (c < 50) op_set();
        else if (c < 68) op_delete();
        else if (c < 78) op_dup();
        else if (c < 86) op_import();
        else if (c < 94) op_cmp();
        else if (c < 97 && nd < MAXD) { OP("d%d=new", nd); new_dict(vh_below(R, NMGR)); }
        else if (nd > 1) { int k = vh_below(R, nd); OP("free(d%d)", k); drop_dict(k); }
        /* independence: every other dictionary still matches its own model */
        if (vh_chance(R, 1, 3)) check_all();
    }
    check_all();
    if (grew) VH_COUNT("case.grew_storage");
    if (big_value) VH_COUNT("case.max_size_value");
    vh_nontrivial(case_hash);
    if (vh_want_sample()) vh_sample("%s", vh_trace);
    while (nd) drop_dict(0);
}

static void init(void)
{
    umem_mgr = umem_alloc_mgr_alloc();
    static const int cfg[NMGR][3] = { { 0, -1, -1 }, { 4, -1, -1 }, { 0, 1, 1 }, { 4, 16, 1 }, { 0, 16, 64 }, { 2, 1, 64 } };
    for (int i = 0; i < NMGR; i++) {
        dmgr[i] = udict_inline_mgr_alloc(cfg[i][0], umem_mgr, cfg[i][1], cfg[i][2]);
        umgr[i] = uref_std_mgr_alloc(cfg[i][0], dmgr[i], 0);
    }
    /* shorthand table through the public naming call */
    struct udict *tmp = udict_alloc(dmgr[0], 0);
    for (int t = UDICT_TYPE_SHORTHAND + 1; t < UDICT_TYPE_SHORTHAND + 70; t++) {
        const char *name; enum udict_type base;
        if (t > UDICT_TYPE_PIC_BAR_DATA) break;
        if (!ubase_check(udict_name(tmp, t, &name, &base))) break;
        sh[nb_shorthand].type = t; sh[nb_shorthand].base = base; sh[nb_shorthand].name = name;
        nb_shorthand++;
    }
    udict_free(tmp);
    vh_count_dyn("shorthands.%d", nb_shorthand);
}

static void fini(void)
{
    while (nd) drop_dict(0);
    for (int i = 0; i < NMGR; i++) { uref_mgr_release(umgr[i]); udict_mgr_release(dmgr[i]); }
    umem_mgr_release(umem_mgr);
}

static const struct vh_lab lab = { "udict", init, run_case, fini };
int main(int argc, char **argv) { return vh_main(argc, argv, &lab); }
