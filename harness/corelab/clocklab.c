/* C11 — timestamp algebra: cr / dts / pts views of a date stay consistent.
 * Metamorphic relations that are exactly the statement + an independent
 * reference model in modular 64-bit arithmetic. */
#include "vh.h"

#include "upipe/ubase.h"
#include "upipe/umem.h"
#include "upipe/umem_alloc.h"
#include "upipe/udict.h"
#include "upipe/udict_inline.h"
#include "upipe/uref.h"
#include "upipe/uref_std.h"
#include "upipe/uref_clock.h"

#include <string.h>
#include <inttypes.h>

static struct vh_rng *R;
static struct umem_mgr *umem_mgr;
static struct udict_mgr *udict_mgr;
static struct uref_mgr *uref_mgr;
static uint64_t case_hash;
static char opbuf[200];
static const char *opname = "";
#define OP(...) do { snprintf(opbuf, sizeof(opbuf), __VA_ARGS__); opname = opbuf; vh_tr("%s", opbuf); case_hash = vh_hash_bytes(case_hash, opbuf, strlen(opbuf)); } while (0)

#define UNSET UINT64_MAX
enum { T_NONE = 0, T_CR, T_DTS, T_PTS };      /* reference numbering */
static const char *dom_name[3] = { "sys", "prog", "orig" };
static const char *typ_name[4] = { "none", "cr", "dts", "pts" };

/* reference model: documented semantics */
struct model {
    uint64_t date[3];
    int type[3];
    uint64_t dts_pts, cr_dts, rap_cr;
};

static int map_type(int upipe_type)
{
    switch (upipe_type) {
        case UREF_DATE_CR: return T_CR;
        case UREF_DATE_DTS: return T_DTS;
        case UREF_DATE_PTS: return T_PTS;
        default: return T_NONE;
    }
}

/* model getters: returns false when unreadable */
static bool m_get(const struct model *m, int dom, int want, uint64_t *out)
{
    uint64_t d = m->date[dom];
    int t = m->type[dom];
    if (t == T_NONE) return false;
    /* walk from the stored stage to the wanted stage */
    while (t < want) {
        if (t == T_CR) { if (m->cr_dts == UNSET) return false; d += m->cr_dts; }
        else { if (m->dts_pts == UNSET) return false; d += m->dts_pts; }
        t++;
    }
    while (t > want) {
        if (t == T_PTS) { if (m->dts_pts == UNSET) return false; d -= m->dts_pts; }
        else { if (m->cr_dts == UNSET) return false; d -= m->cr_dts; }
        t--;
    }
    *out = d;
    return true;
}

static bool m_get_rap(const struct model *m, int dom, uint64_t *out)
{
    uint64_t cr;
    if (!m_get(m, dom, T_CR, &cr) || m->rap_cr == UNSET) return false;
    *out = cr - m->rap_cr;
    return true;
}

static void m_set(struct model *m, int dom, int type, uint64_t date)
{
    /* documented: moving to a later stage records the delay */
    if (m->type[dom] == T_CR) {
        if (type == T_PTS && m->dts_pts != UNSET)
            m->cr_dts = date - m->dts_pts - m->date[dom];
        else if (type == T_DTS)
            m->cr_dts = date - m->date[dom];
    } else if (m->type[dom] == T_DTS && type == T_PTS)
        m->dts_pts = date - m->date[dom];
    m->date[dom] = date;
    m->type[dom] = type;
}

/* ---- the real thing ---- */
typedef int (*getter)(struct uref *, uint64_t *);
static getter getters[3][4] = {
    { NULL, uref_clock_get_cr_sys, uref_clock_get_dts_sys, uref_clock_get_pts_sys },
    { NULL, uref_clock_get_cr_prog, uref_clock_get_dts_prog, uref_clock_get_pts_prog },
    { NULL, uref_clock_get_cr_orig, uref_clock_get_dts_orig, uref_clock_get_pts_orig },
};
static getter rap_getters[3] = { uref_clock_get_rap_sys, uref_clock_get_rap_prog, uref_clock_get_rap_orig };
typedef void (*setter)(struct uref *, uint64_t);
static setter setters[3][4] = {
    { NULL, uref_clock_set_cr_sys, uref_clock_set_dts_sys, uref_clock_set_pts_sys },
    { NULL, uref_clock_set_cr_prog, uref_clock_set_dts_prog, uref_clock_set_pts_prog },
    { NULL, uref_clock_set_cr_orig, uref_clock_set_dts_orig, uref_clock_set_pts_orig },
};
typedef int (*rebaser)(struct uref *);
static rebaser rebasers[3][4] = {
    { NULL, uref_clock_rebase_cr_sys, uref_clock_rebase_dts_sys, uref_clock_rebase_pts_sys },
    { NULL, uref_clock_rebase_cr_prog, uref_clock_rebase_dts_prog, uref_clock_rebase_pts_prog },
    { NULL, uref_clock_rebase_cr_orig, uref_clock_rebase_dts_orig, uref_clock_rebase_pts_orig },
};
typedef int (*rapsetter)(struct uref *, uint64_t);
static rapsetter rap_setters[3] = { uref_clock_set_rap_sys, uref_clock_set_rap_prog, uref_clock_set_rap_orig };
typedef int (*cmper)(struct uref *, struct uref *);
static cmper cmpers[3][4] = {
    { NULL, uref_clock_cmp_cr_sys, uref_clock_cmp_dts_sys, uref_clock_cmp_pts_sys },
    { NULL, uref_clock_cmp_cr_prog, uref_clock_cmp_dts_prog, uref_clock_cmp_pts_prog },
    { NULL, uref_clock_cmp_cr_orig, uref_clock_cmp_dts_orig, uref_clock_cmp_pts_orig },
};

struct raw { uint64_t flags, d[3], dp, cd, rc, priv; };

static void raw_of(const struct uref *u, struct raw *r)
{
    r->flags = u->flags; r->d[0] = u->date_sys; r->d[1] = u->date_prog; r->d[2] = u->date_orig;
    r->dp = u->dts_pts_delay; r->cd = u->cr_dts_delay; r->rc = u->rap_cr_delay; r->priv = u->priv;
}

struct snap { bool ok[3][4]; uint64_t v[3][4]; bool rok[3]; uint64_t rv[3]; };

/* all twelve views, each getter checked for purity */
static void snapshot(struct uref *u, struct snap *s)
{
    for (int d = 0; d < 3; d++) {
        for (int t = 1; t <= 3; t++) {
            struct raw b, a;
            raw_of(u, &b);
            uint64_t v = 0xDEADBEEFCAFEF00DULL;
            int err = getters[d][t](u, &v);
            raw_of(u, &a);
            if (memcmp(&a, &b, sizeof(a)))
                vh_violation("c11:getter-not-pure", "after %s: get_%s_%s modified the uref", opname, typ_name[t], dom_name[d]);
            s->ok[d][t] = ubase_check(err);
            s->v[d][t] = v;
            VH_COUNT("getter.calls");
        }
        struct raw b, a;
        raw_of(u, &b);
        uint64_t v = 0;
        s->rok[d] = ubase_check(rap_getters[d](u, &v));
        s->rv[d] = v;
        raw_of(u, &a);
        if (memcmp(&a, &b, sizeof(a)))
            vh_violation("c11:getter-not-pure", "after %s: get_rap_%s modified the uref", opname, dom_name[d]);
    }
}

static void check_identities(struct uref *u, const struct snap *s)
{
    uint64_t cd = UNSET, dp = UNSET;
    bool hcd = ubase_check(uref_clock_get_cr_dts_delay(u, &cd));
    bool hdp = ubase_check(uref_clock_get_dts_pts_delay(u, &dp));
    for (int d = 0; d < 3; d++) {
        if (s->ok[d][T_CR] && s->ok[d][T_DTS]) {
            VH_COUNT("identity.dts=cr+delay");
            if (!hcd || s->v[d][T_DTS] != s->v[d][T_CR] + cd)
                vh_violation("c11:identity:dts", "after %s: %s dts %" PRIu64 " != cr %" PRIu64 " + cr_dts_delay %" PRIu64 " (readable %d)", opname, dom_name[d], s->v[d][T_DTS], s->v[d][T_CR], cd, hcd);
        }
        if (s->ok[d][T_DTS] && s->ok[d][T_PTS]) {
            VH_COUNT("identity.pts=dts+delay");
            if (!hdp || s->v[d][T_PTS] != s->v[d][T_DTS] + dp)
                vh_violation("c11:identity:pts", "after %s: %s pts %" PRIu64 " != dts %" PRIu64 " + dts_pts_delay %" PRIu64 " (readable %d)", opname, dom_name[d], s->v[d][T_PTS], s->v[d][T_DTS], dp, hdp);
        }
    }
}

static void check_model(struct uref *u, const struct model *m, const struct snap *s)
{
    for (int d = 0; d < 3; d++) {
        uint64_t date; int type;
        switch (d) {
            case 0: uref_clock_get_date_sys(u, &date, &type); break;
            case 1: uref_clock_get_date_prog(u, &date, &type); break;
            default: uref_clock_get_date_orig(u, &date, &type); break;
        }
        if (map_type(type) != m->type[d] || (m->type[d] != T_NONE && date != m->date[d]))
            vh_violation("c11:model:stored", "after %s: %s stored as %s %" PRIu64 ", model %s %" PRIu64, opname, dom_name[d], typ_name[map_type(type)], date, typ_name[m->type[d]], m->date[d]);
        for (int t = 1; t <= 3; t++) {
            uint64_t mv = 0;
            bool mok = m_get(m, d, t, &mv);
            if (mok != s->ok[d][t] || (mok && mv != s->v[d][t]))
                vh_violation("c11:model:view", "after %s: get_%s_%s -> %s %" PRIu64 ", model %s %" PRIu64, opname, typ_name[t], dom_name[d], s->ok[d][t] ? "ok" : "unset", s->v[d][t], mok ? "ok" : "unset", mv);
        }
        uint64_t mr = 0;
        bool mok = m_get_rap(m, d, &mr);
        if (mok != s->rok[d] || (mok && mr != s->rv[d]))
            vh_violation("c11:model:rap", "after %s: get_rap_%s -> %s %" PRIu64 ", model %s %" PRIu64, opname, dom_name[d], s->rok[d] ? "ok" : "unset", s->rv[d], mok ? "ok" : "unset", mr);
    }
    uint64_t v;
    bool h = ubase_check(uref_clock_get_cr_dts_delay(u, &v));
    if (h != (m->cr_dts != UNSET) || (h && v != m->cr_dts)) vh_violation("c11:model:delay", "after %s: cr_dts_delay differs from model", opname);
    h = ubase_check(uref_clock_get_dts_pts_delay(u, &v));
    if (h != (m->dts_pts != UNSET) || (h && v != m->dts_pts)) vh_violation("c11:model:delay", "after %s: dts_pts_delay differs from model", opname);
    h = ubase_check(uref_clock_get_rap_cr_delay(u, &v));
    if (h != (m->rap_cr != UNSET) || (h && v != m->rap_cr)) vh_violation("c11:model:delay", "after %s: rap_cr_delay differs from model", opname);
}

/* every date readable before must read the same after */
static void check_preserved(const struct snap *b, const struct snap *a, const char *what)
{
    for (int d = 0; d < 3; d++) {
        for (int t = 1; t <= 3; t++)
            if (b->ok[d][t] && (!a->ok[d][t] || a->v[d][t] != b->v[d][t])) {
                char key[64];
                snprintf(key, sizeof(key), "c11:%s-changed-a-date", what);
                vh_violation(key, "%s: %s %s was %" PRIu64 ", now %s %" PRIu64, opname, dom_name[d], typ_name[t], b->v[d][t], a->ok[d][t] ? "" : "unreadable", a->v[d][t]);
            }
        if (b->rok[d] && (!a->rok[d] || a->rv[d] != b->rv[d])) {
            char key[64];
            snprintf(key, sizeof(key), "c11:%s-changed-a-date", what);
            vh_violation(key, "%s: %s rap was %" PRIu64 ", now %s %" PRIu64, opname, dom_name[d], b->rv[d], a->rok[d] ? "" : "unreadable", a->rv[d]);
        }
    }
}

static uint64_t gen_date(void)
{
    static const uint64_t sp[] = { 0, 1, 2, UINT64_C(1) << 33, (UINT64_C(1) << 33) - 1, UINT64_C(1) << 63, (UINT64_C(1) << 63) - 1,
                                   UINT64_MAX - 1, UINT64_MAX, UINT64_MAX - 2, 27000000, UINT64_C(27000000) * 3600 };
    int c = vh_below(R, 10);
    if (c < 5) return sp[vh_below(R, 12)];
    if (c < 8) return vh_rand(R) >> vh_below(R, 40);
    return vh_rand(R);
}

static void run_case(struct vh_rng *r)
{
    R = r;
    case_hash = 0;
    struct uref *u = uref_alloc(uref_mgr);
    struct model m = { { UNSET, UNSET, UNSET }, { T_NONE, T_NONE, T_NONE }, UNSET, UNSET, UNSET };
    struct snap s;
    opname = "alloc";
    snapshot(u, &s);
    check_model(u, &m, &s);
    int nops = 1 + vh_below(R, 30);
    int views = 0;
    for (int i = 0; i < nops; i++) {
        int c = vh_below(R, 100);
        int d = vh_below(R, 3), t = 1 + vh_below(R, 3);
        struct snap before;
        snapshot(u, &before);
        if (c < 34) {
            uint64_t date = gen_date();
            /* bias: dates close to the current one so that delays are small or wrap */
            uint64_t cur;
            if (vh_chance(R, 1, 2) && m.type[d] != T_NONE) { cur = m.date[d]; date = cur + (int64_t)vh_range(R, -3, 1000); }
            OP("set_%s_%s(%" PRIu64 ")", typ_name[t], dom_name[d], date);
            setters[d][t](u, date);
            m_set(&m, d, t, date);
            uint64_t back = ~date;
            if (!ubase_check(getters[d][t](u, &back)) || back != date)
                vh_violation("c11:set-get", "%s then get returns %" PRIu64, opname, back);
            VH_COUNT("op.set");
        } else if (c < 54) {
            OP("rebase_%s_%s", typ_name[t], dom_name[d]);
            int err = rebasers[d][t](u);
            uint64_t mv;
            bool mok = m_get(&m, d, t, &mv);
            if (ubase_check(err) != mok)
                vh_violation("c11:model:rebase", "%s returned %d, model readable=%d", opname, err, mok);
            if (mok) m_set(&m, d, t, mv);
            struct snap after;
            snapshot(u, &after);
            check_preserved(&before, &after, "rebase");
            if (mok) VH_COUNT("op.rebase_done"); else VH_COUNT("op.rebase_refused");
        } else if (c < 62) {
            uint64_t v = vh_chance(R, 1, 3) ? gen_date() : (uint64_t)vh_below(R, 100000);
            int which = vh_below(R, 3);
            OP("set_%s_delay(%" PRIu64 ")", which == 0 ? "dts_pts" : which == 1 ? "cr_dts" : "rap_cr", v);
            if (which == 0) { uref_clock_set_dts_pts_delay(u, v); m.dts_pts = v; }
            else if (which == 1) { uref_clock_set_cr_dts_delay(u, v); m.cr_dts = v; }
            else { uref_clock_set_rap_cr_delay(u, v); m.rap_cr = v; }
            VH_COUNT("op.set_delay");
        } else if (c < 66) {
            int which = vh_below(R, 3);
            OP("delete_%s_delay", which == 0 ? "dts_pts" : which == 1 ? "cr_dts" : "rap_cr");
            if (which == 0) { uref_clock_delete_dts_pts_delay(u); m.dts_pts = UNSET; }
            else if (which == 1) { uref_clock_delete_cr_dts_delay(u); m.cr_dts = UNSET; }
            else { uref_clock_delete_rap_cr_delay(u); m.rap_cr = UNSET; }
            VH_COUNT("op.delete_delay");
        } else if (c < 72) {
            OP("delete_date_%s", dom_name[d]);
            if (d == 0) uref_clock_delete_date_sys(u); else if (d == 1) uref_clock_delete_date_prog(u); else uref_clock_delete_date_orig(u);
            m.date[d] = UNSET; m.type[d] = T_NONE;
            VH_COUNT("op.delete_date");
        } else if (c < 80) {
            int64_t delay = vh_chance(R, 1, 2) ? vh_range(R, -100000, 100000) : (int64_t)gen_date();
            OP("add_date_%s(%" PRId64 ")", dom_name[d], delay);
            if (d == 0) uref_clock_add_date_sys(u, delay); else if (d == 1) uref_clock_add_date_prog(u, delay); else uref_clock_add_date_orig(u, delay);
            if (m.date[d] != UNSET) m.date[d] += (uint64_t)delay;
            VH_COUNT("op.add");
        } else if (c < 90) {
            uint64_t cr = 0;
            bool hcr = m_get(&m, d, T_CR, &cr);
            uint64_t rap;
            int k = vh_below(R, 6);
            if (!hcr) rap = gen_date();
            else if (k == 0) rap = cr; else if (k == 1) rap = cr + 1; else if (k == 2) rap = cr - vh_below(R, 1000);
            else if (k == 3) rap = cr + 1 + vh_below(R, 1000); else rap = gen_date();
            OP("set_rap_%s(%" PRIu64 ")", dom_name[d], rap);
            int err = rap_setters[d](u, rap);
            bool expect = hcr && rap <= cr;
            if (ubase_check(err) != expect)
                vh_violation(expect ? "c11:rap-refused" : "c11:rap-accepted-after-cr", "%s with cr %s %" PRIu64 " returned %d", opname, hcr ? "" : "unreadable", cr, err);
            if (expect) { m.rap_cr = cr - rap; VH_COUNT("op.set_rap_ok"); } else VH_COUNT("op.set_rap_refused");
        } else {
            OP("dup");
            struct uref *v = uref_dup(u);
            if (!v) vh_violation("c11:dup-failed", "uref_dup failed");
            struct snap sd;
            snapshot(v, &sd);
            struct snap su;
            snapshot(u, &su);
            const char *saved = opname;
            check_preserved(&before, &su, "dup");
            check_preserved(&before, &sd, "dup");
            for (int dd = 0; dd < 3; dd++) for (int tt = 1; tt <= 3; tt++)
                if (cmpers[dd][tt](u, v) != 0)
                    vh_violation("c11:dup-cmp", "%s: cmp_%s_%s differs on a duplicate", saved, typ_name[tt], dom_name[dd]);
            if (vh_chance(R, 1, 2)) { uref_free(u); u = v; } else uref_free(v);
            VH_COUNT("op.dup");
        }
        snapshot(u, &s);
        check_identities(u, &s);
        check_model(u, &m, &s);
        for (int dd = 0; dd < 3; dd++) for (int tt = 1; tt <= 3; tt++) views += s.ok[dd][tt];
    }
    uref_free(u);
    if (views >= 6) vh_nontrivial(case_hash);
    if (vh_want_sample()) vh_sample("%s", vh_trace);
}

static void init(void)
{
    umem_mgr = umem_alloc_mgr_alloc();
    udict_mgr = udict_inline_mgr_alloc(4, umem_mgr, -1, -1);
    uref_mgr = uref_std_mgr_alloc(4, udict_mgr, 0);
}

static void fini(void)
{
    uref_mgr_release(uref_mgr);
    udict_mgr_release(udict_mgr);
    umem_mgr_release(umem_mgr);
}

static const struct vh_lab lab = { "clock", init, run_case, fini };
int main(int argc, char **argv) { return vh_main(argc, argv, &lab); }
