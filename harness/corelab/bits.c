/* C18 — bit-level writers and readers are inverse and stay within bounds.
 * Reference MSB-first packer vs ubits_put/ubits_clean, ubits_get, and the
 * ubuf_block_stream bit reader over random segmentations. */
#include "vh.h"

#include "upipe/ubase.h"
#include "upipe/ubits.h"
#include "upipe/umem.h"
#include "upipe/umem_alloc.h"
#include "upipe/ubuf.h"
#include "upipe/ubuf_block.h"
#include "upipe/ubuf_block_mem.h"
#include "upipe/ubuf_block_stream.h"

#include <stdlib.h>
#include <string.h>

#define MAXF 64
#define CANARY 32

static struct umem_mgr *umem_mgr;
static struct ubuf_mgr *block_mgr[3];

struct field { uint8_t w; uint32_t v; };

static void ref_pack(const struct field *f, int n, uint8_t *out, size_t outsz)
{
    memset(out, 0, outsz);
    size_t bit = 0;
    for (int i = 0; i < n; i++)
        for (int b = f[i].w - 1; b >= 0; b--, bit++)
            if ((f[i].v >> b) & 1)
                out[bit >> 3] |= 0x80 >> (bit & 7);
}

static uint32_t gen_value(struct vh_rng *r, int w)
{
    uint32_t mask = w == 32 ? 0xffffffffu : ((1u << w) - 1);
    switch (vh_below(r, 6)) {
        case 0: return 0;
        case 1: return mask;
        case 2: return 1u << (w - 1);
        case 3: return mask & 0x55555555u;
        default: return (uint32_t)vh_rand(r) & mask;
    }
}

static int gen_fields(struct vh_rng *r, struct field *f)
{
    int n;
    int style = vh_below(r, 8);
    switch (style) {
        case 0: /* runs of 32-bit fields */
            n = 1 + vh_below(r, 12);
            for (int i = 0; i < n; i++) f[i].w = 32;
            break;
        case 1: { /* 31 / 32 / 1 alternations */
            static const uint8_t ws[] = { 31, 32, 1, 32, 1, 31, 24, 8, 32 };
            n = 1 + vh_below(r, 24);
            int o = vh_below(r, 9);
            for (int i = 0; i < n; i++) f[i].w = ws[(i + o) % 9];
            break;
        }
        case 2: { /* totals hitting every residue mod 32: prefix then 32s */
            n = 2 + vh_below(r, 10);
            f[0].w = 1 + vh_below(r, 32);
            for (int i = 1; i < n; i++) f[i].w = vh_chance(r, 3, 4) ? 32 : 1 + vh_below(r, 32);
            break;
        }
        case 3: /* small widths */
            n = 1 + vh_below(r, MAXF);
            for (int i = 0; i < n; i++) f[i].w = 1 + vh_below(r, 9);
            break;
        default:
            n = 1 + vh_below(r, MAXF);
            for (int i = 0; i < n; i++) f[i].w = 1 + vh_below(r, 32);
            break;
    }
    for (int i = 0; i < n; i++)
        f[i].v = gen_value(r, f[i].w);
    vh_count_dyn("style.%d", style);
    return n;
}

/* buffer holder: either an exact-size heap block (ASan red zones adjacent) or
 * a window inside a larger block surrounded by canaries */
struct hbuf { uint8_t *base; uint8_t *p; size_t size; bool canary; };

static void hbuf_alloc(struct hbuf *h, size_t size, bool canary)
{
    h->size = size;
    h->canary = canary;
    if (canary) {
        h->base = malloc(size + 2 * CANARY);
        memset(h->base, 0xA5, size + 2 * CANARY);
        h->p = h->base + CANARY;
    } else {
        h->base = malloc(size);
        h->p = h->base;
    }
}

static bool hbuf_check(struct hbuf *h)
{
    if (!h->canary) return true;
    for (int i = 0; i < CANARY; i++)
        if (h->base[i] != 0xA5 || h->p[h->size + i] != 0xA5)
            return false;
    return true;
}

static void hbuf_free(struct hbuf *h) { free(h->base); h->base = NULL; }

static struct ubuf *make_block(struct vh_rng *r, const uint8_t *bytes, size_t n,
                               int *nseg_p)
{
    struct ubuf_mgr *mgr = block_mgr[vh_below(r, 3)];
    struct ubuf *head = NULL;
    size_t pos = 0;
    int nseg = 0;
    int maxseg = 1 + vh_below(r, 6);
    if (vh_chance(r, 1, 5)) maxseg = 64; /* many tiny segments */
    while (pos < n || head == NULL) {
        size_t left = n - pos;
        size_t sz;
        if (nseg + 1 >= maxseg) sz = left;
        else if (left == 0) sz = 0;
        else if (maxseg == 64) sz = 1 + vh_below(r, 2);
        else sz = vh_below(r, (uint32_t)left + 1);
        if (sz > left) sz = left;
        if (sz == 0 && head != NULL && !vh_chance(r, 1, 6)) { sz = left ? 1 : 0; if (!left) break; }
        struct ubuf *seg = ubuf_block_alloc(mgr, (int)sz);
        if (!seg) abort();
        if (sz) {
            uint8_t *w; int ws = -1;
            if (!ubase_check(ubuf_block_write(seg, 0, &ws, &w)) || ws != (int)sz) abort();
            memcpy(w, bytes + pos, sz);
            ubuf_block_unmap(seg, 0);
        }
        pos += sz;
        nseg++;
        if (!head) head = seg;
        else if (!ubase_check(ubuf_block_append(head, seg))) abort();
        if (pos >= n && (nseg >= maxseg || !vh_chance(r, 1, 8))) break;
    }
    *nseg_p = nseg;
    return head;
}

static uint32_t stream_read_field(struct ubuf_block_stream *s, int w)
{
    /* chunks of at most 25 bits: the largest width for which the 32-bit
     * cache arithmetic of fill_bits is defined whatever the fill level */
    uint32_t v = 0;
    while (w > 0) {
        int c = w > 25 ? 16 : w;
        ubuf_block_stream_fill_bits(s, c);
        uint32_t part = ubuf_block_stream_show_bits(s, c);
        ubuf_block_stream_skip_bits(s, c);
        v = (c == 32) ? part : ((v << c) | part);
        w -= c;
    }
    return v;
}

static void run_case(struct vh_rng *r)
{
    struct field f[MAXF];
    int n = gen_fields(r, f);
    size_t total = 0;
    uint64_t h = 0;
    for (int i = 0; i < n; i++) { total += f[i].w; h = vh_hash_mix(h, f[i].w | ((uint64_t)f[i].v << 8)); }
    size_t need = (total + 7) / 8;
    uint8_t ref[MAXF * 4 + 8];
    ref_pack(f, n, ref, sizeof(ref));

    /* --- writer --- */
    size_t bsz;
    int szc = vh_below(r, 20);
    if (szc < 10) bsz = need;
    else if (szc < 14) bsz = need ? need - 1 - vh_below(r, need > 4 ? 4 : (uint32_t)need) : 0;
    else if (szc < 15) bsz = 0;
    else if (szc < 16) bsz = need > 4 ? vh_below(r, (uint32_t)need) : 0;
    else bsz = need + 1 + vh_below(r, 7);
    bool canary = vh_chance(r, 1, 2);
    struct hbuf wb;
    hbuf_alloc(&wb, bsz, canary);
    vh_tr("fields n=%d total=%zu need=%zu bsz=%zu canary=%d", n, total, need, bsz, canary);
    if (vh_opts.verbose) for (int i = 0; i < n; i++) vh_tr("f%d w=%d v=%x", i, f[i].w, f[i].v);

    struct ubits wr;
    ubits_init(&wr, wb.p, bsz, UBITS_WRITE);
    for (int i = 0; i < n; i++)
        ubits_put(&wr, f[i].w, f[i].v);
    uint8_t *endp = NULL;
    int err = ubits_clean(&wr, &endp);
    VH_COUNT("write.sequences");
    VH_ADD("write.fields", n);
    if (!hbuf_check(&wb))
        vh_violation("c18:writer:canary", "writer touched memory outside its %zu-byte buffer", bsz);
    if (need > bsz) {
        VH_COUNT("write.too_small");
        if (ubase_check(err))
            vh_violation("c18:writer:missed-nospc", "need %zu bytes, buffer %zu, clean returned success", need, bsz);
    } else {
        VH_COUNT("write.fits");
        if (!ubase_check(err))
            vh_violation("c18:writer:spurious-nospc", "need %zu bytes, buffer %zu, clean returned %d overflow=%d", need, bsz, err, wr.overflow);
        if ((size_t)(endp - wb.p) != need)
            vh_violation("c18:writer:length", "produced %td bytes, expected %zu (total %zu bits)", endp - wb.p, need, total);
        if (memcmp(wb.p, ref, need)) {
            size_t k = 0; while (wb.p[k] == ref[k]) k++;
            vh_violation("c18:writer:bytes", "byte %zu is %02x, reference %02x (n=%d total=%zu)", k, wb.p[k], ref[k], n, total);
        }
    }
    hbuf_free(&wb);

    /* --- ubits reader over reference bytes, full or truncated --- */
    size_t rsz = need;
    if (vh_chance(r, 1, 4)) rsz = vh_below(r, (uint32_t)need + 1);
    struct hbuf rb;
    hbuf_alloc(&rb, rsz, vh_chance(r, 1, 2));
    memcpy(rb.p, ref, rsz);
    struct ubits rd;
    ubits_init(&rd, rb.p, rsz, UBITS_READ);
    size_t bits = 0;
    for (int i = 0; i < n; i++) {
        uint32_t v = ubits_get(&rd, f[i].w);
        bits += f[i].w;
        if (bits <= rsz * 8) {
            if (rd.overflow)
                vh_violation("c18:ubits_get:spurious-overflow", "overflow set after %zu bits of %zu available", bits, rsz * 8);
            if (v != f[i].v)
                vh_violation("c18:ubits_get:value", "field %d width %d read %x expected %x", i, f[i].w, v, f[i].v);
            VH_COUNT("get.fields_ok");
        } else {
            if (!rd.overflow)
                vh_violation("c18:ubits_get:missed-overflow", "read %zu bits from %zu-bit buffer without overflow", bits, rsz * 8);
            VH_COUNT("get.overflow_seen");
            break;
        }
    }
    if (!hbuf_check(&rb))
        vh_violation("c18:ubits_get:canary", "reader wrote outside its buffer");
    hbuf_free(&rb);

    /* --- block bit-stream reader over a random segmentation --- */
    size_t ssz = need;
    if (vh_chance(r, 1, 5)) ssz = vh_below(r, (uint32_t)need + 1);
    int nseg = 0;
    int start_field = vh_chance(r, 1, 2) ? 0 : (int)vh_below(r, n);
    size_t start_bits = 0;
    for (int i = 0; i < start_field; i++) start_bits += f[i].w;
    bool opaque = vh_chance(r, 1, 6) && start_bits % 8 == 0;
    if (start_bits / 8 >= ssz && ssz > 0) { start_field = 0; start_bits = 0; }
    if (ssz == 0) return;
    struct ubuf_block_stream s;
    struct ubuf *ubuf = NULL;
    struct hbuf ob = { 0 };
    if (opaque) {
        hbuf_alloc(&ob, ssz - start_bits / 8, false);
        memcpy(ob.p, ref + start_bits / 8, ssz - start_bits / 8);
        ubuf_block_stream_init_from_opaque(&s, ob.p, ssz - start_bits / 8);
        VH_COUNT("stream.opaque");
    } else {
        ubuf = make_block(r, ref, ssz, &nseg);
        vh_tr("stream nseg=%d ssz=%zu start_bits=%zu", nseg, ssz, start_bits);
        if (!ubase_check(ubuf_block_stream_init_bits(&s, ubuf, (int)start_bits)))
            vh_violation("c18:stream:init", "init_bits(%zu) failed on %zu-byte block", start_bits, ssz);
        vh_count_dyn("stream.startbit.%d", (int)(start_bits % 8));
        if (nseg > 1) VH_COUNT("stream.multiseg");
        if (nseg >= 3) vh_nontrivial(vh_hash_mix(h, nseg * 131 + start_bits));
    }
    bits = start_bits;
    for (int i = start_field; i < n; i++) {
        uint32_t v = stream_read_field(&s, f[i].w);
        bits += f[i].w;
        if (bits <= ssz * 8) {
            if (s.overflow)
                vh_violation("c18:stream:spurious-overflow", "overflow after %zu bits of %zu", bits, ssz * 8);
            if (v != f[i].v)
                vh_violation("c18:stream:value", "field %d width %d read %x expected %x (nseg %d start %zu)", i, f[i].w, v, f[i].v, nseg, start_bits);
            VH_COUNT("stream.fields_ok");
        } else {
            if (!s.overflow)
                vh_violation("c18:stream:missed-overflow", "read %zu bits from %zu-bit block without overflow", bits, ssz * 8);
            VH_COUNT("stream.overflow_seen");
            break;
        }
    }
    ubuf_block_stream_clean(&s);
    if (ubuf) ubuf_free(ubuf);
    if (opaque) hbuf_free(&ob);
    vh_nontrivial(h);
    if (vh_want_sample()) {
        char buf[600]; int o = 0;
        o += snprintf(buf + o, sizeof(buf) - o, "fields(w:v)=");
        for (int i = 0; i < n && o < 500; i++) o += snprintf(buf + o, sizeof(buf) - o, "%d:%x ", f[i].w, f[i].v);
        snprintf(buf + o, sizeof(buf) - o, "| wbuf=%zu need=%zu segs=%d startbit=%zu", bsz, need, nseg, start_bits);
        vh_sample("%s", buf);
    }
}

static void init(void)
{
    umem_mgr = umem_alloc_mgr_alloc();
    block_mgr[0] = ubuf_block_mem_mgr_alloc(0, 0, umem_mgr, 0, 0, 0, 0);
    block_mgr[1] = ubuf_block_mem_mgr_alloc(4, 4, umem_mgr, -1, 0, -1, 0);
    block_mgr[2] = ubuf_block_mem_mgr_alloc(0, 0, umem_mgr, 3, 5, 16, -3);
}

static void fini(void)
{
    for (int i = 0; i < 3; i++) ubuf_mgr_release(block_mgr[i]);
    umem_mgr_release(umem_mgr);
}

static const struct vh_lab lab = { "bits", init, run_case, fini };
int main(int argc, char **argv) { return vh_main(argc, argv, &lab); }
