/* C19 — picture and sound windows stay inside the allocation and keep their
 * content; picture/sound part of C02 (copy-on-write isolation).
 *
 * Position-coded content: every octet written through an accepted write window
 * is a hash of (plane, absolute column, absolute row, octet, generation); each
 * handle has its own model in absolute coordinates that follows every resize,
 * and after each step the whole visible area of every plane of every handle is
 * read back through random tilings and compared. */
#include "vh.h"
#include "cumem.h"

#include "upipe/ubase.h"
#include "upipe/umem.h"
#include "upipe/ubuf.h"
#include "upipe/ubuf_pic.h"
#include "upipe/ubuf_pic_mem.h"
#include "upipe/ubuf_sound.h"
#include "upipe/ubuf_sound_mem.h"
#include "upipe/ubuf_block.h"
#include "upipe/ubuf_block_mem.h"
#include "upipe/udict.h"
#include "upipe/udict_inline.h"
#include "upipe/uref.h"
#include "upipe/uref_std.h"
#include "upipe/uref_pic_flow.h"
#include "upipe/uref_pic_flow_formats.h"

#include <stdlib.h>
#include <string.h>

static struct vh_rng *R;
static struct umem_mgr *umem;
static bool mode_c02;
static uint64_t case_hash;
static uint32_t generation;
static char opbuf[256];
static const char *opname = "";
#define OP(...) do { snprintf(opbuf, sizeof(opbuf), __VA_ARGS__); opname = opbuf; vh_tr("%s", opbuf); case_hash = vh_hash_bytes(case_hash, opbuf, strlen(opbuf)); } while (0)

static uint8_t code(int plane, int col, int row, int b)
{
    uint64_t h = vh_hash_mix(generation, ((uint64_t)plane << 48) ^ ((uint64_t)(uint16_t)col << 32) ^ ((uint64_t)(uint16_t)row << 16) ^ b);
    return (uint8_t)(h >> 24);
}

/* ============================ pictures ============================ */

#define MAXP 5
#define MAXPH 6

struct pmodel {           /* one plane of one handle */
    uint8_t *v;           /* cols x rows x mps octets */
    uint8_t *known;
};

struct pic {
    struct ubuf *ubuf;
    int ax, ay;           /* absolute pixel position of the handle's (0,0) */
    int hs, vs;           /* visible size in pixels / lines */
    struct pmodel pl[MAXP];
    bool sole;            /* memory certainly not shared with a live handle */
};

static const struct uref_pic_flow_format *fmt;
static struct ubuf_mgr *pic_mgr;
static int mp;                      /* pixels per macropixel */
static int np;
static int hsub[MAXP], vsub[MAXP], mps[MAXP];
static int hprep, happ, vprep, vapp;   /* manager margins, pixels / lines */
static int H0, V0;                      /* allocation visible size */
static int hgran, vgran;                /* granularity valid for all planes */
static int offc[MAXP], offr[MAXP], ncols[MAXP], nrows[MAXP];
static struct pic P[MAXPH];
static int npic;

static int floordiv(int a, int b) { return a >= 0 ? a / b : -((-a + b - 1) / b); }

static inline size_t midx(int p, int col, int row, int b)
{
    return ((size_t)(row + offr[p]) * ncols[p] + (col + offc[p])) * mps[p] + b;
}

static void pic_model_alloc(struct pic *h)
{
    for (int p = 0; p < np; p++) {
        size_t n = (size_t)ncols[p] * nrows[p] * mps[p];
        h->pl[p].v = calloc(n, 1);
        h->pl[p].known = calloc(n, 1);
    }
}

static void pic_model_copy(struct pic *d, const struct pic *s)
{
    for (int p = 0; p < np; p++) {
        size_t n = (size_t)ncols[p] * nrows[p] * mps[p];
        d->pl[p].v = malloc(n); memcpy(d->pl[p].v, s->pl[p].v, n);
        d->pl[p].known = malloc(n); memcpy(d->pl[p].known, s->pl[p].known, n);
    }
}

static void pic_drop(int i)
{
    ubuf_free(P[i].ubuf);
    for (int p = 0; p < np; p++) { free(P[i].pl[p].v); free(P[i].pl[p].known); }
    P[i] = P[--npic];
}

/* reference acceptance predicate for a plane window (documented rules) */
static const char *win_reject_reason(struct pic *h, int p, int ho, int vo, int hsz, int vsz,
                                     int *aho, int *avo, int *ahs, int *avs)
{
    int H = h->hs, V = h->vs;
    if (ho < 0) ho += H;
    if (vo < 0) vo += V;
    if (ho < 0 || vo < 0) return "before-origin";
    if (hsz == -1) hsz = H - ho;
    if (vsz == -1) vsz = V - vo;
    if (hsz < 0 || vsz < 0) return "exceeds";
    if (ho > H || vo > V || ho + hsz > H || vo + vsz > V) return "exceeds";
    if (ho % (mp * hsub[p]) || hsz % (mp * hsub[p]) || vo % vsub[p] || vsz % vsub[p]) return "granularity";
    *aho = ho; *avo = vo; *ahs = hsz; *avs = vsz;
    return NULL;
}

/* every octet of an accepted window must lie inside the umem block */
static void check_window_memory(const uint8_t *ptr, size_t stride, int p, int cols, int rows, const char *what)
{
    if (!cols || !rows) return;
    uint8_t *base; size_t size;
    const uint8_t *last = ptr + (size_t)(rows - 1) * stride + (size_t)cols * mps[p] - 1;
    if (!cumem_find(umem, ptr, &base, &size) || last < base || last >= base + size)
        vh_violation("c19:window-outside-allocation", "%s: %s window of plane %d (%d cols x %d rows, stride %zu) is not inside the buffer allocation", opname, what, p, cols, rows, stride);
}

static void pic_compare_window(struct pic *h, int p, int ho, int vo, int hsz, int vsz, const uint8_t *ptr, size_t stride, const char *why)
{
    int cols = hsz / (mp * hsub[p]), rows = vsz / vsub[p];
    int c0 = floordiv(h->ax + ho, mp * hsub[p]), r0 = floordiv(h->ay + vo, vsub[p]);
    check_window_memory(ptr, stride, p, cols, rows, "read");
    for (int r = 0; r < rows; r++)
        for (int c = 0; c < cols; c++)
            for (int b = 0; b < mps[p]; b++) {
                size_t i = midx(p, c0 + c, r0 + r, b);
                uint8_t got = ptr[(size_t)r * stride + (size_t)c * mps[p] + b];
                if (!h->pl[p].known[i]) { h->pl[p].known[i] = 1; h->pl[p].v[i] = got; }
                else if (h->pl[p].v[i] != got)
                    vh_violation(!strcmp(why, "sibling") ? "c02:pic-sibling-content-changed" : "c19:pic-content",
                                 "after %s (%s): plane %s col %d row %d octet %d reads %02x, model %02x", opname, why, fmt->planes[p].chroma, c0 + c, r0 + r, b, got, h->pl[p].v[i]);
            }
}

/* read the whole visible area of every plane through a random tiling */
static void pic_check(struct pic *h, const char *why)
{
    size_t hs = 0, vs = 0; uint8_t m = 0;
    if (!ubase_check(ubuf_pic_size(h->ubuf, &hs, &vs, &m)) || (int)hs != h->hs || (int)vs != h->vs || m != mp)
        vh_violation("c19:pic-size", "after %s (%s): size %zux%zu mp %d, model %dx%d mp %d", opname, why, hs, vs, m, h->hs, h->vs, mp);
    for (int p = 0; p < np; p++) {
        const char *chroma = fmt->planes[p].chroma;
        size_t stride = 0; uint8_t hsb, vsb, ms;
        if (!ubase_check(ubuf_pic_plane_size(h->ubuf, chroma, &stride, &hsb, &vsb, &ms)) || hsb != hsub[p] || vsb != vsub[p] || ms != mps[p])
            vh_violation("c19:plane-size", "plane_size(%s) inconsistent", chroma);
        int gx = mp * hsub[p], gy = vsub[p];
        /* tiling: split columns and rows at random granule boundaries */
        int x = 0;
        while (x < h->hs) {
            int w = gx * (1 + (int)vh_below(R, (h->hs - x) / gx));
            if (vh_chance(R, 1, 2)) w = h->hs - x;
            int y = 0;
            while (y < h->vs) {
                int l = gy * (1 + (int)vh_below(R, (h->vs - y) / gy));
                if (vh_chance(R, 1, 2)) l = h->vs - y;
                const uint8_t *ptr = NULL;
                int aw = (x + w == h->hs && vh_chance(R, 1, 3)) ? -1 : w;
                int al = (y + l == h->vs && vh_chance(R, 1, 3)) ? -1 : l;
                int ax = (x > 0 && vh_chance(R, 1, 4)) ? x - h->hs : x;
                int ay = (y > 0 && vh_chance(R, 1, 4)) ? y - h->vs : y;
                int err = ubuf_pic_plane_read(h->ubuf, chroma, ax, ay, aw, al, &ptr);
                if (!ubase_check(err))
                    vh_violation("c19:window-refused", "after %s: valid read window (%d,%d,%d,%d) of plane %s refused (%d) on %dx%d", opname, ax, ay, aw, al, chroma, err, h->hs, h->vs);
                pic_compare_window(h, p, x, y, w, l, ptr, stride, why);
                ubuf_pic_plane_unmap(h->ubuf, chroma, ax, ay, aw, al);
                VH_COUNT("pic.read_windows");
                y += l;
            }
            x += w;
        }
    }
}

static void pic_check_all(struct pic *except)
{
    for (int i = 0; i < npic; i++)
        if (&P[i] != except)
            pic_check(&P[i], "sibling");
}

/* formats of the code base that are not in uref_pic_flow_formats[]: macropixels
 * that are not a power of two (v210 as allocated by the blackmagic / v210
 * modules: 6 pixels in 16 octets; a 3-pixel 4-octet packing of 10-bit samples) */
UREF_PIC_FLOW_FORMAT(vh_v210, 6, { 1, 1, 16, "u10y10v10y10u10y10v10y10u10y10v10y10", 128 });
UREF_PIC_FLOW_FORMAT(vh_y10x3, 3, { 1, 1, 4, "y10y10y10", 32 });
UREF_PIC_FLOW_FORMAT(vh_y10x3_420, 3, { 1, 1, 4, "y10y10y10", 32 }, { 2, 2, 4, "u10u10u10", 32 }, { 2, 2, 4, "v10v10v10", 32 });
static const struct uref_pic_flow_format *const vh_local_formats[] = {
    &uref_pic_flow_format_vh_v210, &uref_pic_flow_format_vh_y10x3, &uref_pic_flow_format_vh_y10x3_420,
};

static void pic_setup_format(void)
{
    if (vh_chance(R, 1, 8))
        fmt = vh_local_formats[vh_below(R, UBASE_ARRAY_SIZE(vh_local_formats))];
    else
        fmt = uref_pic_flow_formats[vh_below(R, UBASE_ARRAY_SIZE(uref_pic_flow_formats))];
    mp = fmt->macropixel;
    np = fmt->nb_planes;
    if (np > MAXP) vh_skip_case();
    static const int margins[] = { 0, 1, 2, 8 };
    static const int aligns[] = { 0, 16, 32, 64 };
    static const int ahm[] = { 0, -1, 1, 2 };
    hprep = margins[vh_below(R, 4)] * mp; happ = margins[vh_below(R, 4)] * mp;
    vprep = margins[vh_below(R, 4)]; vapp = margins[vh_below(R, 4)];
    int def = 0; /* default margins are private to the implementation */
    int align = aligns[vh_below(R, 4)], aoff = ahm[vh_below(R, 4)];
    int depth = vh_chance(R, 1, 2) ? 0 : 2;
    pic_mgr = ubuf_pic_mem_mgr_alloc(depth, depth, umem, mp,
                                     def ? -1 : hprep, def ? -1 : happ, def ? -1 : vprep, def ? -1 : vapp,
                                     def ? -1 : align, aoff);
    hgran = mp; vgran = 1;
    for (int p = 0; p < np; p++) {
        hsub[p] = fmt->planes[p].hsub; vsub[p] = fmt->planes[p].vsub; mps[p] = fmt->planes[p].mpixel_size;
        if (!ubase_check(ubuf_pic_mem_mgr_add_plane(pic_mgr, fmt->planes[p].chroma, hsub[p], vsub[p], mps[p])))
            vh_violation("c19:add-plane", "add_plane failed");
        if (mp * hsub[p] > hgran) hgran = mp * hsub[p];
        if (vsub[p] > vgran) vgran = vsub[p];
    }
    vh_tr("fmt=%s mp=%d planes=%d margins h%d/%d v%d/%d align=%d/%d def=%d pool=%d", fmt->name, mp, np, hprep, happ, vprep, vapp, align, aoff, def, depth);
    vh_count_dyn("pic.fmt.%s", fmt->name);
}

static void pic_new(void)
{
    int k = 1 + vh_below(R, 9), l = 1 + vh_below(R, 9);
    H0 = hgran * k; V0 = vgran * l;
    for (int p = 0; p < np; p++) {
        offc[p] = hprep / (mp * hsub[p]) + 2; offr[p] = vprep / vsub[p] + 2;
        ncols[p] = offc[p] + (H0 + happ) / (mp * hsub[p]) + 3;
        nrows[p] = offr[p] + (V0 + vapp) / vsub[p] + 3;
    }
    /* sizes that are not multiples of the granularity must be refused */
    if (hgran > 1 && vh_chance(R, 1, 3)) {
        int bad = H0 + 1 + vh_below(R, hgran - 1);
        OP("pic_alloc(%d,%d) [bad width]", bad, V0);
        struct ubuf *u = ubuf_pic_alloc(pic_mgr, bad, V0);
        if (u) { ubuf_free(u); vh_violation("c19:alloc-accepted:granularity", "picture %dx%d allocated although width is not a multiple of %d", bad, V0, hgran); }
        VH_COUNT("pic.alloc_refused");
    }
    if (vgran > 1 && vh_chance(R, 1, 3)) {
        int bad = V0 + 1 + vh_below(R, vgran - 1);
        struct ubuf *u = ubuf_pic_alloc(pic_mgr, H0, bad);
        if (u) { ubuf_free(u); vh_violation("c19:alloc-accepted:granularity", "picture %dx%d allocated although height is not a multiple of %d", H0, bad, vgran); }
        VH_COUNT("pic.alloc_refused");
    }
    OP("p0=pic_alloc(%d,%d)", H0, V0);
    struct ubuf *u = ubuf_pic_alloc(pic_mgr, H0, V0);
    if (!u) vh_violation("c19:alloc-failed", "pic_alloc(%d,%d) failed for %s", H0, V0, fmt->name);
    struct pic *h = &P[npic++];
    memset(h, 0, sizeof(*h));
    h->ubuf = u; h->ax = h->ay = 0; h->hs = H0; h->vs = V0; h->sole = true;
    pic_model_alloc(h);
    VH_COUNT("pic.alloc");
}

static void pic_op_write(void)
{
    struct pic *h = &P[vh_below(R, npic)];
    int p = vh_below(R, np);
    const char *chroma = fmt->planes[p].chroma;
    int gx = mp * hsub[p], gy = vsub[p];
    int ho, vo, hsz, vsz;
    int c = vh_below(R, 24);
    /* mostly valid windows, sometimes every kind of invalid one */
    ho = gx * (int)vh_below(R, h->hs / gx + 1);
    vo = gy * (int)vh_below(R, h->vs / gy + 1);
    hsz = ho < h->hs ? gx * (1 + (int)vh_below(R, (h->hs - ho) / gx)) : 0;
    vsz = vo < h->vs ? gy * (1 + (int)vh_below(R, (h->vs - vo) / gy)) : 0;
    if (vh_chance(R, 1, 5)) hsz = -1;
    if (vh_chance(R, 1, 5)) vsz = -1;
    if (vh_chance(R, 1, 6) && ho > 0) ho -= h->hs;
    if (vh_chance(R, 1, 6) && vo > 0) vo -= h->vs;
    switch (c) {
        case 0: if (gx > 1) ho += 1 + vh_below(R, gx - 1); break;            /* granularity */
        case 1: if (gy > 1) vo += 1 + vh_below(R, gy - 1); break;
        case 2: if (gx > 1 && hsz > 0) hsz += 1 + vh_below(R, gx - 1); else hsz = h->hs + gx; break;
        case 3: hsz = h->hs + gx * (1 + (int)vh_below(R, 3)); break;         /* exceeds */
        case 4: vsz = h->vs + gy * (1 + (int)vh_below(R, 3)); break;
        case 5: ho = -h->hs - gx * (1 + (int)vh_below(R, 3)); hsz = gx; break;   /* before origin */
        case 6: vo = -h->vs - gy * (1 + (int)vh_below(R, 3)); vsz = gy; break;
        case 7: ho = h->hs + gx * (int)vh_below(R, 3); if (hsz == -1 && ho == h->hs) hsz = gx; break; /* at / past the end */
        default: break;
    }
    bool rd = vh_chance(R, 1, 4);
    OP("%s(p%d,%s,%d,%d,%d,%d)", rd ? "read" : "write", (int)(h - P), chroma, ho, vo, hsz, vsz);
    int aho, avo, ahs, avs;
    const char *why = win_reject_reason(h, p, ho, vo, hsz, vsz, &aho, &avo, &ahs, &avs);
    if (!why && (ahs == 0 || avs == 0)) return; /* empty windows: not judged */
    uint8_t *ptr = NULL;
    int err = rd ? ubuf_pic_plane_read(h->ubuf, chroma, ho, vo, hsz, vsz, (const uint8_t **)&ptr)
                 : ubuf_pic_plane_write(h->ubuf, chroma, ho, vo, hsz, vsz, &ptr);
    size_t stride = 0;
    ubuf_pic_plane_size(h->ubuf, chroma, &stride, NULL, NULL, NULL);
    if (why) {
        vh_count_dyn("pic.invalid_window.%s", why);
        if (ubase_check(err)) {
            ubuf_pic_plane_unmap(h->ubuf, chroma, ho, vo, hsz, vsz);
            char key[80];
            snprintf(key, sizeof(key), "c19:window-accepted:%s", why);
            vh_violation(key, "%s window (%d,%d,%d,%d) of plane %s (hsub %d vsub %d mp %d) accepted on %dx%d %s", rd ? "read" : "write", ho, vo, hsz, vsz, chroma, hsub[p], vsub[p], mp, h->hs, h->vs, fmt->name);
        }
        return;
    }
    if (!ubase_check(err)) {
        if (rd || h->sole)
            vh_violation(rd ? "c19:window-refused" : "c02:pic-write-refused-on-sole-owner", "%s window (%d,%d,%d,%d) of plane %s refused (%d) on %dx%d", rd ? "read" : "write", ho, vo, hsz, vsz, chroma, err, h->hs, h->vs);
        VH_COUNT("pic.write_refused");
        return;
    }
    if (rd) {
        pic_compare_window(h, p, aho, avo, ahs, avs, ptr, stride, "self");
        ubuf_pic_plane_unmap(h->ubuf, chroma, ho, vo, hsz, vsz);
        VH_COUNT("pic.read_windows");
        return;
    }
    /* write position-coded octets */
    generation++;
    int cols = ahs / gx, rows = avs / gy;
    int c0 = floordiv(h->ax + aho, gx), r0 = floordiv(h->ay + avo, gy);
    check_window_memory(ptr, stride, p, cols, rows, "write");
    for (int r = 0; r < rows; r++)
        for (int cc = 0; cc < cols; cc++)
            for (int b = 0; b < mps[p]; b++) {
                uint8_t v = code(p, c0 + cc, r0 + r, b);
                ptr[(size_t)r * stride + (size_t)cc * mps[p] + b] = v;
                size_t i = midx(p, c0 + cc, r0 + r, b);
                h->pl[p].v[i] = v; h->pl[p].known[i] = 1;
            }
    ubuf_pic_plane_unmap(h->ubuf, chroma, ho, vo, hsz, vsz);
    VH_COUNT("pic.write_windows");
    if (cumem_check_all(umem))
        vh_violation("c19:canary", "after %s: guard zone of a buffer overwritten", opname);
    pic_check(h, "self");
    pic_check_all(h);
}

static void pic_op_dup(void)
{
    if (npic >= MAXPH) return;
    struct pic *h = &P[vh_below(R, npic)];
    OP("p%d=dup(p%d)", npic, (int)(h - P));
    struct ubuf *d = ubuf_dup(h->ubuf);
    if (!d) vh_violation("c19:dup-failed", "ubuf_dup failed");
    struct pic *n = &P[npic++];
    *n = *h;
    n->ubuf = d;
    pic_model_copy(n, h);
    h->sole = n->sole = false;
    VH_COUNT("pic.dup");
    /* both handles alive, nothing happened since: writes must be refused */
    if (vh_chance(R, 1, 2)) {
        struct pic *t = vh_chance(R, 1, 2) ? h : n;
        int p = vh_below(R, np);
        uint8_t *w;
        int err = ubuf_pic_plane_write(t->ubuf, fmt->planes[p].chroma, 0, 0, -1, -1, &w);
        if (ubase_check(err)) {
            ubuf_pic_plane_unmap(t->ubuf, fmt->planes[p].chroma, 0, 0, -1, -1);
            vh_violation("c02:pic-write-granted-on-shared", "write mapping of plane %s granted right after dup, both handles alive", fmt->planes[p].chroma);
        }
        VH_COUNT("c02.pic_refusal_checked");
    }
    pic_check(n, "self");
}

static void pic_op_free(void)
{
    if (npic <= 1) return;
    int i = vh_below(R, npic);
    OP("free(p%d)", i);
    pic_drop(i);
    VH_COUNT("pic.free");
    pic_check_all(NULL);
}

static void pic_op_resize(void)
{
    struct pic *h = &P[vh_below(R, npic)];
    int hskip, vskip, nh, nv;
    int c = vh_below(R, 12);
    /* crop by default */
    hskip = hgran * (int)vh_below(R, h->hs / hgran);
    vskip = vgran * (int)vh_below(R, h->vs / vgran);
    nh = hgran * (1 + (int)vh_below(R, (h->hs - hskip) / hgran));
    nv = vgran * (1 + (int)vh_below(R, (h->vs - vskip) / vgran));
    if (vh_chance(R, 1, 4)) { nh = -1; }
    if (vh_chance(R, 1, 4)) { nv = -1; }
    if (vh_chance(R, 1, 3)) hskip = 0;
    if (vh_chance(R, 1, 3)) vskip = 0;
    bool extend = false;
    switch (c) {
        case 0: case 1: hskip = -hgran * (int)(1 + vh_below(R, 3)); nh = h->hs - hskip; extend = true; break;   /* extend left */
        case 2: case 3: vskip = -vgran * (int)(1 + vh_below(R, 3)); nv = h->vs - vskip; extend = true; break;   /* extend up */
        case 4: nh = h->hs - hskip + hgran * (int)(1 + vh_below(R, 3)); extend = true; break;                 /* extend right */
        case 5: nv = h->vs - vskip + vgran * (int)(1 + vh_below(R, 3)); extend = true; break;                 /* extend down */
        case 6: if (hgran > 1) hskip += 1; break;                                                               /* bad granularity */
        case 7: if (vgran > 1) vskip += 1; break;
        case 8: if (hgran > 1 && nh > 0) nh += 1; break;
        case 9: if (hgran > 1) { hskip = -hgran * (int)(1 + vh_below(R, 3)) + 1 + (int)vh_below(R, hgran - 1); nh = -1; extend = true; } break; /* leftwards, bad granularity */
        case 10: if (vgran > 1) { vskip = -vgran * (int)(1 + vh_below(R, 3)) + 1 + (int)vh_below(R, vgran - 1); nv = -1; extend = true; } break;
        default: break;
    }
    /* one call in four goes to the manager directly, without the inline
     * pre-check of ubuf_pic_resize() */
    bool raw = vh_chance(R, 1, 4);
    OP("resize(p%d,%d,%d,%d,%d)", (int)(h - P), hskip, vskip, nh, nv);
    int enh = nh == -1 ? h->hs - hskip : nh, env = nv == -1 ? h->vs - vskip : nv;
    bool gran_ok = hskip % hgran == 0 && vskip % vgran == 0 && enh % hgran == 0 && env % vgran == 0;
    bool inside = enh > 0 && env > 0 &&
        h->ax + hskip >= -hprep && h->ax + hskip + enh <= H0 + happ &&
        h->ay + vskip >= -vprep && h->ay + vskip + env <= V0 + vapp;
    bool pure_crop = hskip >= 0 && vskip >= 0 && hskip + enh <= h->hs && vskip + env <= h->vs && enh > 0 && env > 0;
    int err = raw ? ubuf_control(h->ubuf, UBUF_RESIZE_PICTURE, hskip, vskip, nh, nv)
                  : ubuf_pic_resize(h->ubuf, hskip, vskip, nh, nv);
    VH_COUNT("pic.resize");
    if (raw) VH_COUNT("pic.resize_raw_control");
    if (ubase_check(err)) {
        if (!gran_ok)
            vh_violation("c19:resize-accepted:granularity", "resize(%d,%d,%d,%d) accepted on %dx%d %s (granularity %dx%d)", hskip, vskip, nh, nv, h->hs, h->vs, fmt->name, hgran, vgran);
        if (!inside)
            vh_violation("c19:resize-accepted:exceeds", "resize(%d,%d,%d,%d) accepted on %dx%d at (%d,%d) with margins h%d/%d v%d/%d of %dx%d", hskip, vskip, nh, nv, h->hs, h->vs, h->ax, h->ay, hprep, happ, vprep, vapp, H0, V0);
        h->ax += hskip; h->ay += vskip; h->hs = enh; h->vs = env;
        if (extend) { VH_COUNT("pic.resize_extended"); h->sole = false; /* margins may be visible to siblings */ }
        else VH_COUNT("pic.resize_cropped");
        pic_check(h, "self");
        pic_check_all(h);
    } else {
        VH_COUNT("pic.resize_refused");
        if (gran_ok && pure_crop)
            vh_violation("c19:crop-refused", "crop resize(%d,%d,%d,%d) refused (%d) on %dx%d", hskip, vskip, nh, nv, err, h->hs, h->vs);
        if (gran_ok && inside && !pure_crop) {
            VH_COUNT("pic.extend_refused_inside");
            vh_violation("c19:extension-refused", "resize(%d,%d,%d,%d) into the allocated margins refused (%d) on %dx%d at (%d,%d) %s, margins h%d/%d v%d/%d of %dx%d", hskip, vskip, nh, nv, err, h->hs, h->vs, h->ax, h->ay, fmt->name, hprep, happ, vprep, vapp, H0, V0);
        }
        pic_check(h, "self");
    }
}

/* re-export of a plane as a block sharing the same memory (C02) */
static void pic_op_block(struct ubuf_mgr *block_mgr)
{
    struct pic *h = &P[vh_below(R, npic)];
    int p = vh_below(R, np);
    const char *chroma = fmt->planes[p].chroma;
    OP("block_from_pic(p%d,%s)", (int)(h - P), chroma);
    struct ubuf *b = ubuf_block_mem_alloc_from_pic(block_mgr, h->ubuf, chroma);
    if (!b) vh_violation("c02:block-from-pic-failed", "alloc_from_pic failed");
    VH_COUNT("pic.block_from_pic");
    size_t stride = 0;
    ubuf_pic_plane_size(h->ubuf, chroma, &stride, NULL, NULL, NULL);
    size_t bsz = 0;
    ubuf_block_size(b, &bsz);
    /* the picture is still alive: a write mapping on the block must be refused,
     * and so must one on the picture */
    int ws = -1; uint8_t *w;
    if (ubase_check(ubuf_block_write(b, 0, &ws, &w))) {
        ubuf_block_unmap(b, 0); ubuf_free(b);
        vh_violation("c02:block-write-granted-on-shared", "write mapping granted on a block re-exporting plane %s of a live picture", chroma);
    }
    uint8_t *pw;
    if (ubase_check(ubuf_pic_plane_write(h->ubuf, chroma, 0, 0, -1, -1, &pw))) {
        ubuf_pic_plane_unmap(h->ubuf, chroma, 0, 0, -1, -1); ubuf_free(b);
        vh_violation("c02:pic-write-granted-on-shared", "write mapping granted on a picture whose plane %s is re-exported as a live block", chroma);
    }
    /* content: rows of the visible window, one stride apart */
    int cols = h->hs / (mp * hsub[p]), rows = h->vs / vsub[p];
    int c0 = floordiv(h->ax, mp * hsub[p]), r0 = floordiv(h->ay, vsub[p]);
    for (int r = 0; r < rows; r++) {
        int want = cols * mps[p];
        if ((size_t)r * stride + want > bsz) { ubuf_free(b); vh_violation("c02:block-from-pic-size", "block of %zu octets too small for row %d (stride %zu)", bsz, r, stride); }
        uint8_t *tmp = malloc(want);
        if (!ubase_check(ubuf_block_extract(b, (int)(r * stride), want, tmp))) { free(tmp); ubuf_free(b); vh_violation("c02:block-from-pic-read", "extract failed"); }
        for (int i = 0; i < want; i++) {
            size_t mi = midx(p, c0 + i / mps[p], r0 + r, i % mps[p]);
            if (h->pl[p].known[mi] && h->pl[p].v[mi] != tmp[i]) { uint8_t g = tmp[i]; free(tmp); ubuf_free(b);
                vh_violation("c02:block-from-pic-content", "block re-export of plane %s row %d octet %d reads %02x, model %02x", chroma, r, i, g, h->pl[p].v[mi]); }
        }
        free(tmp);
    }
    ubuf_free(b);
    pic_check(h, "self");
}

static struct ubuf_mgr *blk_mgr;

static void run_pic_case(void)
{
    pic_setup_format();
    pic_new();
    pic_check(&P[0], "self");
    int nops = 12;
    for (int i = 0; i < nops; i++) {
        int c = vh_below(R, 100);
        if (mode_c02) {
            if (c < 35) pic_op_write();
            else if (c < 60) pic_op_dup();
            else if (c < 72) pic_op_block(blk_mgr);
            else if (c < 88) pic_op_resize();
            else pic_op_free();
        } else {
            if (c < 45) pic_op_write();
            else if (c < 57) pic_op_dup();
            else if (c < 62) pic_op_block(blk_mgr);
            else if (c < 92) pic_op_resize();
            else pic_op_free();
        }
    }
    while (npic) pic_drop(0);
    struct cumem_stats *st = cumem_stats(umem);
    if (st->canary_hits || st->bad_free)
        vh_violation("c19:canary", "guard zone overwritten or bad free (canary %lu bad_free %lu)", (unsigned long)st->canary_hits, (unsigned long)st->bad_free);
    ubuf_mgr_release(pic_mgr);
    pic_mgr = NULL;
}

/* ============================ sound ============================ */

#define MAXSP 8
#define MAXSH 6
struct snd {
    struct ubuf *ubuf;
    int a0;             /* absolute index of sample 0 */
    int n;              /* visible samples */
    uint8_t *v[MAXSP], *known[MAXSP];
    bool sole;
};
static struct snd S[MAXSH];
static int nsnd;
static struct ubuf_mgr *snd_mgr;
static int ssz, snp, N0;
static const char *chan_names[MAXSP] = { "l", "r", "c", "L", "R", "0", "1", "2" };

static void snd_drop(int i)
{
    ubuf_free(S[i].ubuf);
    for (int p = 0; p < snp; p++) { free(S[i].v[p]); free(S[i].known[p]); }
    S[i] = S[--nsnd];
}

static const char *snd_reject(struct snd *h, int off, int size, int *ao, int *as)
{
    if (off < 0) off += h->n;
    if (off < 0) return "before-origin";
    if (size == -1) size = h->n - off;
    if (size < 0 || off > h->n || off + size > h->n) return "exceeds";
    *ao = off; *as = size;
    return NULL;
}

static void snd_compare(struct snd *h, int p, int off, int size, const uint8_t *ptr, const char *why)
{
    if (size) {
        uint8_t *base; size_t bs;
        if (!cumem_find(umem, ptr, &base, &bs) || ptr + (size_t)size * ssz > base + bs)
            vh_violation("c19:window-outside-allocation", "%s: sound window of plane %d (%d samples at %d) is not inside the buffer allocation", opname, p, size, off);
    }
    for (int i = 0; i < size; i++)
        for (int b = 0; b < ssz; b++) {
            size_t mi = (size_t)(h->a0 + off + i) * ssz + b;
            uint8_t got = ptr[(size_t)i * ssz + b];
            if (!h->known[p][mi]) { h->known[p][mi] = 1; h->v[p][mi] = got; }
            else if (h->v[p][mi] != got)
                vh_violation(!strcmp(why, "sibling") ? "c02:sound-sibling-content-changed" : "c19:sound-content",
                             "after %s (%s): plane %s sample %d octet %d reads %02x, model %02x", opname, why, chan_names[p], h->a0 + off + i, b, got, h->v[p][mi]);
        }
}

static void snd_check(struct snd *h, const char *why)
{
    size_t n = 0; uint8_t ss = 0;
    if (!ubase_check(ubuf_sound_size(h->ubuf, &n, &ss)) || (int)n != h->n || ss != ssz)
        vh_violation("c19:sound-size", "after %s (%s): size %zu/%d, model %d/%d", opname, why, n, ss, h->n, ssz);
    if (vh_chance(R, 1, 3) && h->n) {
        /* all planes at once */
        const uint8_t *bufs[MAXSP];
        if (!ubase_check(ubuf_sound_read_uint8_t(h->ubuf, 0, -1, bufs, snp)))
            vh_violation("c19:window-refused", "sound_read(0,-1) refused");
        for (int p = 0; p < snp; p++) snd_compare(h, p, 0, h->n, bufs[p], why);
        ubuf_sound_unmap(h->ubuf, 0, -1, snp);
        VH_COUNT("snd.read_windows");
        return;
    }
    for (int p = 0; p < snp; p++) {
        int x = 0;
        while (x < h->n) {
            int w = 1 + vh_below(R, h->n - x);
            if (vh_chance(R, 1, 2)) w = h->n - x;
            int ax = (x > 0 && vh_chance(R, 1, 4)) ? x - h->n : x;
            int aw = (x + w == h->n && vh_chance(R, 1, 3)) ? -1 : w;
            const uint8_t *ptr;
            if (!ubase_check(ubuf_sound_plane_read_uint8_t(h->ubuf, chan_names[p], ax, aw, &ptr)))
                vh_violation("c19:window-refused", "after %s: valid sound window (%d,%d) refused on %d samples", opname, ax, aw, h->n);
            snd_compare(h, p, x, w, ptr, why);
            ubuf_sound_plane_unmap(h->ubuf, chan_names[p], ax, aw);
            VH_COUNT("snd.read_windows");
            x += w;
        }
    }
}

static void snd_check_all(struct snd *except)
{
    for (int i = 0; i < nsnd; i++)
        if (&S[i] != except) snd_check(&S[i], "sibling");
}

static void snd_op_window(void)
{
    struct snd *h = &S[vh_below(R, nsnd)];
    int p = vh_below(R, snp);
    int off = vh_below(R, h->n + 1), size = off < h->n ? 1 + (int)vh_below(R, h->n - off) : 0;
    if (vh_chance(R, 1, 5)) size = -1;
    if (vh_chance(R, 1, 6) && off > 0) off -= h->n;
    switch (vh_below(R, 10)) {
        case 0: size = h->n - (off < 0 ? off + h->n : off) + 1 + vh_below(R, 5); break;
        case 1: off = -h->n - 1 - (int)vh_below(R, 5); size = 1; break;
        case 2: off = h->n + 1 + vh_below(R, 5); break;
        case 3: off = -h->n - 1 - (int)vh_below(R, 5); size = -1; break;
        default: break;
    }
    bool rd = vh_chance(R, 1, 4);
    OP("snd_%s(s%d,%s,%d,%d)", rd ? "read" : "write", (int)(h - S), chan_names[p], off, size);
    int ao, as;
    const char *why = snd_reject(h, off, size, &ao, &as);
    if (!why && as == 0) return;
    uint8_t *ptr = NULL;
    int err = rd ? ubuf_sound_plane_read_uint8_t(h->ubuf, chan_names[p], off, size, (const uint8_t **)&ptr)
                 : ubuf_sound_plane_write_uint8_t(h->ubuf, chan_names[p], off, size, &ptr);
    if (why) {
        vh_count_dyn("snd.invalid_window.%s", why);
        if (ubase_check(err)) {
            ubuf_sound_plane_unmap(h->ubuf, chan_names[p], off, size);
            char key[80];
            snprintf(key, sizeof(key), "c19:sound-window-accepted:%s", why);
            vh_violation(key, "sound %s window (%d,%d) accepted on %d samples", rd ? "read" : "write", off, size, h->n);
        }
        return;
    }
    if (!ubase_check(err)) {
        if (rd || h->sole)
            vh_violation(rd ? "c19:window-refused" : "c02:sound-write-refused-on-sole-owner", "sound %s window (%d,%d) refused (%d) on %d samples", rd ? "read" : "write", off, size, err, h->n);
        VH_COUNT("snd.write_refused");
        return;
    }
    if (rd) {
        snd_compare(h, p, ao, as, ptr, "self");
        ubuf_sound_plane_unmap(h->ubuf, chan_names[p], off, size);
        return;
    }
    generation++;
    for (int i = 0; i < as; i++)
        for (int b = 0; b < ssz; b++) {
            uint8_t v = code(p, h->a0 + ao + i, 0, b);
            ptr[(size_t)i * ssz + b] = v;
            size_t mi = (size_t)(h->a0 + ao + i) * ssz + b;
            h->v[p][mi] = v; h->known[p][mi] = 1;
        }
    ubuf_sound_plane_unmap(h->ubuf, chan_names[p], off, size);
    VH_COUNT("snd.write_windows");
    if (cumem_check_all(umem))
        vh_violation("c19:canary", "after %s: guard zone overwritten", opname);
    snd_check(h, "self");
    snd_check_all(h);
}

static void snd_op_resize(void)
{
    struct snd *h = &S[vh_below(R, nsnd)];
    int off = vh_below(R, h->n + 1), ns = 1 + (off < h->n ? (int)vh_below(R, h->n - off) : 0);
    if (vh_chance(R, 1, 4)) ns = -1;
    if (vh_chance(R, 1, 5) && off > 0) off -= h->n;
    switch (vh_below(R, 10)) {
        case 0: ns = h->n + 1 + vh_below(R, 4); break;
        case 1: off = -h->n - 1 - (int)vh_below(R, 4); break;
        case 2: off = h->n + 1 + vh_below(R, 4); ns = -1; break;
        default: break;
    }
    OP("snd_resize(s%d,%d,%d)", (int)(h - S), off, ns);
    int ao = off < 0 ? off + h->n : off;
    int en = ns == -1 ? h->n - ao : ns;
    bool valid = ao >= 0 && ao <= h->n && en >= 0 && ao + en <= h->n;
    int err = ubuf_sound_resize(h->ubuf, off, ns);
    VH_COUNT("snd.resize");
    if (ubase_check(err)) {
        if (!valid)
            vh_violation("c19:sound-resize-accepted:exceeds", "sound resize(%d,%d) accepted on %d samples", off, ns, h->n);
        h->a0 += ao; h->n = en;
        if (h->n == 0) { VH_COUNT("snd.resized_to_zero"); }
        snd_check(h, "self");
        snd_check_all(h);
    } else {
        if (valid && en > 0)
            vh_violation("c19:crop-refused", "sound crop resize(%d,%d) refused (%d) on %d samples", off, ns, err, h->n);
        snd_check(h, "self");
    }
}

static void snd_op_dup(void)
{
    if (nsnd >= MAXSH) return;
    struct snd *h = &S[vh_below(R, nsnd)];
    OP("s%d=dup(s%d)", nsnd, (int)(h - S));
    struct ubuf *d = ubuf_dup(h->ubuf);
    if (!d) vh_violation("c19:dup-failed", "sound dup failed");
    struct snd *n = &S[nsnd++];
    *n = *h;
    n->ubuf = d;
    for (int p = 0; p < snp; p++) {
        size_t sz = (size_t)N0 * ssz;
        n->v[p] = malloc(sz); memcpy(n->v[p], h->v[p], sz);
        n->known[p] = malloc(sz); memcpy(n->known[p], h->known[p], sz);
    }
    h->sole = n->sole = false;
    VH_COUNT("snd.dup");
    if (h->n && vh_chance(R, 1, 2)) {
        struct snd *t = vh_chance(R, 1, 2) ? h : n;
        uint8_t *w;
        int p = vh_below(R, snp);
        if (ubase_check(ubuf_sound_plane_write_uint8_t(t->ubuf, chan_names[p], 0, -1, &w))) {
            ubuf_sound_plane_unmap(t->ubuf, chan_names[p], 0, -1);
            vh_violation("c02:sound-write-granted-on-shared", "sound write mapping granted right after dup, both handles alive");
        }
        VH_COUNT("c02.snd_refusal_checked");
    }
    snd_check(n, "self");
}

static void snd_op_block(void)
{
    struct snd *h = &S[vh_below(R, nsnd)];
    if (!h->n) return;
    int p = vh_below(R, snp);
    OP("block_from_sound(s%d,%s)", (int)(h - S), chan_names[p]);
    struct ubuf *b = ubuf_block_mem_alloc_from_sound(blk_mgr, h->ubuf, chan_names[p]);
    if (!b) vh_violation("c02:block-from-sound-failed", "alloc_from_sound failed");
    VH_COUNT("snd.block_from_sound");
    int ws = -1; uint8_t *w;
    if (ubase_check(ubuf_block_write(b, 0, &ws, &w))) {
        ubuf_block_unmap(b, 0); ubuf_free(b);
        vh_violation("c02:block-write-granted-on-shared", "write mapping granted on a block re-exporting a live sound buffer");
    }
    size_t bsz = 0;
    ubuf_block_size(b, &bsz);
    if (bsz != (size_t)h->n * ssz) { ubuf_free(b); vh_violation("c02:block-from-sound-size", "block size %zu, expected %d", bsz, h->n * ssz); }
    uint8_t *tmp = malloc(bsz);
    if (!ubase_check(ubuf_block_extract(b, 0, -1, tmp))) { free(tmp); ubuf_free(b); vh_violation("c02:block-from-sound-read", "extract failed"); }
    for (size_t i = 0; i < bsz; i++) {
        size_t mi = (size_t)h->a0 * ssz + i;
        if (h->known[p][mi] && h->v[p][mi] != tmp[i]) { free(tmp); ubuf_free(b);
            vh_violation("c02:block-from-sound-content", "block re-export of sound plane %s octet %zu differs", chan_names[p], i); }
    }
    free(tmp);
    ubuf_free(b);
}

static void run_snd_case(void)
{
    ssz = 1 + vh_below(R, 8);
    snp = 1 + vh_below(R, MAXSP);
    static const int aligns[] = { 0, 16, 32 };
    int align = aligns[vh_below(R, 3)];
    int depth = vh_chance(R, 1, 2) ? 0 : 2;
    snd_mgr = ubuf_sound_mem_mgr_alloc(depth, depth, umem, ssz, align);
    for (int p = 0; p < snp; p++)
        if (!ubase_check(ubuf_sound_mem_mgr_add_plane(snd_mgr, chan_names[p])))
            vh_violation("c19:add-plane", "sound add_plane failed");
    N0 = 1 + vh_below(R, 200);
    vh_tr("sound ssz=%d planes=%d align=%d n=%d pool=%d", ssz, snp, align, N0, depth);
    OP("s0=sound_alloc(%d)", N0);
    struct ubuf *u = ubuf_sound_alloc(snd_mgr, N0);
    if (!u) vh_violation("c19:alloc-failed", "sound_alloc(%d) failed", N0);
    struct snd *h = &S[nsnd++];
    memset(h, 0, sizeof(*h));
    h->ubuf = u; h->a0 = 0; h->n = N0; h->sole = true;
    for (int p = 0; p < snp; p++) { h->v[p] = calloc((size_t)N0 * ssz, 1); h->known[p] = calloc((size_t)N0 * ssz, 1); }
    VH_COUNT("snd.alloc");
    snd_check(h, "self");
    for (int i = 0; i < 12; i++) {
        int c = vh_below(R, 100);
        if (c < 45) snd_op_window();
        else if (c < 65) snd_op_dup();
        else if (c < 72) snd_op_block();
        else if (c < 92) snd_op_resize();
        else if (nsnd > 1) { int k = vh_below(R, nsnd); OP("free(s%d)", k); snd_drop(k); snd_check_all(NULL); }
    }
    while (nsnd) snd_drop(0);
    struct cumem_stats *st = cumem_stats(umem);
    if (st->canary_hits || st->bad_free)
        vh_violation("c19:canary", "guard zone overwritten or bad free");
    ubuf_mgr_release(snd_mgr);
    snd_mgr = NULL;
}

static void run_case(struct vh_rng *r)
{
    R = r;
    case_hash = 0;
    /* leftovers of an aborted case */
    while (npic) pic_drop(0);
    while (nsnd) snd_drop(0);
    if (pic_mgr) { ubuf_mgr_release(pic_mgr); pic_mgr = NULL; }
    if (snd_mgr) { ubuf_mgr_release(snd_mgr); snd_mgr = NULL; }
    struct cumem_stats *st = cumem_stats(umem);
    st->canary_hits = st->bad_free = 0;
    if (vh_chance(R, 2, 3)) run_pic_case();
    else run_snd_case();
    vh_nontrivial(case_hash);
    if (vh_want_sample()) vh_sample("%s", vh_trace);
}

static void init(void)
{
    mode_c02 = !strcmp(vh_opts.mode, "c02");
    umem = cumem_mgr_alloc(16);
    blk_mgr = ubuf_block_mem_mgr_alloc(2, 2, umem, 0, 0, 0, 0);
}

static void fini(void)
{
    ubuf_mgr_release(blk_mgr);
    umem_mgr_release(umem);
}

static const struct vh_lab lab = { "picsound", init, run_case, fini };
int main(int argc, char **argv) { return vh_main(argc, argv, &lab); }
