#include "vh.h"

#include <stdarg.h>
#include <stdlib.h>
#include <string.h>
#include <signal.h>
#include <sys/time.h>
#include <unistd.h>
#include <inttypes.h>

struct vh_opts vh_opts;
uint64_t vh_case_index, vh_case_seed;
jmp_buf vh_case_jmp;

#define TRACE_MAX (1 << 15)
char vh_trace[TRACE_MAX + 1];
static size_t trace_len;
static bool trace_truncated;

#define MAX_COUNTERS 512
static struct { char *name; uint64_t v; } counters[MAX_COUNTERS];
static int nb_counters;

#define MAX_SAMPLES 6
static char *samples[MAX_SAMPLES];
static int nb_samples;

static uint64_t cases_run, nb_viol, nb_diag, nb_nontrivial, nb_skipped;
static bool case_nontrivial;

/* distinct hash set */
static uint64_t *hset;
static size_t hset_cap, hset_n;

static void hset_add(uint64_t h)
{
    if (!h) h = 1;
    if (hset_n * 2 >= hset_cap) {
        size_t ncap = hset_cap ? hset_cap * 2 : 4096;
        uint64_t *n = calloc(ncap, sizeof(uint64_t));
        for (size_t i = 0; i < hset_cap; i++)
            if (hset[i]) {
                size_t j = hset[i] & (ncap - 1);
                while (n[j]) j = (j + 1) & (ncap - 1);
                n[j] = hset[i];
            }
        free(hset);
        hset = n;
        hset_cap = ncap;
    }
    size_t j = h & (hset_cap - 1);
    while (hset[j]) {
        if (hset[j] == h) return;
        j = (j + 1) & (hset_cap - 1);
    }
    hset[j] = h;
    hset_n++;
}

void vh_json_str(FILE *f, const char *s)
{
    fputc('"', f);
    for (; *s; s++) {
        unsigned char c = (unsigned char)*s;
        if (c == '"' || c == '\\') { fputc('\\', f); fputc(c, f); }
        else if (c == '\n') fputs("\\n", f);
        else if (c < 0x20 || c >= 0x7f) fprintf(f, "\\u%04x", c);
        else fputc(c, f);
    }
    fputc('"', f);
}

const char *vh_arg(const char *name, const char *def)
{
    for (int i = 0; i + 1 < vh_opts.argc; i++)
        if (!strncmp(vh_opts.argv[i], "--", 2) &&
            !strcmp(vh_opts.argv[i] + 2, name))
            return vh_opts.argv[i + 1];
    return def;
}

long long vh_arg_int(const char *name, long long def)
{
    const char *v = vh_arg(name, NULL);
    return v ? strtoll(v, NULL, 0) : def;
}

void vh_tr(const char *fmt, ...)
{
    char buf[1024];
    va_list ap;
    va_start(ap, fmt);
    int n = vsnprintf(buf, sizeof(buf), fmt, ap);
    va_end(ap);
    if (n < 0) return;
    if ((size_t)n >= sizeof(buf)) n = sizeof(buf) - 1;
    if (trace_len + n + 1 > TRACE_MAX) {
        /* keep the tail */
        size_t keep = TRACE_MAX / 2;
        memmove(vh_trace, vh_trace + trace_len - keep, keep);
        trace_len = keep;
        trace_truncated = true;
    }
    memcpy(vh_trace + trace_len, buf, n);
    trace_len += n;
    vh_trace[trace_len++] = ';';
    vh_trace[trace_len] = 0;
    if (vh_opts.verbose > 1) { fputs(buf, stderr); fputc('\n', stderr); }
}

static void emit(const char *t, const char *key, const char *detail)
{
    printf("{\"t\":\"%s\",\"key\":", t);
    vh_json_str(stdout, key);
    printf(",\"detail\":");
    vh_json_str(stdout, detail);
    printf(",\"case\":%" PRIu64 ",\"case_seed\":\"%" PRIu64 "\",\"worker\":%d,"
           "\"trace_truncated\":%s,\"trace\":",
           vh_case_index, vh_case_seed, vh_opts.worker,
           trace_truncated ? "true" : "false");
    vh_json_str(stdout, vh_trace);
    printf("}\n");
    fflush(stdout);
}

#define MAX_VKEYS 64
static struct { char *key; uint64_t n; } vkeys[MAX_VKEYS];
static int nb_vkeys;

static uint64_t vkey_count(const char *key)
{
    for (int i = 0; i < nb_vkeys; i++)
        if (!strcmp(vkeys[i].key, key))
            return ++vkeys[i].n;
    if (nb_vkeys < MAX_VKEYS) {
        vkeys[nb_vkeys].key = strdup(key);
        vkeys[nb_vkeys].n = 1;
        nb_vkeys++;
        return 1;
    }
    return 1000;
}

void vh_violation_noabort(const char *key, const char *fmt, ...)
{
    char buf[2048];
    va_list ap;
    va_start(ap, fmt);
    vsnprintf(buf, sizeof(buf), fmt, ap);
    va_end(ap);
    nb_viol++;
    /* the first occurrences of each key are written out, all are counted */
    if (vkey_count(key) <= 3)
        emit("viol", key, buf);
    if (vh_opts.verbose)
        fprintf(stderr, "VIOL %s: %s\n  trace: %s\n", key, buf, vh_trace);
}

void vh_violation(const char *key, const char *fmt, ...)
{
    char buf[2048];
    va_list ap;
    va_start(ap, fmt);
    vsnprintf(buf, sizeof(buf), fmt, ap);
    va_end(ap);
    vh_violation_noabort(key, "%s", buf);
    longjmp(vh_case_jmp, 1);
}

void vh_diag(const char *key, const char *fmt, ...)
{
    char buf[2048];
    va_list ap;
    va_start(ap, fmt);
    vsnprintf(buf, sizeof(buf), fmt, ap);
    va_end(ap);
    nb_diag++;
    if (nb_diag <= 20)
        emit("diag", key, buf);
}

void vh_skip_case(void)
{
    nb_skipped++;
    longjmp(vh_case_jmp, 2);
}

uint64_t *vh_counter(const char *name)
{
    for (int i = 0; i < nb_counters; i++)
        if (!strcmp(counters[i].name, name))
            return &counters[i].v;
    if (nb_counters == MAX_COUNTERS)
        return &counters[MAX_COUNTERS - 1].v;
    counters[nb_counters].name = strdup(name);
    return &counters[nb_counters++].v;
}

void vh_count_dyn(const char *fmt, ...)
{
    char buf[160];
    va_list ap;
    va_start(ap, fmt);
    vsnprintf(buf, sizeof(buf), fmt, ap);
    va_end(ap);
    (*vh_counter(buf))++;
}

void vh_nontrivial(uint64_t hash)
{
    if (case_nontrivial)
        return; /* one hash per case */
    case_nontrivial = true;
    nb_nontrivial++;
    hset_add(hash);
}

bool vh_want_sample(void)
{
    return nb_samples < MAX_SAMPLES &&
           (nb_samples == 0 || (cases_run % 97) == 3);
}

void vh_sample(const char *fmt, ...)
{
    if (nb_samples >= MAX_SAMPLES) return;
    char buf[4096];
    va_list ap;
    va_start(ap, fmt);
    vsnprintf(buf, sizeof(buf), fmt, ap);
    va_end(ap);
    samples[nb_samples++] = strdup(buf);
}

static void crash_report(const char *kind)
{
    char buf[256];
    int n = snprintf(buf, sizeof(buf),
        "\n{\"t\":\"crash\",\"kind\":\"%s\",\"case\":%" PRIu64
        ",\"case_seed\":\"%" PRIu64 "\",\"worker\":%d}\n",
        kind, vh_case_index, vh_case_seed, vh_opts.worker);
    if (write(1, buf, n) < 0) {}
    n = snprintf(buf, sizeof(buf), "\nVH-CRASH kind=%s case=%" PRIu64
                 " case_seed=%" PRIu64 "\nVH-TRACE ", kind,
                 vh_case_index, vh_case_seed);
    if (write(2, buf, n) < 0) {}
    if (write(2, vh_trace, trace_len) < 0) {}
    if (write(2, "\n", 1) < 0) {}
}

/* called by AddressSanitizer before it prints its report */
void __asan_on_error(void);
void __asan_on_error(void)
{
    crash_report("asan");
}

/* A case that burns more CPU time than its budget is stuck in library code
 * (normal cases cost micro- to milliseconds).  CPU time of the process, not
 * wall-clock time: a loaded machine does not trip it. */
static const char *cpu_lab = "?";
static void on_cpu_budget(int sig)
{
    (void)sig;
    crash_report("hang");
    char buf[160];
    int n = snprintf(buf, sizeof(buf), "VH-ABORT-KEY hang:%s:case-exceeded-its-cpu-budget\n", cpu_lab);
    if (write(2, buf, n) < 0) {}
    _exit(4);
}

static void arm_cpu_budget(long seconds)
{
    struct itimerval it = { { 0, 0 }, { seconds, 0 } };
    setitimer(ITIMER_VIRTUAL, &it, NULL);
}

static void on_signal(int sig)
{
    crash_report(sig == SIGABRT ? "abort" : sig == SIGSEGV ? "segv" :
                 sig == SIGALRM ? "alarm" : "signal");
    signal(sig, SIG_DFL);
    raise(sig);
}

static void print_stats(const struct vh_lab *lab)
{
    printf("{\"t\":\"stats\",\"lab\":\"%s\",\"worker\":%d,\"cases_run\":%" PRIu64
           ",\"skipped\":%" PRIu64 ",\"violations\":%" PRIu64 ",\"diags\":%" PRIu64
           ",\"nontrivial\":%" PRIu64 ",\"distinct\":%zu,\"counters\":{",
           lab->name, vh_opts.worker, cases_run, nb_skipped, nb_viol, nb_diag,
           nb_nontrivial, hset_n);
    for (int i = 0; i < nb_counters; i++) {
        if (i) printf(",");
        vh_json_str(stdout, counters[i].name);
        printf(":%" PRIu64, counters[i].v);
    }
    printf("},\"viol_counts\":{");
    for (int i = 0; i < nb_vkeys; i++) {
        if (i) printf(",");
        vh_json_str(stdout, vkeys[i].key);
        printf(":%" PRIu64, vkeys[i].n);
    }
    printf("},\"samples\":[");
    for (int i = 0; i < nb_samples; i++) {
        if (i) printf(",");
        vh_json_str(stdout, samples[i]);
    }
    printf("]}\n");
    fflush(stdout);
    if (vh_opts.hashes_out) {
        FILE *f = fopen(vh_opts.hashes_out, "wb");
        if (f) {
            size_t w = 0;
            for (size_t i = 0; i < hset_cap && w < 400000; i++)
                if (hset[i]) { fwrite(&hset[i], 8, 1, f); w++; }
            fclose(f);
        }
    }
}

int vh_main(int argc, char **argv, const struct vh_lab *lab)
{
    vh_opts.seed = 1;
    vh_opts.cases = 100;
    vh_opts.mode = "";
    vh_opts.argc = argc;
    vh_opts.argv = argv;
    for (int i = 1; i < argc; i++) {
        const char *a = argv[i];
        const char *v = i + 1 < argc ? argv[i + 1] : NULL;
        if (!strcmp(a, "-v")) vh_opts.verbose++;
        else if (!strcmp(a, "--seed") && v) { vh_opts.seed = strtoull(v, NULL, 0); i++; }
        else if (!strcmp(a, "--cases") && v) { vh_opts.cases = strtoull(v, NULL, 0); i++; }
        else if (!strcmp(a, "--start") && v) { vh_opts.start = strtoull(v, NULL, 0); i++; }
        else if (!strcmp(a, "--case-seed") && v) { vh_opts.single = true; vh_opts.case_seed = strtoull(v, NULL, 0); i++; }
        else if (!strcmp(a, "--mode") && v) { vh_opts.mode = v; i++; }
        else if (!strcmp(a, "--worker") && v) { vh_opts.worker = atoi(v); i++; }
        else if (!strcmp(a, "--hashes-out") && v) { vh_opts.hashes_out = v; i++; }
        else if (!strncmp(a, "--", 2) && v) i++;
    }
    signal(SIGABRT, on_signal);
    signal(SIGSEGV, on_signal);
    signal(SIGBUS, on_signal);
    signal(SIGFPE, on_signal);
    signal(SIGALRM, on_signal);
    setvbuf(stdout, NULL, _IOLBF, 0);
    cpu_lab = lab->name;
    long cpu_budget = vh_arg_int("case-cpu-budget", 20);
    signal(SIGVTALRM, on_cpu_budget);

    if (lab->init) lab->init();

    uint64_t first = vh_opts.start, last = vh_opts.start + vh_opts.cases;
    if (vh_opts.single) { first = 0; last = 1; }
    for (uint64_t idx = first; idx < last; idx++) {
        uint64_t cs;
        if (vh_opts.single)
            cs = vh_opts.case_seed;
        else {
            uint64_t x = vh_opts.seed * 0x2545F4914F6CDD1DULL +
                         ((uint64_t)vh_opts.worker << 40) + idx;
            cs = vh_splitmix(&x);
        }
        vh_case_index = idx;
        vh_case_seed = cs;
        trace_len = 0;
        trace_truncated = false;
        vh_trace[0] = 0;
        case_nontrivial = false;
        struct vh_rng rng;
        vh_rng_seed(&rng, cs);
        if (cpu_budget > 0) arm_cpu_budget(cpu_budget);
        if (!setjmp(vh_case_jmp))
            lab->run_case(&rng);
        cases_run++;
        if (nb_vkeys >= MAX_VKEYS) break;
    }
    if (lab->fini) lab->fini();
    print_stats(lab);
    return 0;
}
