#include "mockloop.h"
#include "upipe/ubase.h"
#include "upipe/urefcount.h"
#include "upipe/upump_common.h"
#include "upipe/upool.h"
#include "upipe/ulist.h"
#include <stdlib.h>
#include <string.h>
#include <poll.h>

#define MOCKLOOP_SIGNATURE UBASE_FOURCC('m','o','c','k')

struct mockpump {
    int event;
    int fd;
    uint64_t after, repeat, due;
    bool active;
    uint64_t id;
    struct uchain link;
    struct upump_common common;
};

UBASE_FROM_TO(mockpump, upump, upump, common.upump)
UBASE_FROM_TO(mockpump, uchain, link, link)

struct mockloop {
    struct urefcount urefcount;
    struct uchain pumps;
    uint64_t now;
    uint64_t next_id;
    struct mockloop_stats st;
    struct upump_common_mgr common_mgr;
    uint8_t extra[];
};

UBASE_FROM_TO(mockloop, upump_mgr, upump_mgr, common_mgr.mgr)
UBASE_FROM_TO(mockloop, urefcount, urefcount, urefcount)

static struct upump *mock_alloc(struct upump_mgr *mgr, int event, va_list args)
{
    struct mockloop *l = mockloop_from_upump_mgr(mgr);
    struct mockpump *p = upool_alloc(&l->common_mgr.upump_pool, struct mockpump *);
    if (!p) return NULL;
    struct upump *upump = mockpump_to_upump(p);
    p->fd = -1; p->after = p->repeat = 0; p->due = 0;
    switch (event) {
        case UPUMP_TYPE_IDLER: break;
        case UPUMP_TYPE_TIMER:
            p->after = va_arg(args, uint64_t);
            p->repeat = va_arg(args, uint64_t);
            break;
        case UPUMP_TYPE_FD_READ: case UPUMP_TYPE_FD_WRITE:
            p->fd = va_arg(args, int);
            break;
        case UPUMP_TYPE_SIGNAL:
            (void)va_arg(args, int);
            break;
        default:
            upool_free(&l->common_mgr.upump_pool, p);
            return NULL;
    }
    p->event = event;
    p->active = false;
    p->id = ++l->next_id;
    uchain_init(&p->link);
    ulist_add(&l->pumps, &p->link);
    l->st.allocs++;
    upump_common_init(upump);
    return upump;
}

static void mock_real_start(struct upump *upump, bool status)
{
    struct mockpump *p = mockpump_from_upump(upump);
    struct mockloop *l = mockloop_from_upump_mgr(upump->mgr);
    (void)status;
    l->st.real_start++;
    if (p->active) l->st.start_while_active++;
    p->active = true;
    if (p->event == UPUMP_TYPE_TIMER) p->due = l->now + p->after;
}

static void mock_real_stop(struct upump *upump, bool status)
{
    struct mockpump *p = mockpump_from_upump(upump);
    struct mockloop *l = mockloop_from_upump_mgr(upump->mgr);
    (void)status;
    l->st.real_stop++;
    /* a one-shot timer that already fired is inactive in the back-end (as in
     * libev) although still "started": stopping it is not an anomaly */
    if (!p->active && !(p->event == UPUMP_TYPE_TIMER && !p->repeat)) l->st.stop_while_inactive++;
    p->active = false;
}

static void mock_real_restart(struct upump *upump, bool status)
{
    struct mockpump *p = mockpump_from_upump(upump);
    struct mockloop *l = mockloop_from_upump_mgr(upump->mgr);
    (void)status;
    l->st.real_restart++;
    if (p->event == UPUMP_TYPE_TIMER) {
        if (p->active && p->repeat) p->due = l->now + p->repeat;
        else { p->active = true; p->due = l->now + p->after; }
    }
}

static void mock_free(struct upump *upump)
{
    struct mockloop *l = mockloop_from_upump_mgr(upump->mgr);
    struct mockpump *p = mockpump_from_upump(upump);
    upump_stop(upump);
    upump_common_clean(upump);
    ulist_delete(&p->link);
    p->id = 0;
    p->active = false;
    l->st.frees++;
    upool_free(&l->common_mgr.upump_pool, p);
}

static void *mock_alloc_inner(struct upool *upool)
{
    struct upump_common_mgr *cm = upump_common_mgr_from_upump_pool(upool);
    struct mockpump *p = malloc(sizeof(*p));
    if (!p) return NULL;
    mockpump_to_upump(p)->mgr = upump_common_mgr_to_upump_mgr(cm);
    return p;
}

static void mock_free_inner(struct upool *upool, void *p) { (void)upool; free(p); }

static int mock_control(struct upump *upump, int command, va_list args)
{
    switch (command) {
        case UPUMP_START: upump_common_start(upump); return UBASE_ERR_NONE;
        case UPUMP_RESTART: upump_common_restart(upump); return UBASE_ERR_NONE;
        case UPUMP_STOP: upump_common_stop(upump); return UBASE_ERR_NONE;
        case UPUMP_FREE: mock_free(upump); return UBASE_ERR_NONE;
        case UPUMP_GET_STATUS: upump_common_get_status(upump, va_arg(args, int *)); return UBASE_ERR_NONE;
        case UPUMP_SET_STATUS: upump_common_set_status(upump, va_arg(args, int)); return UBASE_ERR_NONE;
        case UPUMP_ALLOC_BLOCKER: { struct upump_blocker **p = va_arg(args, struct upump_blocker **); *p = upump_common_blocker_alloc(upump); return UBASE_ERR_NONE; }
        case UPUMP_FREE_BLOCKER: upump_common_blocker_free(va_arg(args, struct upump_blocker *)); return UBASE_ERR_NONE;
        default: return UBASE_ERR_UNHANDLED;
    }
}

static bool pump_ready(struct mockloop *l, struct mockpump *p)
{
    if (!p->active) return false;
    switch (p->event) {
        case UPUMP_TYPE_IDLER: return true;
        case UPUMP_TYPE_TIMER: return p->due <= l->now;
        case UPUMP_TYPE_FD_READ: case UPUMP_TYPE_FD_WRITE: {
            struct pollfd pfd = { p->fd, p->event == UPUMP_TYPE_FD_READ ? POLLIN : POLLOUT, 0 };
            return poll(&pfd, 1, 0) > 0 && (pfd.revents & (POLLIN | POLLOUT | POLLHUP | POLLERR));
        }
        default: return false;
    }
}

static int mock_mgr_control(struct upump_mgr *mgr, int command, va_list args)
{
    switch (command) {
        case UPUMP_MGR_RUN: {
            (void)va_arg(args, struct umutex *);
            struct vh_rng r; vh_rng_seed(&r, 1);
            mockloop_run(mgr, &r, 1000000, 1000);
            return UBASE_ERR_NONE;
        }
        case UPUMP_MGR_VACUUM: upump_common_mgr_vacuum(mgr); return UBASE_ERR_NONE;
        default: return UBASE_ERR_UNHANDLED;
    }
}

static void mock_mgr_free(struct urefcount *urefcount)
{
    struct mockloop *l = mockloop_from_urefcount(urefcount);
    upump_common_mgr_clean(mockloop_to_upump_mgr(l));
    urefcount_clean(urefcount);
    free(l);
}

struct upump_mgr *mockloop_mgr_alloc(uint16_t pool_depth, uint16_t blocker_pool_depth)
{
    struct mockloop *l = calloc(1, sizeof(*l) + upump_common_mgr_sizeof(pool_depth, blocker_pool_depth));
    struct upump_mgr *mgr = mockloop_to_upump_mgr(l);
    mgr->signature = MOCKLOOP_SIGNATURE;
    urefcount_init(mockloop_to_urefcount(l), mock_mgr_free);
    mgr->refcount = mockloop_to_urefcount(l);
    mgr->upump_alloc = mock_alloc;
    mgr->upump_control = mock_control;
    mgr->upump_mgr_control = mock_mgr_control;
    ulist_init(&l->pumps);
    l->now = 1000;
    upump_common_mgr_init(mgr, pool_depth, blocker_pool_depth, l->extra,
                          mock_real_start, mock_real_stop, mock_real_restart,
                          mock_alloc_inner, mock_free_inner);
    return mgr;
}

struct mockloop_stats *mockloop_stats(struct upump_mgr *mgr) { return &mockloop_from_upump_mgr(mgr)->st; }
uint64_t mockloop_now(struct upump_mgr *mgr) { return mockloop_from_upump_mgr(mgr)->now; }
void mockloop_advance(struct upump_mgr *mgr, uint64_t dt) { mockloop_from_upump_mgr(mgr)->now += dt; }
bool mockloop_pump_active(struct upump *upump) { return mockpump_from_upump(upump)->active; }

int mockloop_nb_active(struct upump_mgr *mgr)
{
    struct mockloop *l = mockloop_from_upump_mgr(mgr);
    int n = 0; struct uchain *u;
    ulist_foreach (&l->pumps, u) if (mockpump_from_link(u)->active) n++;
    return n;
}

int mockloop_nb_pumps(struct upump_mgr *mgr)
{
    struct mockloop *l = mockloop_from_upump_mgr(mgr);
    int n = 0; struct uchain *u;
    ulist_foreach (&l->pumps, u) n++;
    return n;
}

bool mockloop_has_ready(struct upump_mgr *mgr)
{
    struct mockloop *l = mockloop_from_upump_mgr(mgr);
    struct uchain *u;
    ulist_foreach (&l->pumps, u) if (pump_ready(l, mockpump_from_link(u))) return true;
    return false;
}

int mockloop_active_fds(struct upump_mgr *mgr, int *fds, int max)
{
    struct mockloop *l = mockloop_from_upump_mgr(mgr);
    int n = 0; struct uchain *u;
    ulist_foreach (&l->pumps, u) {
        struct mockpump *p = mockpump_from_link(u);
        if (p->active && p->fd >= 0 && n < max) fds[n++] = p->fd;
    }
    return n;
}

uint64_t mockloop_next_timer(struct upump_mgr *mgr)
{
    struct mockloop *l = mockloop_from_upump_mgr(mgr);
    uint64_t best = UINT64_MAX; struct uchain *u;
    ulist_foreach (&l->pumps, u) {
        struct mockpump *p = mockpump_from_link(u);
        if (p->active && p->event == UPUMP_TYPE_TIMER && p->due < best) best = p->due;
    }
    return best;
}

bool mockloop_step(struct upump_mgr *mgr, struct vh_rng *rng)
{
    struct mockloop *l = mockloop_from_upump_mgr(mgr);
    struct mockpump *ready[64]; int n = 0; struct uchain *u;
    ulist_foreach (&l->pumps, u) {
        struct mockpump *p = mockpump_from_link(u);
        if (n < 64 && pump_ready(l, p)) ready[n++] = p;
    }
    if (!n) return false;
    struct mockpump *p = ready[rng ? vh_below(rng, n) : 0];
    uint64_t id = p->id;
    if (p->event == UPUMP_TYPE_TIMER) {
        /* as libev: a one-shot timer becomes inactive before its callback */
        if (p->repeat) p->due = l->now + p->repeat;
        else p->active = false;
    }
    l->st.dispatches++;
    upump_common_dispatch(mockpump_to_upump(p));
    (void)id;
    return true;
}

unsigned mockloop_run(struct upump_mgr *mgr, struct vh_rng *rng, unsigned max_steps, unsigned max_jumps)
{
    struct mockloop *l = mockloop_from_upump_mgr(mgr);
    unsigned steps = 0;
    for (;;) {
        while (steps < max_steps && mockloop_step(mgr, rng)) steps++;
        if (steps >= max_steps) break;
        uint64_t t = mockloop_next_timer(mgr);
        if (t == UINT64_MAX || !max_jumps) break;
        if (t > l->now) l->now = t;
        max_jumps--;
    }
    return steps;
}

/* ---- virtual clock ---- */
struct mockclock {
    struct urefcount urefcount;
    struct upump_mgr *mgr;
    uint64_t base;
    struct uclock uclock;
};
UBASE_FROM_TO(mockclock, uclock, uclock, uclock)
UBASE_FROM_TO(mockclock, urefcount, urefcount, urefcount)

static uint64_t mockclock_now(struct uclock *uclock)
{
    struct mockclock *c = mockclock_from_uclock(uclock);
    return c->base + mockloop_now(c->mgr);
}
static uint64_t mockclock_to_real(struct uclock *uclock, uint64_t t) { (void)uclock; return t + UINT64_C(27000000) * 1000000; }
static uint64_t mockclock_from_real(struct uclock *uclock, uint64_t t) { (void)uclock; return t - UINT64_C(27000000) * 1000000; }
static void mockclock_free(struct urefcount *urefcount)
{
    struct mockclock *c = mockclock_from_urefcount(urefcount);
    upump_mgr_release(c->mgr);
    urefcount_clean(urefcount);
    free(c);
}
struct uclock *mockclock_alloc(struct upump_mgr *mgr, uint64_t base)
{
    struct mockclock *c = calloc(1, sizeof(*c));
    c->mgr = upump_mgr_use(mgr);
    c->base = base;
    urefcount_init(mockclock_to_urefcount(c), mockclock_free);
    c->uclock.refcount = mockclock_to_urefcount(c);
    c->uclock.uclock_now = mockclock_now;
    c->uclock.uclock_to_real = mockclock_to_real;
    c->uclock.uclock_from_real = mockclock_from_real;
    return mockclock_to_uclock(c);
}
