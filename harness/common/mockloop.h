/* E2 — mock event loop and clock.  A upump_mgr built on the real
 * upump_common (lib/upipe/upump_common.c) whose back-end only records; the
 * harness decides when idlers, timers (virtual time) and fd watchers
 * (readiness by poll(...,0)) fire. */
#ifndef MOCKLOOP_H
#define MOCKLOOP_H
#include "vh.h"
#include "upipe/upump.h"
#include "upipe/uclock.h"

struct mockloop_stats {
    uint64_t real_start, real_stop, real_restart;
    uint64_t start_while_active;    /* back-end started twice */
    uint64_t stop_while_inactive;
    uint64_t dispatches;
    uint64_t allocs, frees;
};

struct upump_mgr *mockloop_mgr_alloc(uint16_t pool_depth, uint16_t blocker_pool_depth);
struct mockloop_stats *mockloop_stats(struct upump_mgr *mgr);
/* number of pumps currently active in the back-end / existing */
int mockloop_nb_active(struct upump_mgr *mgr);
int mockloop_nb_pumps(struct upump_mgr *mgr);
/* true if an active pump could fire now (idler, due timer, ready fd) */
bool mockloop_has_ready(struct upump_mgr *mgr);
/* dispatch one ready pump (random choice); false when none was ready */
bool mockloop_step(struct upump_mgr *mgr, struct vh_rng *rng);
/* virtual time */
uint64_t mockloop_now(struct upump_mgr *mgr);
void mockloop_advance(struct upump_mgr *mgr, uint64_t dt);
/* earliest due time of an active timer, UINT64_MAX if none */
uint64_t mockloop_next_timer(struct upump_mgr *mgr);
/* run until nothing is ready; when only timers remain, jump virtual time to
 * the next one (at most max_jumps times). Returns number of dispatches. */
unsigned mockloop_run(struct upump_mgr *mgr, struct vh_rng *rng, unsigned max_steps, unsigned max_jumps);
/* back-end activity of a given pump (for C13) */
bool mockloop_pump_active(struct upump *upump);
/* list of file descriptors watched by active fd pumps (for the scheduler) */
int mockloop_active_fds(struct upump_mgr *mgr, int *fds, int max);

/* virtual clock bound to a mock loop's time */
struct uclock *mockclock_alloc(struct upump_mgr *mgr, uint64_t base);
#endif
