/* Counting umem manager: canary guard zones around every block, live-block
 * table, double / unknown free detection.  Thread-safe (one mutex). */
#ifndef CUMEM_H
#define CUMEM_H
#include "upipe/umem.h"
#include <stdint.h>
#include <stdbool.h>

struct cumem_stats {
    uint64_t allocs, frees, reallocs;
    int64_t live;           /* live blocks */
    int64_t live_bytes;
    uint64_t bad_free;      /* free of a block that is not live */
    uint64_t canary_hits;   /* guard zone overwritten */
};

/* guard: number of canary octets on each side; the payload is additionally
 * surrounded by ASan red zones when guard == 0 */
struct umem_mgr *cumem_mgr_alloc(unsigned guard);
struct cumem_stats *cumem_stats(struct umem_mgr *mgr);
/* checks all live blocks' canaries, returns number of corrupted blocks */
unsigned cumem_check_all(struct umem_mgr *mgr);
/* base / size of the live block containing p, or false */
bool cumem_find(struct umem_mgr *mgr, const void *p, uint8_t **base_p, size_t *size_p);
#endif
