/* Common harness support: PRNG, case loop, violation / stats / sample
 * reporting as JSON lines on stdout, crash context for sanitizer aborts. */
#ifndef VH_H
#define VH_H

#include <stdint.h>
#include <stdbool.h>
#include <stddef.h>
#include <stdio.h>
#include <setjmp.h>

struct vh_rng { uint64_t s[2]; };

static inline uint64_t vh_splitmix(uint64_t *x)
{
    uint64_t z = (*x += 0x9e3779b97f4a7c15ULL);
    z = (z ^ (z >> 30)) * 0xbf58476d1ce4e5b9ULL;
    z = (z ^ (z >> 27)) * 0x94d049bb133111ebULL;
    return z ^ (z >> 31);
}

static inline void vh_rng_seed(struct vh_rng *r, uint64_t seed)
{
    r->s[0] = vh_splitmix(&seed);
    r->s[1] = vh_splitmix(&seed);
    if (!r->s[0] && !r->s[1]) r->s[0] = 1;
}

static inline uint64_t vh_rand(struct vh_rng *r)
{
    uint64_t s1 = r->s[0], s0 = r->s[1];
    uint64_t res = s0 + s1;
    r->s[0] = s0;
    s1 ^= s1 << 23;
    r->s[1] = s1 ^ s0 ^ (s1 >> 18) ^ (s0 >> 5);
    return res;
}

/* uniform in [0, n) ; n > 0 */
static inline uint32_t vh_below(struct vh_rng *r, uint32_t n)
{
    return (uint32_t)((vh_rand(r) >> 16) % n);
}

/* uniform in [lo, hi] */
static inline int64_t vh_range(struct vh_rng *r, int64_t lo, int64_t hi)
{
    return lo + (int64_t)((vh_rand(r) >> 8) % (uint64_t)(hi - lo + 1));
}

static inline bool vh_chance(struct vh_rng *r, uint32_t num, uint32_t den)
{
    return vh_below(r, den) < num;
}

static inline uint64_t vh_hash_mix(uint64_t h, uint64_t v)
{
    h ^= v + 0x9e3779b97f4a7c15ULL + (h << 6) + (h >> 2);
    h *= 0xff51afd7ed558ccdULL;
    h ^= h >> 33;
    return h;
}

static inline uint64_t vh_hash_bytes(uint64_t h, const void *p, size_t n)
{
    const uint8_t *b = (const uint8_t *)p;
    for (size_t i = 0; i < n; i++)
        h = (h ^ b[i]) * 0x100000001b3ULL;
    return h ^ (h >> 29);
}

/* ---- options shared by every harness ---- */
struct vh_opts {
    uint64_t seed;          /* base seed */
    uint64_t cases;         /* number of cases to run */
    uint64_t start;         /* first case index */
    bool single;            /* run exactly one case seed (replay) */
    uint64_t case_seed;
    int verbose;
    const char *mode;       /* harness-specific mode string */
    const char *hashes_out; /* file receiving non-trivial case hashes */
    int worker;
    int argc; char **argv;  /* harness-specific leftovers */
};
extern struct vh_opts vh_opts;

/* current case context (for crash reports) */
extern uint64_t vh_case_index, vh_case_seed;
extern jmp_buf vh_case_jmp;
extern char vh_trace[];     /* rolling textual trace of the current case */

/* a lab */
struct vh_lab {
    const char *name;
    void (*init)(void);
    /* run one case; the rng is seeded from the case seed */
    void (*run_case)(struct vh_rng *rng);
    void (*fini)(void);
};

int vh_main(int argc, char **argv, const struct vh_lab *lab);
const char *vh_arg(const char *name, const char *def);
long long vh_arg_int(const char *name, long long def);

/* append to the rolling trace of the case (printed with violations) */
void vh_tr(const char *fmt, ...) __attribute__((format(printf, 1, 2)));

/* report a violation: key is stable (no seed / address), detail is free text.
 * Aborts the current case (longjmp to the case loop). */
void vh_violation(const char *key, const char *fmt, ...)
    __attribute__((format(printf, 2, 3), noreturn));
/* same but returns (caller must unwind by itself) */
void vh_violation_noabort(const char *key, const char *fmt, ...)
    __attribute__((format(printf, 2, 3)));
/* diagnostics: things worth listing that are not violations */
void vh_diag(const char *key, const char *fmt, ...)
    __attribute__((format(printf, 2, 3)));
/* give up on the current case without any verdict */
void vh_skip_case(void) __attribute__((noreturn));

/* named counters (histograms of what was observed) */
uint64_t *vh_counter(const char *name);
#define VH_COUNT(name) do { static uint64_t *_c; if (!_c) _c = vh_counter(name); (*_c)++; } while (0)
#define VH_ADD(name, n) do { static uint64_t *_c; if (!_c) _c = vh_counter(name); (*_c) += (n); } while (0)
void vh_count_dyn(const char *fmt, ...) __attribute__((format(printf, 1, 2)));

/* mark the current case as non-trivial, with a hash identifying it */
void vh_nontrivial(uint64_t hash);
/* record a sample description (first few kept) */
void vh_sample(const char *fmt, ...) __attribute__((format(printf, 1, 2)));
bool vh_want_sample(void);

/* JSON string escaping helper */
void vh_json_str(FILE *f, const char *s);

#define VH_CHECK(cond, key, ...) do { if (!(cond)) vh_violation(key, __VA_ARGS__); } while (0)

#endif
