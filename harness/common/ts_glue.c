/* upipe_ts_encaps.c references two name-lookup helpers of upipe_ts_mux.c,
 * which is outside every property and cannot be built against the shim.
 * They only translate command / event numbers to strings for logging. */
#include <stddef.h>
const char *upipe_ts_mux_command_str(int cmd);
const char *upipe_ts_mux_event_str(int event);
const char *upipe_ts_mux_command_str(int cmd) { (void)cmd; return NULL; }
const char *upipe_ts_mux_event_str(int event) { (void)event; return NULL; }
