#include "cumem.h"
#include "upipe/ubase.h"
#include "upipe/urefcount.h"
#include <stdlib.h>
#include <string.h>
#include <pthread.h>

#define CANARY 0xC7

struct cblock { uint8_t *raw; uint8_t *data; size_t size; struct cblock *next; };

struct cumem_mgr {
    struct urefcount urefcount;
    unsigned guard;
    pthread_mutex_t lock;
    struct cblock *buckets[1024];
    struct cumem_stats st;
    struct umem_mgr mgr;
};

UBASE_FROM_TO(cumem_mgr, umem_mgr, umem_mgr, mgr)
UBASE_FROM_TO(cumem_mgr, urefcount, urefcount, urefcount)

static unsigned bucket(const void *p) { return ((uintptr_t)p >> 4) & 1023; }

static bool canary_ok(struct cumem_mgr *c, struct cblock *b)
{
    for (unsigned i = 0; i < c->guard; i++)
        if (b->raw[i] != CANARY || b->data[b->size + i] != CANARY)
            return false;
    return true;
}

static bool c_alloc(struct umem_mgr *mgr, struct umem *umem, size_t size)
{
    struct cumem_mgr *c = cumem_mgr_from_umem_mgr(mgr);
    struct cblock *b = malloc(sizeof(*b));
    b->raw = malloc(size + 2 * c->guard);
    if (!b->raw) { free(b); return false; }
    b->data = b->raw + c->guard;
    b->size = size;
    memset(b->raw, CANARY, c->guard);
    memset(b->data, 0xCD, size);
    memset(b->data + size, CANARY, c->guard);
    pthread_mutex_lock(&c->lock);
    b->next = c->buckets[bucket(b->data)];
    c->buckets[bucket(b->data)] = b;
    c->st.allocs++; c->st.live++; c->st.live_bytes += size;
    pthread_mutex_unlock(&c->lock);
    umem->buffer = b->data;
    umem->size = size;
    umem->real_size = size;
    umem->mgr = mgr;
    return true;
}

static struct cblock *take(struct cumem_mgr *c, uint8_t *data)
{
    struct cblock **pp = &c->buckets[bucket(data)];
    while (*pp) {
        if ((*pp)->data == data) { struct cblock *b = *pp; *pp = b->next; return b; }
        pp = &(*pp)->next;
    }
    return NULL;
}

static void c_free(struct umem *umem)
{
    struct cumem_mgr *c = cumem_mgr_from_umem_mgr(umem->mgr);
    pthread_mutex_lock(&c->lock);
    struct cblock *b = take(c, umem->buffer);
    if (!b) {
        c->st.bad_free++;
        pthread_mutex_unlock(&c->lock);
        return;
    }
    if (!canary_ok(c, b)) c->st.canary_hits++;
    c->st.frees++; c->st.live--; c->st.live_bytes -= b->size;
    pthread_mutex_unlock(&c->lock);
    memset(b->data, 0xDD, b->size);
    free(b->raw);
    free(b);
    umem->buffer = NULL;
    umem->mgr = NULL;
}

static bool c_realloc(struct umem *umem, size_t new_size)
{
    struct umem_mgr *mgr = umem->mgr;
    struct cumem_mgr *c = cumem_mgr_from_umem_mgr(mgr);
    struct umem n;
    if (!c_alloc(mgr, &n, new_size)) return false;
    size_t cp = umem->size < new_size ? umem->size : new_size;
    memcpy(n.buffer, umem->buffer, cp);
    c_free(umem);
    pthread_mutex_lock(&c->lock);
    c->st.reallocs++;
    pthread_mutex_unlock(&c->lock);
    *umem = n;
    return true;
}

static void c_mgr_free(struct urefcount *urefcount)
{
    struct cumem_mgr *c = cumem_mgr_from_urefcount(urefcount);
    /* the harness inspects stats before dropping its reference; blocks still
     * live stay allocated so that LeakSanitizer also reports them */
    urefcount_clean(urefcount);
    pthread_mutex_destroy(&c->lock);
    free(c);
}

struct umem_mgr *cumem_mgr_alloc(unsigned guard)
{
    struct cumem_mgr *c = calloc(1, sizeof(*c));
    c->guard = guard;
    pthread_mutex_init(&c->lock, NULL);
    urefcount_init(cumem_mgr_to_urefcount(c), c_mgr_free);
    c->mgr.refcount = cumem_mgr_to_urefcount(c);
    c->mgr.umem_alloc = c_alloc;
    c->mgr.umem_realloc = c_realloc;
    c->mgr.umem_free = c_free;
    c->mgr.umem_mgr_vacuum = NULL;
    return cumem_mgr_to_umem_mgr(c);
}

struct cumem_stats *cumem_stats(struct umem_mgr *mgr)
{
    return &cumem_mgr_from_umem_mgr(mgr)->st;
}

unsigned cumem_check_all(struct umem_mgr *mgr)
{
    struct cumem_mgr *c = cumem_mgr_from_umem_mgr(mgr);
    unsigned bad = 0;
    pthread_mutex_lock(&c->lock);
    for (int i = 0; i < 1024; i++)
        for (struct cblock *b = c->buckets[i]; b; b = b->next)
            if (!canary_ok(c, b)) bad++;
    pthread_mutex_unlock(&c->lock);
    return bad;
}

bool cumem_find(struct umem_mgr *mgr, const void *p, uint8_t **base_p, size_t *size_p)
{
    struct cumem_mgr *c = cumem_mgr_from_umem_mgr(mgr);
    bool found = false;
    pthread_mutex_lock(&c->lock);
    for (int i = 0; i < 1024 && !found; i++)
        for (struct cblock *b = c->buckets[i]; b; b = b->next)
            if ((const uint8_t *)p >= b->data && (const uint8_t *)p < b->data + b->size) {
                *base_p = b->data; *size_p = b->size; found = true; break;
            }
    pthread_mutex_unlock(&c->lock);
    return found;
}
