#!/bin/bash
# Runs the repository's own build and test suite with the verification guard
# OFF (no -DUPIPE_VERIF) and compares the set of passing tests with
# /root/.vp/BASELINE.json.  make check itself exits non-zero because
# upipe_m3u_reader_test.sh is a known always-failing test of the baseline.
set -u
REPO=${1:-/repo}
cd "$REPO" || exit 2
make -j16 >/tmp/baseline_off_build.log 2>&1 || { tail -50 /tmp/baseline_off_build.log; echo "BUILD FAILED"; exit 1; }
rm -f tests/*.trs tests/*.log
make -C tests check -j8 >/tmp/baseline_off_check.log 2>&1
python3 - "$REPO" <<'PY'
import glob, json, os, sys
repo = sys.argv[1]
base = json.load(open('/root/.vp/BASELINE.json'))
want = set(base['stable_pass'])
got = set()
for trs in glob.glob(os.path.join(repo, 'tests', '*.trs')):
    name = 'tests/' + os.path.basename(trs)[:-4]
    for ln in open(trs):
        if ln.startswith(':test-result:') and 'PASS' in ln:
            got.add(name)
missing = sorted(want - got)
print('baseline: %d expected passing, %d passing now, %d missing' % (len(want), len(got & want), len(missing)))
for m in missing:
    print('  NOT PASSING:', m)
sys.exit(1 if missing else 0)
PY
rc=$?
rm -f /tmp/baseline_off_build.log /tmp/baseline_off_check.log
exit $rc
