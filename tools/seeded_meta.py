#!/usr/bin/env python3
"""Builds /verif/seeded/<id>/meta.json from the evaluation record (eval.json,
written by tools/mutant_eval.py) and the table below, and prints the DESIGN.md
table "which checks catch which seeded changes".

usage: seeded_meta.py [SRC_DIR]   (default /verif/seeded; copies from SRC_DIR when different)
"""
import json
import os
import shutil
import sys

VERIF = os.path.dirname(os.path.dirname(os.path.abspath(__file__)))

# id -> (what is changed, what it needs in order to manifest)
NEEDS = {
    'C01-m1': ('upipe_helper_input.h clean_input(): NB_UREFS reset moved after the unblock',
               'a pipe holding urefs that came with a real source pump is flushed / released while it still blocks the pump: the upump blocker is never freed'),
    'C01-m2': ('ubuf_block_truncate(): cached_end_ubuf not reset',
               'block of >= 2 segments, truncate dropping a whole trailing segment, then append on the same block: freed segment written, appended buffer leaked'),
    'C02-m1': ('ubuf_block_write(): write granted on BUSY when the next segment is the other half of a slice',
               'area shared with another live handle, block cut inside that segment by delete, write in the left half'),
    'C02-m2': ('ubuf_mem_shared_release() fast path + pool allocator no longer stores refcount 1',
               'two threads free the last two owners of an area concurrently (shared pool depth > 0), then an ordinary alloc / dup / write reuses the descriptor'),
    'C03-m1': ('ubuf_block_split(): cached_end_ubuf set on the wrong block',
               'split at or after the end of the first segment of a multi-segment block, then append to the head'),
    'C03-m2': ('ubuf_block_get(): first-segment shortcut skips the cache refresh',
               'lookup in a later segment, then insert / delete / resize inside the first segment, then direct access beyond the old cached offset'),
    'C04-m1': ('upipe_chunk_stream_free(): flush moved after throw_dead',
               'pipe released while it retains at least `align` octets: output gets set_flow_def / input after dead'),
    'C04-m2': ('upipe_helper_output set_output(): state reset moved after the request replay',
               'pipe holding buffers for a pending ubuf manager request (state still VALID from the old output), set_output to an output answering at once: buffer before flow definition'),
    'C05-m1': ('upipe_qsink_input(): push attempted before looking at the held list',
               'queue full, sink holds urefs, consumer pops, new input before the write watcher ran: overtaking'),
    'C05-m2': ('upipe_htons_input(): segmented payloads no longer linearised',
               'multi-segment payload with an odd-sized writable first segment (wrong swap) or a shared later segment (buffer lost)'),
    'C06-m1': ('upipe_qsink_input(): flow definition pushed directly, dropped when the queue is full',
               'flow definition changed in mid-stream while the queue is full / the sink stalled'),
    'C06-m2': ('uprobe_pthread_upump_mgr: freeze counter turned into a flag',
               'application-level freeze, upipe_w*_alloc (inner freeze/thaw), another pipe allocated before the outer thaw obtains the application loop'),
    'C07-m1': ('uring_fifo_pop(): retry test compares the head index only, not tag + index',
               'pop preempted between predecessor search and CAS while another thread pops, pushes, pops so that the head slot index repeats'),
    'C07-m2': ('uring_lifo_pop(): new top published without its ABA tag',
               'push preempted inside the pop of the empty-slot list between reading next and CAS; other thread push push pop pop push'),
    'C08-m1': ('uqueue_pop_internal(): event_pop not re-armed after a successful double-check',
               'consumer fails a pop, >= 2 elements pushed before it resets event_pop; consumer pops one element per wake-up'),
    'C08-m2': ('uqueue_push() slow path skips the 0->1 wake-up',
               'consumer drains the queue and sleeps while the producer sits between its two push attempts (queue length 1-2)'),
    'C09-m1': ('urefcount_release(): fetch_sub then separate load == 0',
               'two holders release concurrently, second decrement between the first decrement and its load'),
    'C09-m2': ('ubuf_mem_shared_release(): sole-owner fast path, fetch_sub result discarded',
               'last two owners of an area freed concurrently, both load >= 2: area never returned'),
    'C10-m1': ('udict_inline_find(): strncmp on the length of the looked-up name',
               'two named attributes of the same type whose names are prefix-related'),
    'C10-m2': ('udict_set_string(): temporary copy dropped (memmove)',
               'value points into the same dictionary, target exists with another length and lies before the source'),
    'C11-m1': ('uref_clock set_date: sign slip in the CR -> PTS delay',
               'CR-based date with a non-zero dts_pts_delay, then rebase_pts / set_pts in the same domain'),
    'C11-m2': ('UREF_ATTR_UNSIGNED_UREF getter: (int64_t)value >= 0 instead of != UINT64_MAX',
               'a delay >= 2^63 (dts before cr, pts before dts, backward wrap)'),
    'C12-m1': ('upipe_helper_output set_output(): single foreach pass instead of restart-from-head',
               '>= 2 requests held, new output answers synchronously and the requester renews the request from its callback'),
    'C12-m2': ('upipe_qsink_oob(): tests urequest.registered instead of membership of the sink list',
               'answer crossing the queue after the requester unregistered; or queue source without output answered by a probe'),
    'C13-m1': ('upump_common_set_status(): calls the back-end directly when started, ignoring blockers',
               'pump started and blocked, set_status with another value'),
    'C13-m2': ('upump_common_blocker_free(): "last" computed with ulist_is_last before deletion',
               '>= 2 blockers, the most recent one released while an older one remains'),
    'C14-m1': ('ubuf_block_split(): cached_ubuf assigned instead of cached_end_ubuf',
               'segmented buffer split by ts_check, then appended to by the aggregator'),
    'C14-m2': ('upipe_ts_sync_check(): 2 sync words are enough once acquired',
               'sync count >= 3, locked stream loses alignment and resumes with a run of K packets, 2 <= K < N, buffer boundary inside'),
    'C15-m1': ('upipe_ts_encaps build_pes(): 16-bit length test on the payload size alone',
               'access unit size n <= 65535 < n + header size - 6'),
    'C15-m2': ('upipe_ts_decaps: last_cc = cc instead of -1 on a payload-less packet revealing a gap',
               'payload, lost payload packets, adaptation-only packet, next payload'),
    'C16-m1': ('upipe_ts_psim_merge(): stuffing test hoisted above the "section in progress" branch',
               'section spanning >= 2 payloads cut exactly before a data octet 0xff'),
    'C16-m2': ('ubuf_block_match(): mask pointer not advanced with the filter pointer',
               'section whose first payload holds fewer octets than the filter (segmented block) through ts_psi_split'),
    'C17-m1': ('upipe_h264f_find(): extract at au_size - 4 instead of - 5',
               '3-octet start code and an input cut within 5 positions around it'),
    'C17-m2': ('upipe_h26xf_stream_get(): escaped 03 not shifted into the zero history',
               'emulation prevention followed by 03 or 00 03'),
    'C18-m1': ('ubits_get(): bounds test nb / 8 instead of (nb + 7) / 8',
               'field wider than the cached bits, bits still needed not a multiple of 8, exactly nb / 8 octets left'),
    'C18-m2': ('ubuf_block_stream_init(): memset cleanup drops the start offset',
               'stream started at a non-zero octet offset that reads beyond the segment it started in'),
    'C19-m1': ('ubuf_pic_common_resize(): hmappend computed from the old prepend',
               'crop on the left, then resize with an explicit size reaching further right than allocated'),
    'C19-m2': ('ubuf_pic_mem_alloc(): plane size adds the loop-local align',
               'alignment non-zero, line size a multiple of it, last octets of the plane used'),
    'C20-m1': ('_upipe_setattr_set_dict(): NULL no longer clears the dictionary',
               'install a dictionary, then set_dict(NULL)'),
    'C20-m2': ('upipe_agg_set_flow_def(): match test moved after input_size is overwritten',
               'accepted flow definition with a block size, refused foreign definition, then inputs whose anticipation differs'),
    # second round (other code sites, written after the checks had been strengthened once)
    'C01-r2-m1': ('upipe_helper_output set_output(): old output released before the forwarded requests are withdrawn from it',
                  'output replaced while >= 1 request is registered through the pipe and the pipe holds the last reference on the old output'),
    'C01-r2-m2': ('upipe_input(): use/release pair around the input function removed',
                  'the last reference on the pipe is released from inside its own input function (by its output or a probe)'),
    'C04-r2-m1': ('upipe_helper_output _output(): an output answering UBASE_ERR_UNHANDLED to set_flow_def counts as accepting',
                  'output rejecting the flow definition with exactly UBASE_ERR_UNHANDLED, then a buffer'),
    'C04-r2-m2': ('udict_cmp(): second loop iterates over the first dictionary again',
                  'flow definition that only gains attributes (strict superset of the negotiated one), then a buffer'),
    'C05-r2-m1': ('upipe_helper_input unshift_input(): ulist_add instead of ulist_unshift',
                  'pipe holding >= 3 buffers whose drain writes at least one and is then refused with >= 2 still held'),
    'C05-r2-m2': ('upipe_dup_input(): last sub-pipe takes the original uref even when the dup has its own output',
                  'dup pipe with a main output and at least one output sub-pipe'),
    'C06-r2-m1': ('upipe_work_control_first_inner(): remote loop thawed before the command is forwarded',
                  'transfer manager with a mutex, a command the queue pipes do not handle sent to the worker pipe'),
    'C06-r2-m2': ('upipe_helper_input output_input(): refused buffer put back at the tail',
                  'stalled queue sink whose spool holds >= 2 more buffers than fit when room reappears'),
    'C12-r2-m1': ('upipe_helper_output register_output_request(): forwarded before being added to the list',
                  'answer arriving synchronously during registration, requester unregisters from its callback'),
    'C12-r2-m2': ('upipe_qsink_unregister_request(): removed from the list only if the UNREGISTER message could be queued',
                  '255-slot out-of-band queue full when the request is unregistered'),
    'C13-r2-m1': ('upump_common_start(): started recorded only when no blocker is held',
                  'upump_start while a blocker is held and the pump is not started, then the blocker is released'),
    'C13-r2-m2': ('upipe_helper_input clean_input(): NB_UREFS reset after the unblock (same site family as C01-m1)',
                  'helper_input pipe flushed / freed while it blocks its source pump'),
    'C14-r2-m1': ('upipe_chunk_stream_flush(): chunk size always (remaining / align) * align',
                  'data pending, MTU lowered with set_mtu, release without further input'),
    'C14-r2-m2': ('upipe_ts_sync_flush(): loop condition uses TS_SIZE instead of the configured packet size',
                  'packet size 204, sync acquired, released while the tail holds 188..203 octets starting with 0x47'),
    'C20-r2-m1': ('_upipe_chunk_stream_set_mtu(): early return when the rounded chunk size is unchanged',
                  'accepted set_mtu whose rounded size equals the current one while mtu or align differ'),
    'C20-r2-m2': ('upipe_agg_control(): partial aggregate output whenever the output-size helper handled the command (getter included)',
                  'get_output_size called while a partial aggregate is held'),
    'C01-r3-m1': ('ubuf_block_split(): head_block->cached_end_ubuf no longer set',
                  'block that already had an append, split before the last segment, tail freed, another append on the head'),
    'C01-r3-m2': ('helper_ubuf_mgr provide_ubuf_mgr(): release dropped in the "same manager, same flow format" shortcut',
                  'a provider that hands out the same manager again (request replayed by set_output / set_flow_def)'),
    'C04-r3-m1': ('upipe_dup_set_flow_def(): output sub-pipes without output are skipped',
                  'set_flow_def(A), sub-pipe allocated but not connected, set_flow_def(B), then set_output + input: stale definition A presented'),
    'C04-r3-m2': ('upipe_qsink_set_flow_def(): flow_def_sent reset only when uref_flow_cmp_def() differs',
                  'new definition with the same def string and other attributes after a buffer went through'),
    'C05-r3-m1': ('helper_output _output(): upipe_use(output) moved after throw_need_output',
                  'output rejects the definition and a probe answers need_output by plugging another output'),
    'C05-r3-m2': ('upipe_buffer_input(): drain-first gate removed',
                  'a buffer held because it does not fit, then a smaller one that fits before the idler runs (or max_size raised)'),
    'C06-r3-m1': ('upipe_qsink_flush(): upump_stop dropped',
                  'event loop attached, queue sink stalled with a spooled buffer, flush during the stall, then the consumer pops'),
    'C06-r3-m2': ('upipe_work_freeze(): frozen set before the result of the freeze is known',
                  'worker on a transfer manager without mutex, a control command the worker forwards (set_option)'),
    'C12-r3-m1': ('upipe_register_request(): registered set after the control call',
                  'provider answering inside REGISTER, requester unregistering from its callback, request replayed by set_output'),
    'C12-r3-m2': ('helper_bin_input store_bin_input(): withdrawal skipped when the new inner is NULL',
                  'bin that stores a NULL inner and plugs a new one later while an upstream request is registered'),
    'C20-r3-m1': ('_upipe_fsrc_get_size(): lseek(SEEK_END) then rewind to 0',
                  'get_size on a file source whose descriptor is not at offset 0'),
    'C20-r3-m2': ('upipe_blit_sub_provide_flow_format(): rounding remainder subtracted from roffset instead of roffset_r',
                  'blit on a 4:2:0 background, sub-pipe rectangle with an odd right offset + margin'),
    'C02-r2-m1': ('ubuf_block_truncate(ubuf, 0): cached_ubuf / cached_offset not reset',
                  'segmented block whose last lookup ended in a later segment, truncate to 0 (segment structure recycled as another live handle, pool depth >= 1), refill by append, first access beyond the old cached offset'),
    'C02-r2-m2': ('ubuf_block_delete(): in-place compaction guarded by a single-owner test made on the head segment',
                  'segmented block, head segment sole owner of its area, later segment shared with another handle, delete strictly inside that segment with tail <= hole'),
    'C03-r2-m1': ('ubuf_block_common_splice(): last duplicated segment not clipped',
                  'splice of a segmented block whose range ends strictly inside a segment that is not the first, then append / read at offset == size'),
    'C03-r2-m2': ('ubuf_block_match(): mask restarts at mask[0] after a segment boundary',
                  'matched window straddling a segment boundary with a mask that is not one repeated octet'),
    'C07-r2-m1': ('uring_fifo_push(): "FIFO was empty" computed once and reused on CAS retries',
                  'push whose first CAS fails while the emptiness of the FIFO changed (concurrent pop of the only element, or two pushers on an empty FIFO)'),
    'C07-r2-m2': ('uring_lifo_push(): elem->next rewritten only if the top differs from a cached index that is never refreshed',
                  'one push failing its CAS twice with the top going A -> B -> A'),
    'C08-r2-m1': ('udeal_start(): watcher not started for the first contender (early return after the direct callback)',
                  'first contender refused at udeal_grab() because another one got in meanwhile; when the holder yields nothing listens for the first one'),
    'C08-r2-m2': ('udeal_grab(): while -> if, plain fetch_add after backing off',
                  'three contenders: the holder yields during a refused attempt, a third one grabs legitimately before the second fetch_add'),
    'C09-r2-m1': ('urefcount_use(): load + single compare-exchange whose failure is ignored',
                  'another thread modifies the same counter between the load and the compare-exchange'),
    'C09-r2-m2': ('ubuf_block_mem_free(): "sole owner" fast path, otherwise release whose result is ignored',
                  'the last two holders of a shared area freed concurrently from two threads'),
    'C10-r2-m1': ('udict_set_rational(): denominator written with udict_set_int64()',
                  'rational attribute with denominator 0 or > INT64_MAX'),
    'C10-r2-m2': ('udict_import(): zero-length attributes skipped',
                  'source dictionary holding a void attribute or an empty opaque, import / copy'),
    'C11-r2-m1': ('UREF_CLOCK_SET_RAP: signed test of cr - rap',
                  'cr and rap at least 2^63 apart (rap after cr accepted, legal rap refused)'),
    'C11-r2-m2': ('uref_dup_inner(): rap_cr_delay copied from cr_dts_delay',
                  'dup / fork of a uref whose rap_cr_delay differs from its cr_dts_delay, rap read on the copy'),
    'C15-r2-m1': ('upipe_ts_encaps_build_ts(): adaptation_field_control set only when header_size >= TS_HEADER_SIZE_AF',
                  'exactly one octet of stuffing needed (183 octets left, no PCR / random access / discontinuity)'),
    'C15-r2-m2': ('upipe_ts_pesd_flush(): drop set only when sync is lost',
                  'padding_stream PES (0xBE) longer than one TS payload after a decoded PES: its continuation packets come out as elementary stream'),
    'C16-r2-m1': ('upipe_ts_psim_input(): flush on discontinuity only on payloads with unit start',
                  'section spanning >= 3 payloads loses a middle packet: discontinuity on a continuation payload'),
    'C16-r2-m2': ('upipe_ts_psi_split_input(): table_id fast path treats mask[0] as a boolean',
                  'output with a partial mask on the first octet (0x50/0xf0), section whose table_id matches under the mask but differs from the filter'),
    'C17-r2-m1': ('upipe_h264f_handle_pps(): PPS no longer invalidated when no SPS is active',
                  'SPS re-sent with the same id and other content, PPS re-sent unchanged, no buffering-period SEI'),
    'C17-r2-m2': ('upipe_h26xf_encaps_nal() LENGTH2: nal_size >= UINT16_MAX refused',
                  '2-octet length prefixes and a NAL unit of exactly 65535 octets'),
    'C18-r2-m1': ('ubits_put(): room test sized on the field instead of the 4-octet flush',
                  'buffer too small with 1..3 octets left at a flush and at least ceil(nb/8) of them'),
    'C18-r2-m2': ('ubuf_block_stream_init_from_opaque(): overflow not reset',
                  'stream structure reused through the opaque init after a stream that ran out of data'),
    'C19-r2-m1': ('ubuf_pic_common_plane_map(): range checks dropped',
                  'plane read / write with a negative offset and an explicit size larger than what is left'),
    'C19-r2-m2': ('ubuf_pic_common_dup(): vappend initialised from vprepend',
                  'original with more lines above the window than below (manager margins 4/0, or cropped at the top) at dup time, duplicate extended downwards'),
    'C02-r4-m1': ('ubuf_block_common_dup(): head lookup cache of the duplicate set to the segment of the source chain',
                  'block of >= 2 segments whose last access before the dup was in a later segment; first structural operation through the duplicate at or beyond that offset edits the descriptor of the original'),
    'C03-r4-m1': ('ubuf_block_delete(): range check rewritten as offset + size > total_size',
                  'delete with a negative offset and an explicit size running past the end: tail segments shrunk, then an error is returned with the size unchanged'),
    'C10-r4-m1': ('udict_cmp(): second pass looks the attributes of the second dictionary up in the second dictionary',
                  'second dictionary a strict superset of the first (or first empty)'),
    'C11-r4-m1': ('UREF_CLOCK_GET_DTS: refuses when dts_pts_delay > stored PTS',
                  'date stored as PTS with a delay numerically larger than the PTS (PTS earlier than DTS, or near-zero time line), DTS view read'),
    'C13-r4-m1': ('upump_common_restart(): early return when a blocker is held, before started is recorded',
                  'upump_restart on a pump that is not started while a blocker is held, then the last blocker is released'),
    'C14-r4-m1': ('upipe_agg_input(): overflow test uses the announced block size instead of the size of the incoming buffer',
                  'flow definition announcing a block size, input larger than announced arriving when stored + announced <= MTU < stored + real'),
    'C15-r4-m1': ('upipe_ts_pesd_decaps(): dts_pts_delay computed as pts > dts ? pts - dts : 0 instead of modulo 2^33',
                  'PES header with PTS and DTS on either side of the 33-bit roll-over'),
    'C16-r4-m1': ('upipe_ts_psim_merge(): wrong-header branch frees the partial section without losing sync',
                  'section with an invalid header while in sync, immediately followed by a unit start with a non-zero pointer_field'),
    'C17-r4-m1': ('upipe_h26xf_stream_ue(): single-read fast path extended from i <= 24 to i < 32',
                  'exp-Golomb code of 26..31 significant bits at a bit alignment that overfills the 32-bit cache'),
    'C19-r4-m1': ('ubuf_pic_common_check_skip(): negative skips no longer made positive before the modulo on size_t granularities',
                  'format whose macropixel * hsub is not a power of two (v210), negative hskip: legal extensions refused, non-multiples accepted through the manager control'),
    'C01-r4-m1': ('ubuf_mem_mgr_alloc_from_flow_def(): incomplete plane description returns NULL without releasing the half-built manager',
                  'picture flow definition announcing more planes than it describes (NOT CAUGHT: no workload passes malformed flow definitions to the manager factory)'),
    'C04-r4-m1': ('upipe_dup_output_alloc(): throw_ready moved after store_flow_def',
                  'dup output sub-pipe allocated after the dup pipe received its flow definition'),
    'C05-r4-m1': ('upipe_trickp_check_start(): held buffers of subpicture sub-pipes not released at start',
                  'pic.sub. sub-pipe receiving a buffer before playback starts (NOT CAUGHT: the trickplay pipe is only under the life-cycle automaton, its hold-until-start behaviour has no oracle)'),
    'C12-r4-m1': ('upipe_qsrc_provide_request(): sink latency answer read as unsigned int',
                  'sink latency of at least 2^32 ticks answered across a queue'),
    'C18-r4-m1': ('ubits_put(): cache not cleared when a field ends exactly on a 32-bit boundary',
                  '32-bit field starting on a 32-bit boundary after a field with other bits set'),
    'C20-r4-m1': ('_upipe_buffer_set_max_size(): clamps the stored high limit',
                  'set_high_limit(H) then set_max_size(M < H), then get_high_limit'),
}


def main():
    src = sys.argv[1] if len(sys.argv) > 1 else os.path.join(VERIF, 'seeded')
    dst = os.path.join(VERIF, 'seeded')
    os.makedirs(dst, exist_ok=True)
    rows = []
    for sid in sorted(os.listdir(src)):
        d = os.path.join(src, sid)
        ev = os.path.join(d, 'eval.json')
        if not os.path.isdir(d) or not os.path.exists(ev):
            continue
        e = json.load(open(ev))
        out = os.path.join(dst, sid)
        if os.path.abspath(d) != os.path.abspath(out):
            os.makedirs(out, exist_ok=True)
            for f in os.listdir(d):
                shutil.copy(os.path.join(d, f), os.path.join(out, f))
        what, needs = NEEDS.get(sid, ('', ''))
        st = e.get('steps', {})
        meta = dict(
            id=sid,
            property=e['property'],
            files=e.get('files', []),
            change=what,
            needs_to_manifest=needs,
            origin='written by an independent sub-agent that was given only the '
                   'property text and a scratch worktree of /repo (nothing from /verif)',
            verif_commit=e.get('verif_commit', '0882c02'),
            confirmed=dict(
                base_commit=e.get('base_commit'),
                builds=st.get('build_mutant') == 0,
                repo_test_suite_unchanged=('suite_missing' in st and not st['suite_missing']),
                shim_selftest=st.get('shim_selftest'),
                demo_on_unchanged_tree='pass' if st.get('demo_clean_rc') == 0 else 'FAIL rc=%s' % st.get('demo_clean_rc'),
                demo_with_change='fails (rc=%s)' % st.get('demo_mutant_rc') if st.get('demo_mutant_rc') else 'PASSES',
                demo_output_with_change=(st.get('demo_mutant_out') or '')[-400:],
            ),
            what_was_run='tools/mutant_eval.py: scratch worktree at base_commit, patch applied, make, make -C tests check '
                         '(compared with BASELINE.json), shim selftest for TS/framer files, demo run.sh with and without the '
                         'change, then ./check <ID> --tier quick --repo <worktree> for the checks listed',
            checks={c: dict(exit=r['rc'], wall_s=r['wall_s'],
                            first_lines=[l for l in r.get('lines', []) if l.startswith('violation key')][:3])
                    for c, r in e.get('checks', {}).items()},
            caught_by=e.get('caught_by', []),
        )
        json.dump(meta, open(os.path.join(out, 'meta.json'), 'w'), indent=1)
        rows.append(meta)
    print('| id | change | needs | caught by (quick tier) | first key |')
    print('|---|---|---|---|---|')
    for m in rows:
        key = ''
        for c in m['caught_by']:
            fl = m['checks'][c]['first_lines']
            if fl:
                key = fl[0].split('key=')[1].split(' count=')[0]
                break
        print('| %s | %s | %s | %s | `%s` |' % (m['id'], m['change'], m['needs_to_manifest'],
                                              ', '.join(m['caught_by']) or '**none**', key))
    bad = [m['id'] for m in rows if not m['caught_by']]
    print('\n%d seeded changes, %d caught, not caught: %s' % (len(rows), len(rows) - len(bad), bad))


if __name__ == '__main__':
    main()
