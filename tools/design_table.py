#!/usr/bin/env python3
"""Replaces the table of DESIGN.md section 11 by the output of tools/seeded_meta.py."""
import os, subprocess
V = os.path.dirname(os.path.dirname(os.path.abspath(__file__)))
out = subprocess.run(['python3', os.path.join(V, 'tools', 'seeded_meta.py')], stdout=subprocess.PIPE, text=True).stdout
rows = [l for l in out.splitlines() if l.startswith('|')]
p = os.path.join(V, 'DESIGN.md')
L = open(p).read().split('\n')
a = next(i for i, l in enumerate(L) if l.startswith('| id | change |'))
b = a
while b < len(L) and L[b].startswith('|'):
    b += 1
L[a:b] = rows
open(p, 'w').write('\n'.join(L))
print(out.splitlines()[-1])
