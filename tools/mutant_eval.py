#!/usr/bin/env python3
"""Evaluate one seeded change delivered by a fault-seeding sub-agent.

usage: mutant_eval.py <PID> <worktree> <mutant-dir> <seeded-id> [--checks C01,C05] [--tier quick] [--skip-suite]

Steps (all in the scratch worktree, never in /repo):
 1. worktree clean at HEAD; build; demo must PASS            (unchanged tree)
 2. apply patch.diff; build; repo test suite must equal the baseline
    (82 pass, m3u_reader the known failure) [+ shim selftest for TS/framers]
 3. demo must FAIL with the change
 4. run /verif checks with --repo <worktree>: record which ones exit 1
 5. undo the change, rebuild
Writes /verif/seeded/<seeded-id>/{patch.diff, demo files, meta.json}.
"""
import json
import os
import shutil
import subprocess
import sys
import time

VERIF = os.path.dirname(os.path.dirname(os.path.abspath(__file__)))


def sh(cmd, cwd=None, timeout=3600, env=None):
    p = subprocess.run(cmd, shell=True, cwd=cwd, stdout=subprocess.PIPE,
                       stderr=subprocess.STDOUT, text=True, timeout=timeout,
                       env=env)
    return p.returncode, p.stdout


def suite(wt):
    sh('rm -f tests/*.trs tests/*.log', cwd=wt)
    rc, out = sh('timeout -k 10 1500 make -C tests check -j8', cwd=wt)
    base = set(json.load(open('/root/.vp/BASELINE.json'))['stable_pass'])
    got = set()
    import glob
    for trs in glob.glob(os.path.join(wt, 'tests', '*.trs')):
        name = 'tests/' + os.path.basename(trs)[:-4]
        if ':test-result: PASS' in open(trs).read():
            got.add(name)
    return sorted(base - got), sorted(got - base)


def main():
    a = sys.argv[1:]
    pid, wt, mdir, sid = a[:4]
    checks = [pid]
    tier = 'quick'
    skip_suite = False
    i = 4
    while i < len(a):
        if a[i] == '--checks':
            checks = a[i + 1].split(','); i += 2
        elif a[i] == '--tier':
            tier = a[i + 1]; i += 2
        elif a[i] == '--skip-suite':
            skip_suite = True; i += 1
        else:
            i += 1
    patch = os.path.join(mdir, 'patch.diff')
    meta = dict(id=sid, property=pid, worktree=wt, steps={})
    touched = subprocess.run("grep '^+++ ' %s | sed 's#+++ b/##'" % patch, shell=True,
                             stdout=subprocess.PIPE, text=True).stdout.split()
    meta['files'] = touched
    ts = any(f.startswith(('lib/upipe-ts', 'lib/upipe-framers', 'include/upipe-ts', 'include/upipe-framers'))
             for f in touched)
    uses_shim = ts or os.path.exists(os.path.join(wt, '_shimtest'))

    def build():
        rc, out = sh('make -j16', cwd=wt)
        if rc != 0:
            return rc, out[-3000:]
        if uses_shim:
            rc2, out2 = sh('SHIMTEST_OUT=%s/_shimtest REPO=%s /tmp/bitstream-shim/selftest.sh' % (wt, wt), cwd=wt)
            return (0 if 'SHIM-SELFTEST PASS' in out2 else 1), out2[-1500:]
        return 0, ''

    def demo():
        first = open(os.path.join(mdir, 'run.sh')).readline()
        interp = 'bash' if 'bash' in first else 'sh'
        rc, out = sh('SHIMTEST_OUT=%s/_shimtest %s %s/run.sh' % (wt, interp, os.path.relpath(mdir, wt)), cwd=wt, timeout=1200)
        return rc, out[-1500:]

    # 1. clean, at the current HEAD of /repo (fixes committed since the
    # worktree was created must not show up as violations of the mutant)
    sh('git checkout -- .', cwd=wt)
    head = subprocess.run(['git', '-C', '/repo', 'rev-parse', 'HEAD'], stdout=subprocess.PIPE, text=True).stdout.strip()
    sh('git checkout -q --detach %s' % head, cwd=wt)
    meta['base_commit'] = head[:10]
    meta['verif_commit'] = subprocess.run(['git', '-C', VERIF, 'rev-parse', '--short', 'HEAD'],
                                          stdout=subprocess.PIPE, text=True).stdout.strip()
    rc, out = build()
    meta['steps']['build_clean'] = rc
    rc, out = demo()
    meta['steps']['demo_clean_rc'] = rc
    meta['steps']['demo_clean_out'] = out[-600:]
    # 2. apply
    rc, out = sh('git apply %s' % patch, cwd=wt)
    if rc != 0:
        meta['steps']['apply'] = out
        print(json.dumps(meta, indent=1)); return 2
    try:
        rc, out = build()
        meta['steps']['build_mutant'] = rc
        if rc != 0:
            meta['steps']['build_mutant_out'] = out
        if not skip_suite:
            missing, extra = suite(wt)
            meta['steps']['suite_missing'] = missing
            meta['steps']['suite_extra'] = extra
        if uses_shim:
            rc2, out2 = sh('SHIMTEST_OUT=%s/_shimtest REPO=%s /tmp/bitstream-shim/selftest.sh' % (wt, wt), cwd=wt)
            meta['steps']['shim_selftest'] = 'PASS' if 'SHIM-SELFTEST PASS' in out2 else out2[-800:]
        rc, out = demo()
        meta['steps']['demo_mutant_rc'] = rc
        meta['steps']['demo_mutant_out'] = out[-600:]
        # 4. checks
        meta['checks'] = {}
        for c in checks:
            t0 = time.time()
            rc, out = sh('./check %s --tier %s --repo %s' % (c, tier, wt), cwd=VERIF, timeout=7200)
            lines = [l for l in out.splitlines() if l.startswith(('violation key', c + ' '))] + \
                    [l for l in out.splitlines() if l.startswith(('VIOLATION', 'INCONCLUSIVE'))] + \
                    [l for l in out.splitlines() if l.startswith('KNOWN-FINDING')]
            meta['checks'][c] = dict(rc=rc, wall_s=round(time.time() - t0, 1), tier=tier,
                                     lines=[l[:400] for l in lines][:12])
            if rc not in (0, 1):
                meta['checks'][c]['tail'] = out[-1500:]
    finally:
        sh('git checkout -- .', cwd=wt)
        build()
    ok_mutant = (meta['steps'].get('build_mutant') == 0 and
                 not meta['steps'].get('suite_missing') and
                 meta['steps'].get('demo_clean_rc') == 0 and
                 meta['steps'].get('demo_mutant_rc') not in (0, None))
    meta['confirmed'] = bool(ok_mutant)
    meta['caught_by'] = [c for c, r in meta.get('checks', {}).items() if r['rc'] == 1]
    out = os.path.join(VERIF, 'seeded', sid)
    os.makedirs(out, exist_ok=True)
    for f in os.listdir(mdir):
        src = os.path.join(mdir, f)
        if os.path.isfile(src) and os.path.getsize(src) < 400000 and not f.endswith(('.o', '.a')) \
                and not (os.access(src, os.X_OK) and not f.endswith('.sh')):
            shutil.copy(src, os.path.join(out, f))
    json.dump(meta, open(os.path.join(out, 'eval.json'), 'w'), indent=1)
    print(json.dumps({k: meta[k] for k in ('id', 'confirmed', 'caught_by', 'files')}, indent=None))
    print(json.dumps(meta['steps'], indent=1)[:2500])
    for c, r in meta.get('checks', {}).items():
        print(c, r['rc'], r['wall_s'], r['lines'][:4])
    return 0


if __name__ == '__main__':
    sys.exit(main())
