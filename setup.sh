#!/bin/bash
# Offline setup: pre-build the sanitizer variants of the Upipe sources and all
# harness programs from /repo's working tree (checks rebuild incrementally).
set -e
cd "$(dirname "$0")"
python3 - <<'PY'
import sys
sys.path.insert(0, '.')
from vlib import build, props
need = {}
for pid, s in props.PROPS.items():
    for j in s['jobs']:
        need.setdefault(j['variant'], set()).add(j['bin'])
bad = 0
for v, bins in sorted(need.items()):
    ok, bdir, log = build.build(v, '/repo', props.HARNESS, sorted(bins))
    print('variant %s: %s (%d programs)' % (v, 'ok' if ok else 'FAILED', len(bins)))
    if not ok:
        print(log[-4000:])
        bad = 1
sys.exit(bad)
PY
if [ -x shim/selftest.sh ] && [ -f shim/READY ]; then
    shim/selftest.sh
fi
