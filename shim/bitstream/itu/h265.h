/*
 * bitstream/itu/h265.h -- CLEAN-ROOM SHIM, *not* the real biTStream.
 *
 * API-compatible stand-in for the part of biTStream's <bitstream/itu/h265.h>
 * used by Upipe's H.265 framer, written from ITU-T H.265 (ISO/IEC 23008-2)
 * and ISO/IEC 14496-15 for verification purposes (see ../common.h and
 * ../../README.md).
 *
 * Naming conventions: h265nalst_*() take the *first* NAL header octet by
 * value; h265nal_*() take a pointer to an Annex B NAL unit starting with the
 * 3-octet start code prefix 00 00 01, so that the 2-octet NAL header is at
 * octets 3..4; h265hvcc_*() take a pointer to an
 * HEVCDecoderConfigurationRecord.
 */
#ifndef VERIF_SHIM_BITSTREAM_ITU_H265_H
#define VERIF_SHIM_BITSTREAM_ITU_H265_H

#include <bitstream/common.h>

#ifdef __cplusplus
extern "C"
{
#endif

/*
 * NAL unit header (ITU-T H.265 7.3.1.2, 7.4.2.2, table 7-1)
 *   octet 0     forbidden_zero_bit(1) nal_unit_type(6) nuh_layer_id[5](1)
 *   octet 1     nuh_layer_id[4..0](5) nuh_temporal_id_plus1(3)
 */
/** 3-octet start code prefix + 2-octet NAL header */
#define H265NAL_HEADER_SIZE         5

#define H265NAL_TYPE_TRAIL_N        0
#define H265NAL_TYPE_TRAIL_R        1
#define H265NAL_TYPE_TSA_N          2
#define H265NAL_TYPE_TSA_R          3
#define H265NAL_TYPE_STSA_N         4
#define H265NAL_TYPE_STSA_R         5
#define H265NAL_TYPE_RADL_N         6
#define H265NAL_TYPE_RADL_R         7
#define H265NAL_TYPE_RASL_N         8
#define H265NAL_TYPE_RASL_R         9
#define H265NAL_TYPE_BLA_W_LP       16
#define H265NAL_TYPE_BLA_W_RADL     17
#define H265NAL_TYPE_BLA_N_LP       18
#define H265NAL_TYPE_IDR_W_RADL     19
#define H265NAL_TYPE_IDR_N_LP       20
#define H265NAL_TYPE_CRA            21
#define H265NAL_TYPE_IRAP_VCL22     22
#define H265NAL_TYPE_IRAP_VCL23     23
#define H265NAL_TYPE_VPS            32
#define H265NAL_TYPE_SPS            33
#define H265NAL_TYPE_PPS            34
#define H265NAL_TYPE_AUD            35
#define H265NAL_TYPE_EOS            36
#define H265NAL_TYPE_EOB            37
#define H265NAL_TYPE_FD             38
#define H265NAL_TYPE_PREF_SEI       39
#define H265NAL_TYPE_SUFF_SEI       40

/** writes start code prefix, and a NAL header with type 0, layer 0 and
 * nuh_temporal_id_plus1 = 1 */
static inline void h265nal_init(uint8_t *p_h265nal)
{
    p_h265nal[0] = 0x0;
    p_h265nal[1] = 0x0;
    p_h265nal[2] = 0x1;
    p_h265nal[3] = 0x0;
    p_h265nal[4] = 0x1;
}

/** writes nal_unit_type, leaving the other header bits untouched */
static inline void h265nal_set_type(uint8_t *p_h265nal, uint8_t i_type)
{
    p_h265nal[3] &= ~0x7e;
    p_h265nal[3] |= (i_type & 0x3f) << 1;
}

/** returns nal_unit_type from the first NAL header octet */
static inline uint8_t h265nalst_get_type(uint8_t i_start_code)
{
    return (i_start_code & 0x7e) >> 1;
}

static inline uint8_t h265nal_get_type(const uint8_t *p_h265nal)
{
    return h265nalst_get_type(p_h265nal[3]);
}

/*
 * Supplemental enhancement information (Annex D)
 */
/* payloadType (D.2.1) */
#define H265SEI_BUFFERING_PERIOD    0
#define H265SEI_PIC_TIMING          1

/* pic_struct (table D.2) */
#define H265SEI_STRUCT_FRAME        0
#define H265SEI_STRUCT_TOP          1
#define H265SEI_STRUCT_BOT          2
#define H265SEI_STRUCT_TOP_BOT      3
#define H265SEI_STRUCT_BOT_TOP      4
#define H265SEI_STRUCT_TOP_BOT_TOP  5
#define H265SEI_STRUCT_BOT_TOP_BOT  6
#define H265SEI_STRUCT_DOUBLE       7
#define H265SEI_STRUCT_TRIPLE       8
#define H265SEI_STRUCT_TOP_PREV_BOT 9
#define H265SEI_STRUCT_BOT_PREV_TOP 10
#define H265SEI_STRUCT_TOP_NEXT_BOT 11
#define H265SEI_STRUCT_BOT_NEXT_TOP 12

/*
 * profile_tier_level() (7.3.3)
 */
/** size in octets of one profile description: profile_space(2) tier_flag(1)
 * profile_idc(5), profile_compatibility_flag[32], and 48 bits of constraint
 * flags */
#define H265PTL_PROFILE_SIZE        11

/*
 * Video parameter set (7.4.3.1) and levels (A.4.1: level_idc is 30 times
 * the level number)
 */
/** vps_video_parameter_set_id is coded on 4 bits */
#define H265VPS_ID_MAX              16

#define H265VPS_LEVEL_1_0           30
#define H265VPS_LEVEL_2_0           60
#define H265VPS_LEVEL_2_1           63
#define H265VPS_LEVEL_3_0           90
#define H265VPS_LEVEL_3_1           93
#define H265VPS_LEVEL_4_0           120
#define H265VPS_LEVEL_4_1           123
#define H265VPS_LEVEL_5_0           150
#define H265VPS_LEVEL_5_1           153
#define H265VPS_LEVEL_5_2           156
#define H265VPS_LEVEL_6_0           180
#define H265VPS_LEVEL_6_1           183
#define H265VPS_LEVEL_6_2           186

/*
 * Sequence parameter set (7.4.3.2)
 */
/** sps_seq_parameter_set_id is in the range 0..15 */
#define H265SPS_ID_MAX              16

/* chroma_format_idc (table 6-1) */
#define H265SPS_CHROMA_MONO         0
#define H265SPS_CHROMA_420          1
#define H265SPS_CHROMA_422          2
#define H265SPS_CHROMA_444          3

/* aspect_ratio_idc (table E.1) */
#define H265VUI_AR_EXTENDED         255

/*
 * Picture parameter set (7.4.3.3)
 */
/** pps_pic_parameter_set_id is in the range 0..63 */
#define H265PPS_ID_MAX              64

/*
 * Slice segment header: slice_type (table 7-7)
 */
#define H265SLI_TYPE_B              0
#define H265SLI_TYPE_P              1
#define H265SLI_TYPE_I              2

/*
 * HEVCDecoderConfigurationRecord "hvcC" (ISO/IEC 14496-15 8.3.3.1.2)
 *   byte 0      configurationVersion (1)
 *   byte 1      general_profile_space(2) general_tier_flag(1)
 *               general_profile_idc(5)
 *   byte 2..5   general_profile_compatibility_flags(32)
 *   byte 6..11  general_constraint_indicator_flags(48)
 *   byte 12     general_level_idc
 *   byte 13..14 reserved '1111' min_spatial_segmentation_idc(12)
 *   byte 15     reserved '111111' parallelismType(2)
 *   byte 16     reserved '111111' chromaFormat(2)
 *   byte 17     reserved '11111' bitDepthLumaMinus8(3)
 *   byte 18     reserved '11111' bitDepthChromaMinus8(3)
 *   byte 19..20 avgFrameRate(16)
 *   byte 21     constantFrameRate(2) numTemporalLayers(3)
 *               temporalIdNested(1) lengthSizeMinusOne(2)
 *   byte 22     numOfArrays
 *   numOfArrays times:
 *     byte 0    array_completeness(1) reserved '0' NAL_unit_type(6)
 *     byte 1..2 numNalus(16)
 *     numNalus times:
 *               nalUnitLength(16) nalUnit
 */
/** fixed part up to and including numOfArrays */
#define H265HVCC_HEADER             23
/** array_completeness/NAL_unit_type and numNalus */
#define H265HVCC_ARRAY_HEADER       3
/** nalUnitLength */
#define H265HVCC_NALU_HEADER        2

/** writes version and reserved bits, clears every other fixed field
 * (including numOfArrays) */
static inline void h265hvcc_init(uint8_t *p)
{
    memset(p, 0, H265HVCC_HEADER);
    p[0] = 1;
    p[13] = 0xf0;
    p[15] = 0xfc;
    p[16] = 0xfc;
    p[17] = 0xf8;
    p[18] = 0xf8;
}

static inline void h265hvcc_set_profile_space(uint8_t *p, uint8_t i_space)
{
    p[1] &= ~0xc0;
    p[1] |= (i_space & 0x3) << 6;
}

static inline uint8_t h265hvcc_get_profile_space(const uint8_t *p)
{
    return p[1] >> 6;
}

/** sets general_tier_flag (high tier) */
static inline void h265hvcc_set_tier(uint8_t *p)
{
    p[1] |= 0x20;
}

static inline bool h265hvcc_get_tier(const uint8_t *p)
{
    return !!(p[1] & 0x20);
}

static inline void h265hvcc_set_profile_idc(uint8_t *p, uint8_t i_profile)
{
    p[1] &= ~0x1f;
    p[1] |= i_profile & 0x1f;
}

static inline uint8_t h265hvcc_get_profile_idc(const uint8_t *p)
{
    return p[1] & 0x1f;
}

static inline void h265hvcc_set_profile_compatibility(uint8_t *p,
                                                      uint32_t i_compat)
{
    p[2] = i_compat >> 24;
    p[3] = (i_compat >> 16) & 0xff;
    p[4] = (i_compat >> 8) & 0xff;
    p[5] = i_compat & 0xff;
}

static inline uint32_t h265hvcc_get_profile_compatibility(const uint8_t *p)
{
    return ((uint32_t)p[2] << 24) | ((uint32_t)p[3] << 16) |
           ((uint32_t)p[4] << 8) | p[5];
}

/** writes the 48 bits of general_constraint_indicator_flags */
static inline void h265hvcc_set_constraint_indicator(uint8_t *p,
                                                     uint64_t i_constraint)
{
    p[6] = (i_constraint >> 40) & 0xff;
    p[7] = (i_constraint >> 32) & 0xff;
    p[8] = (i_constraint >> 24) & 0xff;
    p[9] = (i_constraint >> 16) & 0xff;
    p[10] = (i_constraint >> 8) & 0xff;
    p[11] = i_constraint & 0xff;
}

static inline uint64_t h265hvcc_get_constraint_indicator(const uint8_t *p)
{
    return ((uint64_t)p[6] << 40) | ((uint64_t)p[7] << 32) |
           ((uint64_t)p[8] << 24) | ((uint64_t)p[9] << 16) |
           ((uint64_t)p[10] << 8) | p[11];
}

static inline void h265hvcc_set_level_idc(uint8_t *p, uint8_t i_level)
{
    p[12] = i_level;
}

static inline uint8_t h265hvcc_get_level_idc(const uint8_t *p)
{
    return p[12];
}

static inline void h265hvcc_set_chroma_format(uint8_t *p, uint8_t i_chroma)
{
    p[16] = 0xfc | (i_chroma & 0x3);
}

static inline uint8_t h265hvcc_get_chroma_format(const uint8_t *p)
{
    return p[16] & 0x3;
}

/** writes lengthSizeMinusOne (0, 1 or 3) */
static inline void h265hvcc_set_length_size_1(uint8_t *p, uint8_t i_size_1)
{
    p[21] &= ~0x3;
    p[21] |= i_size_1 & 0x3;
}

static inline uint8_t h265hvcc_get_length_size_1(const uint8_t *p)
{
    return p[21] & 0x3;
}

static inline void h265hvcc_set_num_of_arrays(uint8_t *p, uint8_t i_nb)
{
    p[22] = i_nb;
}

static inline uint8_t h265hvcc_get_num_of_arrays(const uint8_t *p)
{
    return p[22];
}

/* NAL unit entry: h265hvcc_nalu_*() take a pointer returned by
 * h265hvcc_array_get_nalu() */
static inline void h265hvcc_nalu_set_length(uint8_t *p_nalu,
                                            uint16_t i_length)
{
    p_nalu[0] = i_length >> 8;
    p_nalu[1] = i_length & 0xff;
}

static inline uint16_t h265hvcc_nalu_get_length(const uint8_t *p_nalu)
{
    return ((uint16_t)p_nalu[0] << 8) | p_nalu[1];
}

/** returns a pointer to the NAL unit (NAL header first, no start code) */
static inline uint8_t *h265hvcc_nalu_get_nalu(const uint8_t *p_nalu)
{
    return (uint8_t *)p_nalu + H265HVCC_NALU_HEADER;
}

/* Array: h265hvcc_array_*() take a pointer returned by
 * h265hvcc_get_array() */
/** Writes the whole first octet of the array: NAL_unit_type, with
 * array_completeness set to 1 (all parameter sets of that type are in the
 * array) and the reserved bit to 0. */
static inline void h265hvcc_array_set_nal_unit_type(uint8_t *p_array,
                                                    uint8_t i_type)
{
    p_array[0] = 0x80 | (i_type & 0x3f);
}

static inline uint8_t h265hvcc_array_get_nal_unit_type(const uint8_t *p_array)
{
    return p_array[0] & 0x3f;
}

static inline void h265hvcc_array_set_num_nalus(uint8_t *p_array,
                                                uint16_t i_nb)
{
    p_array[1] = i_nb >> 8;
    p_array[2] = i_nb & 0xff;
}

static inline uint16_t h265hvcc_array_get_num_nalus(const uint8_t *p_array)
{
    return ((uint16_t)p_array[1] << 8) | p_array[2];
}

/** Returns a pointer to the n-th (from 0) NAL unit entry of the array, by
 * walking the n previous entries, whatever numNalus; n == numNalus gives
 * the end of the array. */
static inline uint8_t *h265hvcc_array_get_nalu(const uint8_t *p_array,
                                               uint16_t n)
{
    const uint8_t *p_nalu = p_array + H265HVCC_ARRAY_HEADER;
    while (n--)
        p_nalu += H265HVCC_NALU_HEADER + h265hvcc_nalu_get_length(p_nalu);
    return (uint8_t *)p_nalu;
}

/** Returns a pointer to the n-th (from 0) array, by walking the n previous
 * arrays (which must be completely written), whatever numOfArrays;
 * n == number of arrays gives the end of the record. */
static inline uint8_t *h265hvcc_get_array(const uint8_t *p, uint8_t n)
{
    const uint8_t *p_array = p + H265HVCC_HEADER;
    while (n--)
        p_array = h265hvcc_array_get_nalu(p_array,
                h265hvcc_array_get_num_nalus(p_array));
    return (uint8_t *)p_array;
}

/** Checks that the record has configurationVersion 1 and that all the
 * arrays and NAL units it announces fit in i_size octets; never reads
 * beyond p + i_size. */
static inline bool h265hvcc_validate(const uint8_t *p, size_t i_size)
{
    if (i_size < H265HVCC_HEADER || p[0] != 1)
        return false;

    size_t i_offset = H265HVCC_HEADER;
    uint8_t i_arrays = h265hvcc_get_num_of_arrays(p);
    while (i_arrays--) {
        if (i_offset + H265HVCC_ARRAY_HEADER > i_size)
            return false;
        uint16_t i_nalus = h265hvcc_array_get_num_nalus(p + i_offset);
        i_offset += H265HVCC_ARRAY_HEADER;
        while (i_nalus--) {
            if (i_offset + H265HVCC_NALU_HEADER > i_size)
                return false;
            i_offset += H265HVCC_NALU_HEADER +
                        h265hvcc_nalu_get_length(p + i_offset);
        }
    }

    return i_offset <= i_size;
}

#ifdef __cplusplus
}
#endif

#endif
