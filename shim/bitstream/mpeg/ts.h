/*
 * bitstream/mpeg/ts.h -- CLEAN-ROOM SHIM, *not* the real biTStream.
 *
 * API-compatible stand-in for the part of biTStream's <bitstream/mpeg/ts.h>
 * used by Upipe's TS pipes, written from ISO/IEC 13818-1 for verification
 * purposes (see ../common.h and ../../README.md).
 *
 * All functions take a pointer to the first byte (sync byte) of a TS packet,
 * including the tsaf_*() adaptation-field accessors.
 *
 * ISO/IEC 13818-1 2.4.3.2 transport_packet():
 *   byte 0      sync_byte (0x47)
 *   byte 1      transport_error_indicator(1) payload_unit_start_indicator(1)
 *               transport_priority(1) PID[12..8](5)
 *   byte 2      PID[7..0]
 *   byte 3      transport_scrambling_control(2) adaptation_field_control(2)
 *               continuity_counter(4)
 * ISO/IEC 13818-1 2.4.3.4 adaptation_field() (when adaptation_field_control
 * has bit 0x2 set):
 *   byte 4      adaptation_field_length
 *   byte 5      discontinuity_indicator(1) random_access_indicator(1)
 *               elementary_stream_priority_indicator(1) PCR_flag(1)
 *               OPCR_flag(1) splicing_point_flag(1)
 *               transport_private_data_flag(1)
 *               adaptation_field_extension_flag(1)
 *   byte 6..11  program_clock_reference_base(33) reserved(6)
 *               program_clock_reference_extension(9)     (if PCR_flag)
 */
#ifndef VERIF_SHIM_BITSTREAM_MPEG_TS_H
#define VERIF_SHIM_BITSTREAM_MPEG_TS_H

#include <bitstream/common.h>

#ifdef __cplusplus
extern "C"
{
#endif

/*
 * Sizes
 */
/** size of a TS packet */
#define TS_SIZE                 188
/** size of the fixed TS header */
#define TS_HEADER_SIZE          4
/** size of the TS header with adaptation_field_length and the flags octet */
#define TS_HEADER_SIZE_AF       6
/** size of the TS header with an adaptation field carrying a PCR */
#define TS_HEADER_SIZE_PCR      12

/** declares a TS packet-sized buffer */
#define TS_DECLARE(p_ts)        uint8_t p_ts[TS_SIZE]

/*
 * TS header (2.4.3.2)
 */
/** writes sync byte and clears every other header field */
static inline void ts_init(uint8_t *p_ts)
{
    p_ts[0] = 0x47;
    p_ts[1] = 0x0;
    p_ts[2] = 0x0;
    p_ts[3] = 0x0;
}

/** checks the sync byte */
static inline bool ts_validate(const uint8_t *p_ts)
{
    return p_ts[0] == 0x47;
}

static inline void ts_set_transporterror(uint8_t *p_ts)
{
    p_ts[1] |= 0x80;
}

static inline bool ts_get_transporterror(const uint8_t *p_ts)
{
    return !!(p_ts[1] & 0x80);
}

static inline void ts_set_unitstart(uint8_t *p_ts)
{
    p_ts[1] |= 0x40;
}

static inline bool ts_get_unitstart(const uint8_t *p_ts)
{
    return !!(p_ts[1] & 0x40);
}

static inline void ts_set_transportpriority(uint8_t *p_ts)
{
    p_ts[1] |= 0x20;
}

static inline bool ts_get_transportpriority(const uint8_t *p_ts)
{
    return !!(p_ts[1] & 0x20);
}

static inline void ts_set_pid(uint8_t *p_ts, uint16_t i_pid)
{
    p_ts[1] &= ~0x1f;
    p_ts[1] |= (i_pid >> 8) & 0x1f;
    p_ts[2] = i_pid & 0xff;
}

static inline uint16_t ts_get_pid(const uint8_t *p_ts)
{
    return ((uint16_t)(p_ts[1] & 0x1f) << 8) | p_ts[2];
}

static inline void ts_set_scrambling(uint8_t *p_ts, uint8_t i_scrambling)
{
    p_ts[3] &= ~0xc0;
    p_ts[3] |= (i_scrambling & 0x3) << 6;
}

static inline uint8_t ts_get_scrambling(const uint8_t *p_ts)
{
    return (p_ts[3] & 0xc0) >> 6;
}

/** sets the "payload present" bit of adaptation_field_control */
static inline void ts_set_payload(uint8_t *p_ts)
{
    p_ts[3] |= 0x10;
}

static inline bool ts_has_payload(const uint8_t *p_ts)
{
    return !!(p_ts[3] & 0x10);
}

static inline void ts_set_cc(uint8_t *p_ts, uint8_t i_cc)
{
    p_ts[3] &= ~0xf;
    p_ts[3] |= i_cc & 0xf;
}

static inline uint8_t ts_get_cc(const uint8_t *p_ts)
{
    return p_ts[3] & 0xf;
}

/*
 * Adaptation field (2.4.3.4)
 */
/** Sets the "adaptation field present" bit and writes
 * adaptation_field_length. When the length is non-zero the flags octet is
 * cleared, and all remaining octets of the field are set to stuffing (0xff);
 * flags and PCR may then be written with the tsaf_set_*() functions.
 * Exactly 1 + i_length octets are written after the TS header. */
static inline void ts_set_adaptation(uint8_t *p_ts, uint8_t i_length)
{
    p_ts[3] |= 0x20;
    p_ts[4] = i_length;
    if (i_length)
        p_ts[5] = 0x0;
    if (i_length > 1)
        memset(&p_ts[6], 0xff, i_length - 1);
}

static inline bool ts_has_adaptation(const uint8_t *p_ts)
{
    return !!(p_ts[3] & 0x20);
}

/** returns adaptation_field_length (only valid if ts_has_adaptation()) */
static inline uint8_t ts_get_adaptation(const uint8_t *p_ts)
{
    return p_ts[4];
}

/** returns a pointer to the first octet after the header and the adaptation
 * field, i.e. the payload */
static inline uint8_t *ts_payload(uint8_t *p_ts)
{
    if (!ts_has_payload(p_ts))
        return p_ts + TS_SIZE;
    if (!ts_has_adaptation(p_ts))
        return p_ts + TS_HEADER_SIZE;
    return p_ts + TS_HEADER_SIZE + 1 + ts_get_adaptation(p_ts);
}

/* The tsaf_*() accessors require adaptation_field_length >= 1. */
static inline void tsaf_set_discontinuity(uint8_t *p_ts)
{
    p_ts[5] |= 0x80;
}

static inline void tsaf_clear_discontinuity(uint8_t *p_ts)
{
    p_ts[5] &= ~0x80;
}

static inline bool tsaf_has_discontinuity(const uint8_t *p_ts)
{
    return !!(p_ts[5] & 0x80);
}

static inline void tsaf_set_randomaccess(uint8_t *p_ts)
{
    p_ts[5] |= 0x40;
}

static inline bool tsaf_has_randomaccess(const uint8_t *p_ts)
{
    return !!(p_ts[5] & 0x40);
}

static inline void tsaf_set_streampriority(uint8_t *p_ts)
{
    p_ts[5] |= 0x20;
}

static inline bool tsaf_has_streampriority(const uint8_t *p_ts)
{
    return !!(p_ts[5] & 0x20);
}

/** Sets PCR_flag and writes the 33-bit program_clock_reference_base
 * (90 kHz units); the 6 reserved bits are set to 1 and the extension is
 * cleared. Requires adaptation_field_length >= 7. */
static inline void tsaf_set_pcr(uint8_t *p_ts, uint64_t i_pcr)
{
    p_ts[5] |= 0x10;
    p_ts[6] = (i_pcr >> 25) & 0xff;
    p_ts[7] = (i_pcr >> 17) & 0xff;
    p_ts[8] = (i_pcr >> 9) & 0xff;
    p_ts[9] = (i_pcr >> 1) & 0xff;
    p_ts[10] = ((i_pcr & 0x1) << 7) | 0x7e;
    p_ts[11] = 0x0;
}

/** Writes the 9-bit program_clock_reference_extension (27 MHz units,
 * 0..299); must be called after tsaf_set_pcr(). */
static inline void tsaf_set_pcrext(uint8_t *p_ts, uint16_t i_pcr_ext)
{
    p_ts[10] &= ~0x01;
    p_ts[10] |= (i_pcr_ext >> 8) & 0x1;
    p_ts[11] = i_pcr_ext & 0xff;
}

static inline bool tsaf_has_pcr(const uint8_t *p_ts)
{
    return !!(p_ts[5] & 0x10);
}

/** returns the 33-bit program_clock_reference_base */
static inline uint64_t tsaf_get_pcr(const uint8_t *p_ts)
{
    return ((uint64_t)p_ts[6] << 25) | ((uint64_t)p_ts[7] << 17) |
           ((uint64_t)p_ts[8] << 9) | ((uint64_t)p_ts[9] << 1) |
           ((uint64_t)p_ts[10] >> 7);
}

/** returns the 9-bit program_clock_reference_extension */
static inline uint16_t tsaf_get_pcrext(const uint8_t *p_ts)
{
    return ((uint16_t)(p_ts[10] & 0x1) << 8) | p_ts[11];
}

/*
 * Whole packets
 */
/** builds a null packet (2.4.3.3: PID 0x1fff, payload only, stuffing) */
static inline void ts_pad(uint8_t *p_ts)
{
    ts_init(p_ts);
    ts_set_pid(p_ts, 0x1fff);
    ts_set_cc(p_ts, 0);
    ts_set_payload(p_ts);
    memset(p_ts + TS_HEADER_SIZE, 0xff, TS_SIZE - TS_HEADER_SIZE);
}

/*
 * continuity_counter checks (2.4.3.3)
 */
/** returns true if the packet repeats the previous continuity counter */
static inline bool ts_check_duplicate(uint8_t i_cc, uint8_t i_last_cc)
{
    return i_last_cc == i_cc;
}

/** returns true if the continuity counter is not the successor (modulo 16)
 * of the previous one */
static inline bool ts_check_discontinuity(uint8_t i_cc, uint8_t i_last_cc)
{
    return ((i_last_cc + 1) & 0xf) != (i_cc & 0xf);
}

#ifdef __cplusplus
}
#endif

#endif
