/*
 * bitstream/mpeg/h264.h -- CLEAN-ROOM SHIM, *not* the real biTStream.
 *
 * API-compatible stand-in for the part of biTStream's <bitstream/mpeg/h264.h>
 * used by Upipe's H.264 framer, written from ISO/IEC 14496-10 (ITU-T H.264)
 * and ISO/IEC 14496-15 for verification purposes (see ../common.h and
 * ../../README.md).
 *
 * Naming conventions: h264nalst_*() take the NAL header octet *by value*
 * ("start code" octet following 00 00 01); h264nal_*(), h264sps_*() take a
 * pointer to an Annex B NAL unit starting with the 3-octet start code prefix
 * 00 00 01, so that the NAL header is octet 3; h264avcc_*() take a pointer to
 * an AVCDecoderConfigurationRecord.
 */
#ifndef VERIF_SHIM_BITSTREAM_MPEG_H264_H
#define VERIF_SHIM_BITSTREAM_MPEG_H264_H

#include <bitstream/common.h>

#ifdef __cplusplus
extern "C"
{
#endif

/*
 * NAL unit header (ISO/IEC 14496-10 7.3.1, 7.4.1, table 7-1)
 *   forbidden_zero_bit(1) nal_ref_idc(2) nal_unit_type(5)
 */
/** 3-octet start code prefix + NAL header octet */
#define H264NAL_HEADER_SIZE         4

#define H264NAL_TYPE_NONIDR         1
#define H264NAL_TYPE_PARTA          2
#define H264NAL_TYPE_PARTB          3
#define H264NAL_TYPE_PARTC          4
#define H264NAL_TYPE_IDR            5
#define H264NAL_TYPE_SEI            6
#define H264NAL_TYPE_SPS            7
#define H264NAL_TYPE_PPS            8
#define H264NAL_TYPE_AUD            9
#define H264NAL_TYPE_ENDSEQ         10
#define H264NAL_TYPE_ENDSTR         11
#define H264NAL_TYPE_FILLER         12
#define H264NAL_TYPE_SPSX           13
#define H264NAL_TYPE_PFX            14
#define H264NAL_TYPE_SSPS           15

/** writes start code prefix and clears the NAL header octet */
static inline void h264nal_init(uint8_t *p_h264nal)
{
    p_h264nal[0] = 0x0;
    p_h264nal[1] = 0x0;
    p_h264nal[2] = 0x1;
    p_h264nal[3] = 0x0;
}

static inline void h264nal_set_ref(uint8_t *p_h264nal, uint8_t i_ref)
{
    p_h264nal[3] &= ~0x60;
    p_h264nal[3] |= (i_ref & 0x3) << 5;
}

static inline void h264nal_set_type(uint8_t *p_h264nal, uint8_t i_type)
{
    p_h264nal[3] &= ~0x1f;
    p_h264nal[3] |= i_type & 0x1f;
}

/** returns nal_ref_idc from the NAL header octet */
static inline uint8_t h264nalst_get_ref(uint8_t i_start_code)
{
    return (i_start_code & 0x60) >> 5;
}

/** returns nal_unit_type from the NAL header octet */
static inline uint8_t h264nalst_get_type(uint8_t i_start_code)
{
    return i_start_code & 0x1f;
}

static inline uint8_t h264nal_get_ref(const uint8_t *p_h264nal)
{
    return h264nalst_get_ref(p_h264nal[3]);
}

static inline uint8_t h264nal_get_type(const uint8_t *p_h264nal)
{
    return h264nalst_get_type(p_h264nal[3]);
}

/** returns true for VCL NAL unit types (table 7-1: types 1 to 5) */
static inline bool h264naltype_is_vcl(uint8_t i_type)
{
    return i_type >= H264NAL_TYPE_NONIDR && i_type <= H264NAL_TYPE_IDR;
}

/*
 * Supplemental enhancement information (Annex D)
 */
/* payloadType (D.1) */
#define H264SEI_BUFFERING_PERIOD    0
#define H264SEI_PIC_TIMING          1

/* pic_struct (table D-1) */
#define H264SEI_STRUCT_FRAME        0
#define H264SEI_STRUCT_TOP          1
#define H264SEI_STRUCT_BOT          2
#define H264SEI_STRUCT_TOP_BOT      3
#define H264SEI_STRUCT_BOT_TOP      4
#define H264SEI_STRUCT_TOP_BOT_TOP  5
#define H264SEI_STRUCT_BOT_TOP_BOT  6
#define H264SEI_STRUCT_DOUBLE       7
#define H264SEI_STRUCT_TRIPLE       8

/*
 * Sequence parameter set (7.3.2.1.1, 7.4.2.1.1)
 */
/** start code prefix (3), NAL header, profile_idc, constraint flags and
 * level_idc: offset of seq_parameter_set_id */
#define H264SPS_HEADER_SIZE         7
/** seq_parameter_set_id is in the range 0..31 */
#define H264SPS_ID_MAX              32

/* chroma_format_idc (table 6-1) */
#define H264SPS_CHROMA_MONO         0
#define H264SPS_CHROMA_420          1
#define H264SPS_CHROMA_422          2
#define H264SPS_CHROMA_444          3

/* aspect_ratio_idc (table E-1) */
#define H264VUI_AR_EXTENDED         255

/*
 * Picture parameter set (7.4.2.2)
 */
/** pic_parameter_set_id is in the range 0..255 */
#define H264PPS_ID_MAX              256

/*
 * Slice header: slice_type modulo 5 (table 7-6)
 */
#define H264SLI_TYPE_P              0
#define H264SLI_TYPE_B              1
#define H264SLI_TYPE_I              2
#define H264SLI_TYPE_SP             3
#define H264SLI_TYPE_SI             4

/*
 * AVCDecoderConfigurationRecord "avcC" (ISO/IEC 14496-15 5.2.4.1.1 in
 * edition 2, 5.3.3.1.2 in later editions)
 *   byte 0      configurationVersion (1)
 *   byte 1      AVCProfileIndication
 *   byte 2      profile_compatibility
 *   byte 3      AVCLevelIndication
 *   byte 4      reserved '111111' lengthSizeMinusOne(2)
 *   byte 5      reserved '111' numOfSequenceParameterSets(5)
 *   numOfSequenceParameterSets times:
 *               sequenceParameterSetLength(16) sequenceParameterSetNALUnit
 *   1 byte      numOfPictureParameterSets
 *   numOfPictureParameterSets times:
 *               pictureParameterSetLength(16) pictureParameterSetNALUnit
 */
/** fixed part up to and including numOfSequenceParameterSets */
#define H264AVCC_HEADER             6
/** numOfPictureParameterSets */
#define H264AVCC_HEADER2            1
/** sequenceParameterSetLength */
#define H264AVCC_SPS_HEADER         2
/** pictureParameterSetLength */
#define H264AVCC_PPS_HEADER         2

/** writes version and reserved bits, clears all other fixed fields */
static inline void h264avcc_init(uint8_t *p)
{
    p[0] = 1;
    p[1] = 0;
    p[2] = 0;
    p[3] = 0;
    p[4] = 0xfc;
    p[5] = 0xe0;
}

static inline void h264avcc_set_profile(uint8_t *p, uint8_t i_profile)
{
    p[1] = i_profile;
}

static inline uint8_t h264avcc_get_profile(const uint8_t *p)
{
    return p[1];
}

static inline void h264avcc_set_profile_compatibility(uint8_t *p,
                                                      uint8_t i_compat)
{
    p[2] = i_compat;
}

static inline uint8_t h264avcc_get_profile_compatibility(const uint8_t *p)
{
    return p[2];
}

static inline void h264avcc_set_level(uint8_t *p, uint8_t i_level)
{
    p[3] = i_level;
}

static inline uint8_t h264avcc_get_level(const uint8_t *p)
{
    return p[3];
}

/** writes lengthSizeMinusOne (0, 1 or 3) */
static inline void h264avcc_set_length_size_1(uint8_t *p, uint8_t i_size_1)
{
    p[4] = 0xfc | (i_size_1 & 0x3);
}

static inline uint8_t h264avcc_get_length_size_1(const uint8_t *p)
{
    return p[4] & 0x3;
}

static inline void h264avcc_set_nb_sps(uint8_t *p, uint8_t i_nb)
{
    p[5] = 0xe0 | (i_nb & 0x1f);
}

static inline uint8_t h264avcc_get_nb_sps(const uint8_t *p)
{
    return p[5] & 0x1f;
}

/* SPS entry: h264avcc_spsh_*() take a pointer returned by
 * h264avcc_get_spsh() */
static inline void h264avcc_spsh_set_length(uint8_t *p_spsh,
                                            uint16_t i_length)
{
    p_spsh[0] = i_length >> 8;
    p_spsh[1] = i_length & 0xff;
}

static inline uint16_t h264avcc_spsh_get_length(const uint8_t *p_spsh)
{
    return ((uint16_t)p_spsh[0] << 8) | p_spsh[1];
}

/** returns a pointer to the SPS NAL unit (NAL header first, no start code) */
static inline uint8_t *h264avcc_spsh_get_sps(const uint8_t *p_spsh)
{
    return (uint8_t *)p_spsh + H264AVCC_SPS_HEADER;
}

/** Returns a pointer to the n-th (from 0) SPS entry, by walking the n
 * previous entries, whatever numOfSequenceParameterSets; n == number of SPS
 * gives the position of numOfPictureParameterSets. */
static inline uint8_t *h264avcc_get_spsh(const uint8_t *p, uint8_t n)
{
    const uint8_t *p_spsh = p + H264AVCC_HEADER;
    while (n--)
        p_spsh += H264AVCC_SPS_HEADER + h264avcc_spsh_get_length(p_spsh);
    return (uint8_t *)p_spsh;
}

/** writes numOfPictureParameterSets; all SPS entries must have been written
 * (numOfSequenceParameterSets and their lengths) beforehand */
static inline void h264avcc_set_nb_pps(uint8_t *p, uint8_t i_nb)
{
    uint8_t *p_nb_pps = h264avcc_get_spsh(p, h264avcc_get_nb_sps(p));
    p_nb_pps[0] = i_nb;
}

static inline uint8_t h264avcc_get_nb_pps(const uint8_t *p)
{
    const uint8_t *p_nb_pps = h264avcc_get_spsh(p, h264avcc_get_nb_sps(p));
    return p_nb_pps[0];
}

/* PPS entry: h264avcc_ppsh_*() take a pointer returned by
 * h264avcc_get_ppsh() */
static inline void h264avcc_ppsh_set_length(uint8_t *p_ppsh,
                                            uint16_t i_length)
{
    p_ppsh[0] = i_length >> 8;
    p_ppsh[1] = i_length & 0xff;
}

static inline uint16_t h264avcc_ppsh_get_length(const uint8_t *p_ppsh)
{
    return ((uint16_t)p_ppsh[0] << 8) | p_ppsh[1];
}

/** returns a pointer to the PPS NAL unit (NAL header first, no start code) */
static inline uint8_t *h264avcc_ppsh_get_pps(const uint8_t *p_ppsh)
{
    return (uint8_t *)p_ppsh + H264AVCC_PPS_HEADER;
}

/** Returns a pointer to the n-th (from 0) PPS entry, by walking all SPS
 * entries and the n previous PPS entries, whatever
 * numOfPictureParameterSets; n == number of PPS gives the end of the
 * record. */
static inline uint8_t *h264avcc_get_ppsh(const uint8_t *p, uint8_t n)
{
    const uint8_t *p_ppsh = h264avcc_get_spsh(p, h264avcc_get_nb_sps(p)) +
                            H264AVCC_HEADER2;
    while (n--)
        p_ppsh += H264AVCC_PPS_HEADER + h264avcc_ppsh_get_length(p_ppsh);
    return (uint8_t *)p_ppsh;
}

/** Checks that the record has configurationVersion 1 and that all the SPS
 * and PPS entries it announces fit in i_size octets; never reads beyond
 * p + i_size. */
static inline bool h264avcc_validate(const uint8_t *p, size_t i_size)
{
    if (i_size < H264AVCC_HEADER + H264AVCC_HEADER2 || p[0] != 1)
        return false;

    size_t i_offset = H264AVCC_HEADER;
    uint8_t i_nb = h264avcc_get_nb_sps(p);
    while (i_nb--) {
        if (i_offset + H264AVCC_SPS_HEADER > i_size)
            return false;
        i_offset += H264AVCC_SPS_HEADER +
                    h264avcc_spsh_get_length(p + i_offset);
    }

    if (i_offset + H264AVCC_HEADER2 > i_size)
        return false;
    i_nb = p[i_offset];
    i_offset += H264AVCC_HEADER2;
    while (i_nb--) {
        if (i_offset + H264AVCC_PPS_HEADER > i_size)
            return false;
        i_offset += H264AVCC_PPS_HEADER +
                    h264avcc_ppsh_get_length(p + i_offset);
    }

    return i_offset <= i_size;
}

#ifdef __cplusplus
}
#endif

#endif
