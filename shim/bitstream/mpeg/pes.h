/*
 * bitstream/mpeg/pes.h -- CLEAN-ROOM SHIM, *not* the real biTStream.
 *
 * API-compatible stand-in for the part of biTStream's <bitstream/mpeg/pes.h>
 * used by Upipe's TS pipes, written from ISO/IEC 13818-1 for verification
 * purposes (see ../common.h and ../../README.md).
 *
 * All functions take a pointer to the first byte of the PES packet (first
 * byte of packet_start_code_prefix), even those which only touch the optional
 * header or the timestamps; they only dereference the octets documented
 * below, so that callers may pass `mapped_ptr - offset`.
 *
 * ISO/IEC 13818-1 2.4.3.6 / 2.4.3.7 PES_packet():
 *   byte 0..2   packet_start_code_prefix (0x000001)
 *   byte 3      stream_id
 *   byte 4..5   PES_packet_length
 *  for all stream_ids but program_stream_map, padding_stream,
 *  private_stream_2, ECM, EMM, program_stream_directory, DSMCC and
 *  H.222.1 type E:
 *   byte 6      '10' PES_scrambling_control(2) PES_priority(1)
 *               data_alignment_indicator(1) copyright(1) original_or_copy(1)
 *   byte 7      PTS_DTS_flags(2) ESCR_flag(1) ES_rate_flag(1)
 *               DSM_trick_mode_flag(1) additional_copy_info_flag(1)
 *               PES_CRC_flag(1) PES_extension_flag(1)
 *   byte 8      PES_header_data_length
 *   byte 9..13  '001x' PTS[32..30] marker PTS[29..15] marker PTS[14..0] marker
 *   byte 14..18 '0001' DTS[32..30] marker DTS[29..15] marker DTS[14..0] marker
 */
#ifndef VERIF_SHIM_BITSTREAM_MPEG_PES_H
#define VERIF_SHIM_BITSTREAM_MPEG_PES_H

#include <bitstream/common.h>

#ifdef __cplusplus
extern "C"
{
#endif

/*
 * Sizes
 */
/** start code, stream_id and PES_packet_length */
#define PES_HEADER_SIZE             6
/** size of the optional header without optional fields (flags + length) */
#define PES_HEADER_OPTIONAL_SIZE    3
/** size of an encoded PTS or DTS */
#define PES_HEADER_TS_SIZE          5
/** complete header without timestamps */
#define PES_HEADER_SIZE_NOPTS       9
/** complete header with PTS */
#define PES_HEADER_SIZE_PTS         14
/** complete header with PTS and DTS */
#define PES_HEADER_SIZE_PTSDTS      19

/*
 * stream_id assignments (ISO/IEC 13818-1 table 2-22)
 */
#define PES_STREAM_ID_MIN           0xbc
#define PES_STREAM_ID_PSM           0xbc
#define PES_STREAM_ID_PRIVATE_1     0xbd
#define PES_STREAM_ID_PADDING       0xbe
#define PES_STREAM_ID_PRIVATE_2     0xbf
#define PES_STREAM_ID_AUDIO_MPEG    0xc0 /* 110x xxxx */
#define PES_STREAM_ID_VIDEO_MPEG    0xe0 /* 1110 xxxx */
#define PES_STREAM_ID_ECM           0xf0
#define PES_STREAM_ID_EMM           0xf1
#define PES_STREAM_ID_DSMCC         0xf2
#define PES_STREAM_ID_MHEG          0xf3
#define PES_STREAM_ID_H222_1_A      0xf4
#define PES_STREAM_ID_H222_1_B      0xf5
#define PES_STREAM_ID_H222_1_C      0xf6
#define PES_STREAM_ID_H222_1_D      0xf7
#define PES_STREAM_ID_H222_1_E      0xf8
#define PES_STREAM_ID_ANCILLARY     0xf9
#define PES_STREAM_ID_EXTENDED      0xfd
#define PES_STREAM_ID_PSD           0xff

/*
 * Fixed header (bytes 0..5)
 */
/** writes packet_start_code_prefix */
static inline void pes_init(uint8_t *p_pes)
{
    p_pes[0] = 0x0;
    p_pes[1] = 0x0;
    p_pes[2] = 0x1;
}

/** checks packet_start_code_prefix (reads bytes 0..2) */
static inline bool pes_validate(const uint8_t *p_pes)
{
    return p_pes[0] == 0x0 && p_pes[1] == 0x0 && p_pes[2] == 0x1;
}

static inline void pes_set_streamid(uint8_t *p_pes, uint8_t i_stream_id)
{
    p_pes[3] = i_stream_id;
}

static inline uint8_t pes_get_streamid(const uint8_t *p_pes)
{
    return p_pes[3];
}

/** writes PES_packet_length (number of octets following byte 5; 0 means
 * unbounded, only allowed for video in TS) */
static inline void pes_set_length(uint8_t *p_pes, uint16_t i_length)
{
    p_pes[4] = i_length >> 8;
    p_pes[5] = i_length & 0xff;
}

static inline uint16_t pes_get_length(const uint8_t *p_pes)
{
    return ((uint16_t)p_pes[4] << 8) | p_pes[5];
}

/*
 * Optional header (bytes 6..8)
 */
/** Initialises the optional header: writes the '10' marker with every flag
 * of bytes 6 and 7 cleared, sets PES_header_data_length, and fills the
 * i_length header data octets with stuffing (0xff). Flags and timestamps are
 * to be set afterwards. */
static inline void pes_set_headerlength(uint8_t *p_pes, uint8_t i_length)
{
    p_pes[6] = 0x80;
    p_pes[7] = 0x0;
    p_pes[8] = i_length;
    if (i_length)
        memset(&p_pes[9], 0xff, i_length);
}

static inline uint8_t pes_get_headerlength(const uint8_t *p_pes)
{
    return p_pes[8];
}

/** checks the '10' marker of the optional header (reads byte 6 only) */
static inline bool pes_validate_header(const uint8_t *p_pes)
{
    return (p_pes[6] & 0xc0) == 0x80;
}

static inline void pes_set_dataalignment(uint8_t *p_pes)
{
    p_pes[6] |= 0x4;
}

static inline bool pes_get_dataalignment(const uint8_t *p_pes)
{
    return !!(p_pes[6] & 0x4);
}

/** returns true if PTS_DTS_flags is '10' or '11' (reads byte 7 only) */
static inline bool pes_has_pts(const uint8_t *p_pes)
{
    return !!(p_pes[7] & 0x80);
}

/** returns true if PTS_DTS_flags is '11' or '01' (reads byte 7 only) */
static inline bool pes_has_dts(const uint8_t *p_pes)
{
    return !!(p_pes[7] & 0x40);
}

/*
 * Timestamps (bytes 9..18)
 */
/** @internal writes a 33-bit timestamp on 5 octets with its marker bits */
static inline void pes_shim_write_ts(uint8_t *p, uint8_t i_prefix,
                                     uint64_t i_ts)
{
    p[0] = (i_prefix << 4) | ((i_ts >> 29) & 0xe) | 0x1;
    p[1] = (i_ts >> 22) & 0xff;
    p[2] = ((i_ts >> 14) & 0xfe) | 0x1;
    p[3] = (i_ts >> 7) & 0xff;
    p[4] = ((i_ts << 1) & 0xfe) | 0x1;
}

/** @internal reads a 33-bit timestamp */
static inline uint64_t pes_shim_read_ts(const uint8_t *p)
{
    return ((uint64_t)(p[0] & 0xe) << 29) | ((uint64_t)p[1] << 22) |
           ((uint64_t)(p[2] & 0xfe) << 14) | ((uint64_t)p[3] << 7) |
           ((uint64_t)p[4] >> 1);
}

/** @internal checks the three marker bits of a timestamp */
static inline bool pes_shim_validate_ts(const uint8_t *p)
{
    return (p[0] & 0x1) && (p[2] & 0x1) && (p[4] & 0x1);
}

/** Sets the PTS flag and writes the PTS (90 kHz, 33 bits). The optional
 * header must have been initialised with pes_set_headerlength();
 * PES_header_data_length is raised to 5 if it was lower. May be called
 * before or after pes_set_dts(). */
static inline void pes_set_pts(uint8_t *p_pes, uint64_t i_pts)
{
    p_pes[7] |= 0x80;
    if (p_pes[8] < PES_HEADER_TS_SIZE)
        p_pes[8] = PES_HEADER_TS_SIZE;
    /* prefix '0011' when a DTS follows, '0010' otherwise */
    pes_shim_write_ts(p_pes + 9, (p_pes[7] & 0x40) ? 0x3 : 0x2, i_pts);
}

/** Sets the DTS flag and writes the DTS (90 kHz, 33 bits);
 * PES_header_data_length is raised to 10 if it was lower, and the PTS prefix
 * is changed to '0011'. */
static inline void pes_set_dts(uint8_t *p_pes, uint64_t i_dts)
{
    p_pes[7] |= 0x40;
    if (p_pes[8] < 2 * PES_HEADER_TS_SIZE)
        p_pes[8] = 2 * PES_HEADER_TS_SIZE;
    p_pes[9] |= 0x10;
    pes_shim_write_ts(p_pes + 14, 0x1, i_dts);
}

/** checks prefix ('0010' or '0011') and marker bits of the PTS (reads bytes
 * 9..13 only) */
static inline bool pes_validate_pts(const uint8_t *p_pes)
{
    return (p_pes[9] & 0xe0) == 0x20 && pes_shim_validate_ts(p_pes + 9);
}

/** checks prefixes ('0011' then '0001') and marker bits of PTS and DTS
 * (reads bytes 9..18 only) */
static inline bool pes_validate_dts(const uint8_t *p_pes)
{
    return (p_pes[9] & 0xf0) == 0x30 && pes_shim_validate_ts(p_pes + 9) &&
           (p_pes[14] & 0xf0) == 0x10 && pes_shim_validate_ts(p_pes + 14);
}

/** returns the PTS (reads bytes 9..13 only) */
static inline uint64_t pes_get_pts(const uint8_t *p_pes)
{
    return pes_shim_read_ts(p_pes + 9);
}

/** returns the DTS (reads bytes 14..18 only) */
static inline uint64_t pes_get_dts(const uint8_t *p_pes)
{
    return pes_shim_read_ts(p_pes + 14);
}

/** returns a pointer to the first payload octet of a PES packet having an
 * optional header */
static inline uint8_t *pes_payload(uint8_t *p_pes)
{
    return p_pes + PES_HEADER_SIZE_NOPTS + pes_get_headerlength(p_pes);
}

#ifdef __cplusplus
}
#endif

#endif
