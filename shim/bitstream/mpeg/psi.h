/*
 * bitstream/mpeg/psi.h -- CLEAN-ROOM SHIM, *not* the real biTStream.
 *
 * API-compatible stand-in for the part of biTStream's <bitstream/mpeg/psi.h>
 * used by Upipe's TS pipes, written from ISO/IEC 13818-1 for verification
 * purposes (see ../common.h and ../../README.md).
 *
 * All functions take a pointer to the first byte (table_id) of a section.
 *
 * ISO/IEC 13818-1 2.4.4.10 private_section() (generic long/short section):
 *   byte 0      table_id
 *   byte 1      section_syntax_indicator(1) private_indicator(1) reserved(2)
 *               section_length[11..8](4)
 *   byte 2      section_length[7..0]  (octets following byte 2, incl. CRC)
 *  if section_syntax_indicator:
 *   byte 3..4   table_id_extension
 *   byte 5      reserved(2) version_number(5) current_next_indicator(1)
 *   byte 6      section_number
 *   byte 7      last_section_number
 *   ...
 *   last 4      CRC_32 (Annex A: polynomial 0x04c11db7, initial value
 *               0xffffffff, MSB first, no final inversion)
 */
#ifndef VERIF_SHIM_BITSTREAM_MPEG_PSI_H
#define VERIF_SHIM_BITSTREAM_MPEG_PSI_H

#include <bitstream/common.h>

#ifdef __cplusplus
extern "C"
{
#endif

/*
 * Sizes
 */
/** table_id and section_length */
#define PSI_HEADER_SIZE         3
/** header of a section with section_syntax_indicator == 1 */
#define PSI_HEADER_SIZE_SYNTAX1 8
/** size of the trailing CRC_32 */
#define PSI_CRC_SIZE            4
/** maximum section_length of an ISO-defined section (10 significant bits) */
#define PSI_MAX_SIZE            1021
/** maximum section_length of a private section */
#define PSI_PRIVATE_MAX_SIZE    4093

/*
 * Short header (bytes 0..2)
 */
/** Initialises bytes 1 (and 5 with long syntax): sets reserved bits to 1,
 * section_syntax_indicator to b_syntax, and clears section_length[11..8],
 * version_number and current_next_indicator. table_id is left untouched. */
static inline void psi_init(uint8_t *p_section, bool b_syntax)
{
    p_section[1] = 0x70;
    if (b_syntax) {
        p_section[1] |= 0x80;
        p_section[5] = 0xc0;
    }
}

static inline void psi_set_tableid(uint8_t *p_section, uint8_t i_table_id)
{
    p_section[0] = i_table_id;
}

static inline uint8_t psi_get_tableid(const uint8_t *p_section)
{
    return p_section[0];
}

static inline void psi_set_syntax(uint8_t *p_section)
{
    p_section[1] |= 0x80;
}

static inline bool psi_get_syntax(const uint8_t *p_section)
{
    return !!(p_section[1] & 0x80);
}

/** writes the 12-bit section_length */
static inline void psi_set_length(uint8_t *p_section, uint16_t i_length)
{
    p_section[1] &= ~0xf;
    p_section[1] |= (i_length >> 8) & 0xf;
    p_section[2] = i_length & 0xff;
}

/** returns the 12-bit section_length */
static inline uint16_t psi_get_length(const uint8_t *p_section)
{
    return ((uint16_t)(p_section[1] & 0xf) << 8) | p_section[2];
}

/** Checks that the short header is self-consistent: a section with
 * section_syntax_indicator == 1 must be long enough to hold the long header
 * and the CRC. Only reads bytes 1..2 (the CRC is *not* checked). */
static inline bool psi_validate(const uint8_t *p_section)
{
    if (psi_get_syntax(p_section) &&
        psi_get_length(p_section) <
            PSI_HEADER_SIZE_SYNTAX1 - PSI_HEADER_SIZE + PSI_CRC_SIZE)
        return false;
    return true;
}

/*
 * Long header (bytes 3..7), only with section_syntax_indicator == 1
 */
static inline void psi_set_tableidext(uint8_t *p_section,
                                      uint16_t i_table_id_ext)
{
    p_section[3] = i_table_id_ext >> 8;
    p_section[4] = i_table_id_ext & 0xff;
}

static inline uint16_t psi_get_tableidext(const uint8_t *p_section)
{
    return ((uint16_t)p_section[3] << 8) | p_section[4];
}

static inline void psi_set_version(uint8_t *p_section, uint8_t i_version)
{
    p_section[5] = (p_section[5] & ~0x3e) | ((i_version << 1) & 0x3e);
}

static inline uint8_t psi_get_version(const uint8_t *p_section)
{
    return (p_section[5] & 0x3e) >> 1;
}

static inline void psi_set_current(uint8_t *p_section)
{
    p_section[5] |= 0x1;
}

static inline bool psi_get_current(const uint8_t *p_section)
{
    return !!(p_section[5] & 0x1);
}

static inline void psi_set_section(uint8_t *p_section, uint8_t i_section)
{
    p_section[6] = i_section;
}

static inline uint8_t psi_get_section(const uint8_t *p_section)
{
    return p_section[6];
}

static inline void psi_set_lastsection(uint8_t *p_section,
                                       uint8_t i_last_section)
{
    p_section[7] = i_last_section;
}

static inline uint8_t psi_get_lastsection(const uint8_t *p_section)
{
    return p_section[7];
}

/*
 * CRC_32 (Annex A)
 */
/** @internal computes the MPEG-2 CRC over i_size octets */
static inline uint32_t psi_shim_crc32(const uint8_t *p, size_t i_size)
{
    uint32_t i_crc = 0xffffffff;
    while (i_size--) {
        i_crc ^= (uint32_t)*p++ << 24;
        for (int i = 0; i < 8; i++)
            i_crc = (i_crc << 1) ^ ((i_crc & 0x80000000) ? 0x04c11db7 : 0);
    }
    return i_crc;
}

/** computes and writes the CRC_32 in the last 4 octets of the section;
 * section_length must have been set, and must be >= 4 */
static inline void psi_set_crc(uint8_t *p_section)
{
    uint16_t i_end = PSI_HEADER_SIZE + psi_get_length(p_section) -
                     PSI_CRC_SIZE;
    uint32_t i_crc = psi_shim_crc32(p_section, i_end);
    p_section[i_end] = i_crc >> 24;
    p_section[i_end + 1] = (i_crc >> 16) & 0xff;
    p_section[i_end + 2] = (i_crc >> 8) & 0xff;
    p_section[i_end + 3] = i_crc & 0xff;
}

/** returns true if the CRC_32 of the whole section is correct */
static inline bool psi_check_crc(const uint8_t *p_section)
{
    uint16_t i_length = psi_get_length(p_section);
    if (i_length < PSI_CRC_SIZE)
        return false;
    return psi_shim_crc32(p_section, PSI_HEADER_SIZE + i_length) == 0;
}

#ifdef __cplusplus
}
#endif

#endif
