/*
 * bitstream/common.h -- CLEAN-ROOM SHIM, *not* the real biTStream.
 *
 * This header is part of a small, API-compatible stand-in for the subset of
 * VideoLAN's header-only "biTStream" library that the Upipe MPEG-TS pipes and
 * H.264/H.265 framers use. It was written from the public standards
 * (ISO/IEC 13818-1, ISO/IEC 14496-10/-15, ITU-T H.265) for verification
 * purposes only, because biTStream is not installed in the verification
 * sandbox. Only function names, argument order and observable semantics
 * follow biTStream; no biTStream source was copied.
 *
 * Conventions shared by all shim headers:
 *  - everything is `static inline` or a #define; nothing needs linking;
 *  - accessors never read or write outside the bytes that the syntax element
 *    they handle occupies (Upipe frequently hands them pointers to partially
 *    mapped headers, e.g. `pes_header - PES_HEADER_SIZE`);
 *  - predicates return a normalised bool (0 or 1).
 */
#ifndef VERIF_SHIM_BITSTREAM_COMMON_H
#define VERIF_SHIM_BITSTREAM_COMMON_H

#include <stdint.h>
#include <stdbool.h>
#include <stddef.h>
#include <string.h>

/** Marks the shim so that code can tell it from the real library. */
#define BITSTREAM_VERIF_SHIM 1

#endif
