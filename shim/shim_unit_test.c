/*
 * Unit test of the clean-room biTStream shim itself: known-answer vectors
 * derived by hand from the standards, and set/get round trips for the parts
 * that the Upipe unit tests do not exercise (PSI long header and CRC, avcC
 * and hvcC parsing and validation, H.265 NAL header).
 */
#undef NDEBUG
#include <assert.h>
#include <stdio.h>
#include <string.h>

#include <bitstream/mpeg/ts.h>
#include <bitstream/mpeg/pes.h>
#include <bitstream/mpeg/psi.h>
#include <bitstream/mpeg/h264.h>
#include <bitstream/itu/h265.h>

static void test_ts(void)
{
    uint8_t ts[TS_SIZE];
    memset(ts, 0xaa, sizeof(ts));
    ts_init(ts);
    ts_set_pid(ts, 0x1abc);
    ts_set_unitstart(ts);
    ts_set_payload(ts);
    ts_set_cc(ts, 0x1d); /* truncated to 4 bits */
    const uint8_t header[4] = { 0x47, 0x5a, 0xbc, 0x1d };
    assert(!memcmp(ts, header, 4));
    assert(ts_validate(ts) && ts_get_pid(ts) == 0x1abc &&
           ts_get_unitstart(ts) && !ts_get_transporterror(ts) &&
           ts_has_payload(ts) && !ts_has_adaptation(ts) &&
           ts_get_cc(ts) == 0xd);
    assert(ts_payload(ts) == ts + 4);

    /* adaptation_field_length 0: a single octet is written */
    ts_set_adaptation(ts, 0);
    assert(ts[3] == 0x3d && ts[4] == 0 && ts[5] == 0xaa);
    assert(ts_payload(ts) == ts + 5);

    /* PCR + stuffing; base = 0x1_2345_6789, ext = 0x123 (9 bits) */
    ts_set_adaptation(ts, 10);
    assert(ts[5] == 0 && ts[6] == 0xff && ts[14] == 0xff && ts[15] == 0xaa);
    tsaf_set_randomaccess(ts);
    tsaf_set_pcr(ts, UINT64_C(0x123456789));
    tsaf_set_pcrext(ts, 0x123);
    /* 33 bits 1 0010 0011 0100 0101 0110 0111 1000 1001, 6 reserved,
     * 9 bits 1 0010 0011 */
    const uint8_t af[8] = { 10, 0x50, 0x91, 0xa2, 0xb3, 0xc4, 0xff, 0x23 };
    assert(!memcmp(ts + 4, af, 8));
    assert(ts[12] == 0xff && ts[14] == 0xff);
    assert(tsaf_has_pcr(ts) && tsaf_has_randomaccess(ts) &&
           !tsaf_has_discontinuity(ts));
    assert(tsaf_get_pcr(ts) == UINT64_C(0x123456789));
    assert(tsaf_get_pcrext(ts) == 0x123);
    assert(ts_payload(ts) == ts + 15);
    tsaf_set_discontinuity(ts);
    assert(ts[5] == 0xd0);

    ts_pad(ts);
    assert(ts[0] == 0x47 && ts[1] == 0x1f && ts[2] == 0xff && ts[3] == 0x10);
    for (int i = 4; i < TS_SIZE; i++)
        assert(ts[i] == 0xff);

    assert(ts_check_duplicate(3, 3) && !ts_check_duplicate(4, 3));
    assert(!ts_check_discontinuity(4, 3) && !ts_check_discontinuity(0, 15));
    assert(ts_check_discontinuity(5, 3) && ts_check_discontinuity(3, 3));
}

static void test_pes(void)
{
    uint8_t pes[PES_HEADER_SIZE_PTSDTS + 2];
    memset(pes, 0xaa, sizeof(pes));
    pes_init(pes);
    pes_set_streamid(pes, PES_STREAM_ID_VIDEO_MPEG);
    pes_set_length(pes, 0x1234);
    pes_set_headerlength(pes, 11);
    assert(pes[19] == 0xff && pes[20] == 0xaa);
    pes_set_dataalignment(pes);
    pes_set_pts(pes, UINT64_C(0x123456789));
    /* PTS only: '0010' 100 1, 10001101, 0001010 1, 11001111, 0001001 1 */
    const uint8_t pts_only[14] = { 0, 0, 1, 0xe0, 0x12, 0x34, 0x84, 0x80, 11,
                                   0x29, 0x8d, 0x15, 0xcf, 0x13 };
    assert(!memcmp(pes, pts_only, 14));
    assert(pes_validate(pes) && pes_validate_header(pes) &&
           pes_validate_pts(pes) && !pes_validate_dts(pes));
    assert(pes_has_pts(pes) && !pes_has_dts(pes));
    pes_set_dts(pes, UINT64_C(0x1ffffffff));
    assert(pes[7] == 0xc0 && pes[9] == 0x39);
    const uint8_t dts[5] = { 0x1f, 0xff, 0xff, 0xff, 0xff };
    assert(!memcmp(pes + 14, dts, 5));
    assert(pes_validate_pts(pes) && pes_validate_dts(pes));
    assert(pes_get_pts(pes) == UINT64_C(0x123456789));
    assert(pes_get_dts(pes) == UINT64_C(0x1ffffffff));
    assert(pes_get_streamid(pes) == 0xe0 && pes_get_length(pes) == 0x1234 &&
           pes_get_headerlength(pes) == 11 && pes_get_dataalignment(pes));
    assert(pes_payload(pes) == pes + 20);
    pes[11] &= ~1; /* break a marker bit */
    assert(!pes_validate_pts(pes) && !pes_validate_dts(pes));
    pes[2] = 2;
    assert(!pes_validate(pes));
}

static void test_psi(void)
{
    /* CRC-32/MPEG-2 check value */
    assert(psi_shim_crc32((const uint8_t *)"123456789", 9) == 0x0376e6e7);

    /* a PAT with one program (1 -> PMT PID 0x100), TSID 1, version 0 */
    uint8_t pat[16];
    memset(pat, 0, sizeof(pat));
    psi_init(pat, true);
    psi_set_tableid(pat, 0x0);
    psi_set_length(pat, 13);
    psi_set_tableidext(pat, 1);
    psi_set_version(pat, 0);
    psi_set_current(pat);
    psi_set_section(pat, 0);
    psi_set_lastsection(pat, 0);
    pat[8] = 0x00; pat[9] = 0x01; pat[10] = 0xe1; pat[11] = 0x00;
    const uint8_t header[8] = { 0x00, 0xf0, 0x0d, 0x00, 0x01, 0xc1, 0x00,
                                0x00 };
    assert(!memcmp(pat, header, 8));
    psi_set_crc(pat);
    assert(psi_check_crc(pat) && psi_validate(pat));
    assert(psi_get_syntax(pat) && psi_get_length(pat) == 13 &&
           psi_get_tableidext(pat) == 1 && psi_get_version(pat) == 0 &&
           psi_get_current(pat) && psi_get_section(pat) == 0 &&
           psi_get_lastsection(pat) == 0);
    pat[9] ^= 0x10;
    assert(!psi_check_crc(pat));
    psi_set_version(pat, 31);
    assert(pat[5] == 0xff && psi_get_version(pat) == 31);

    psi_set_length(pat, 8); /* too short for long header + CRC */
    assert(!psi_validate(pat));
    psi_init(pat, false);
    assert(pat[1] == 0x70);
    psi_set_length(pat, 0xfff);
    assert(pat[1] == 0x7f && pat[2] == 0xff && psi_get_length(pat) == 0xfff);
    assert(psi_validate(pat));
}

static void test_h264(void)
{
    assert(h264nalst_get_type(0x65) == H264NAL_TYPE_IDR &&
           h264nalst_get_ref(0x65) == 3);
    assert(h264nalst_get_type(0x09) == H264NAL_TYPE_AUD &&
           h264nalst_get_ref(0x09) == 0);
    assert(h264naltype_is_vcl(H264NAL_TYPE_NONIDR) &&
           h264naltype_is_vcl(H264NAL_TYPE_IDR) &&
           !h264naltype_is_vcl(H264NAL_TYPE_SEI) && !h264naltype_is_vcl(0));

    static const uint8_t sps[5] = { 0x67, 0x42, 0xc0, 0x1e, 0x80 };
    static const uint8_t pps[3] = { 0x68, 0xce, 0x38 };
    uint8_t avcc[H264AVCC_HEADER + H264AVCC_HEADER2 + H264AVCC_SPS_HEADER +
                 H264AVCC_PPS_HEADER + sizeof(sps) + sizeof(pps)];
    memset(avcc, 0xaa, sizeof(avcc));
    h264avcc_init(avcc);
    h264avcc_set_profile(avcc, 0x42);
    h264avcc_set_profile_compatibility(avcc, 0xc0);
    h264avcc_set_level(avcc, 0x1e);
    h264avcc_set_length_size_1(avcc, 3);
    h264avcc_set_nb_sps(avcc, 1);
    uint8_t *p = h264avcc_get_spsh(avcc, 0);
    h264avcc_spsh_set_length(p, sizeof(sps));
    memcpy(h264avcc_spsh_get_sps(p), sps, sizeof(sps));
    h264avcc_set_nb_pps(avcc, 1);
    p = h264avcc_get_ppsh(avcc, 0);
    h264avcc_ppsh_set_length(p, sizeof(pps));
    memcpy(h264avcc_ppsh_get_pps(p), pps, sizeof(pps));
    assert(h264avcc_get_ppsh(avcc, 1) == avcc + sizeof(avcc));

    static const uint8_t expected[] = {
        0x01, 0x42, 0xc0, 0x1e, 0xff, 0xe1,
        0x00, 0x05, 0x67, 0x42, 0xc0, 0x1e, 0x80,
        0x01, 0x00, 0x03, 0x68, 0xce, 0x38
    };
    assert(sizeof(expected) == sizeof(avcc) &&
           !memcmp(avcc, expected, sizeof(avcc)));
    assert(h264avcc_validate(avcc, sizeof(avcc)));
    for (size_t i = 0; i < sizeof(avcc); i++)
        assert(!h264avcc_validate(avcc, i));
    assert(h264avcc_get_length_size_1(avcc) == 3 &&
           h264avcc_get_nb_sps(avcc) == 1 && h264avcc_get_nb_pps(avcc) == 1);
    assert(h264avcc_spsh_get_length(h264avcc_get_spsh(avcc, 0)) == 5);
    assert(h264avcc_ppsh_get_length(h264avcc_get_ppsh(avcc, 0)) == 3);
    avcc[0] = 2;
    assert(!h264avcc_validate(avcc, sizeof(avcc)));
}

static void test_h265(void)
{
    assert(h265nalst_get_type(0x40) == H265NAL_TYPE_VPS);
    assert(h265nalst_get_type(0x42) == H265NAL_TYPE_SPS);
    assert(h265nalst_get_type(0x26) == H265NAL_TYPE_IDR_W_RADL);
    uint8_t aud[5] = { 0, 0, 1, 0, 1 };
    h265nal_set_type(aud, H265NAL_TYPE_AUD);
    assert(aud[3] == 0x46 && aud[4] == 0x01);
    assert(h265nal_get_type(aud) == H265NAL_TYPE_AUD);

    static const uint8_t vps[4] = { 0x40, 0x01, 0x0c, 0x01 };
    static const uint8_t sps[3] = { 0x42, 0x01, 0x01 };
    static const uint8_t pps[5] = { 0x44, 0x01, 0xc1, 0x72, 0xb4 };
    uint8_t hvcc[H265HVCC_HEADER + 3 * H265HVCC_ARRAY_HEADER +
                 4 * H265HVCC_NALU_HEADER + sizeof(vps) + sizeof(sps) +
                 2 * sizeof(pps)];
    memset(hvcc, 0xaa, sizeof(hvcc));
    h265hvcc_init(hvcc);
    h265hvcc_set_profile_space(hvcc, 0);
    h265hvcc_set_tier(hvcc);
    h265hvcc_set_profile_idc(hvcc, 1);
    h265hvcc_set_profile_compatibility(hvcc, 0x60000000);
    h265hvcc_set_constraint_indicator(hvcc, UINT64_C(0x900000000000));
    h265hvcc_set_level_idc(hvcc, H265VPS_LEVEL_4_1);
    h265hvcc_set_chroma_format(hvcc, H265SPS_CHROMA_420);
    h265hvcc_set_length_size_1(hvcc, 3);
    h265hvcc_set_num_of_arrays(hvcc, 3);

    uint8_t *a = h265hvcc_get_array(hvcc, 0);
    h265hvcc_array_set_nal_unit_type(a, H265NAL_TYPE_VPS);
    h265hvcc_array_set_num_nalus(a, 1);
    uint8_t *n = h265hvcc_array_get_nalu(a, 0);
    h265hvcc_nalu_set_length(n, sizeof(vps));
    memcpy(h265hvcc_nalu_get_nalu(n), vps, sizeof(vps));

    a = h265hvcc_get_array(hvcc, 1);
    h265hvcc_array_set_nal_unit_type(a, H265NAL_TYPE_SPS);
    h265hvcc_array_set_num_nalus(a, 1);
    n = h265hvcc_array_get_nalu(a, 0);
    h265hvcc_nalu_set_length(n, sizeof(sps));
    memcpy(h265hvcc_nalu_get_nalu(n), sps, sizeof(sps));

    a = h265hvcc_get_array(hvcc, 2);
    h265hvcc_array_set_nal_unit_type(a, H265NAL_TYPE_PPS);
    h265hvcc_array_set_num_nalus(a, 2);
    for (int i = 0; i < 2; i++) {
        n = h265hvcc_array_get_nalu(a, i);
        h265hvcc_nalu_set_length(n, sizeof(pps));
        memcpy(h265hvcc_nalu_get_nalu(n), pps, sizeof(pps));
    }
    assert(h265hvcc_get_array(hvcc, 3) == hvcc + sizeof(hvcc));

    static const uint8_t expected[] = {
        0x01, 0x21, 0x60, 0x00, 0x00, 0x00,
        0x90, 0x00, 0x00, 0x00, 0x00, 0x00, 123,
        0xf0, 0x00, 0xfc, 0xfd, 0xf8, 0xf8, 0x00, 0x00, 0x03, 0x03,
        0xa0, 0x00, 0x01, 0x00, 0x04, 0x40, 0x01, 0x0c, 0x01,
        0xa1, 0x00, 0x01, 0x00, 0x03, 0x42, 0x01, 0x01,
        0xa2, 0x00, 0x02, 0x00, 0x05, 0x44, 0x01, 0xc1, 0x72, 0xb4,
                          0x00, 0x05, 0x44, 0x01, 0xc1, 0x72, 0xb4
    };
    assert(sizeof(expected) == sizeof(hvcc) &&
           !memcmp(hvcc, expected, sizeof(hvcc)));
    assert(h265hvcc_validate(hvcc, sizeof(hvcc)));
    for (size_t i = 0; i < sizeof(hvcc); i++)
        assert(!h265hvcc_validate(hvcc, i));

    assert(h265hvcc_get_profile_space(hvcc) == 0 && h265hvcc_get_tier(hvcc) &&
           h265hvcc_get_profile_idc(hvcc) == 1 &&
           h265hvcc_get_profile_compatibility(hvcc) == 0x60000000 &&
           h265hvcc_get_constraint_indicator(hvcc) ==
               UINT64_C(0x900000000000) &&
           h265hvcc_get_level_idc(hvcc) == 123 &&
           h265hvcc_get_chroma_format(hvcc) == 1 &&
           h265hvcc_get_length_size_1(hvcc) == 3 &&
           h265hvcc_get_num_of_arrays(hvcc) == 3);
    a = h265hvcc_get_array(hvcc, 2);
    assert(h265hvcc_array_get_nal_unit_type(a) == H265NAL_TYPE_PPS &&
           h265hvcc_array_get_num_nalus(a) == 2);
    n = h265hvcc_array_get_nalu(a, 1);
    assert(h265hvcc_nalu_get_length(n) == 5 &&
           !memcmp(h265hvcc_nalu_get_nalu(n), pps, 5));
    hvcc[0] = 0;
    assert(!h265hvcc_validate(hvcc, sizeof(hvcc)));
}

int main(void)
{
    test_ts();
    test_pes();
    test_psi();
    test_h264();
    test_h265();
    printf("shim unit test OK\n");
    return 0;
}
